"""Framework shared by all property checks: translate -> prove -> correspond -> decide -> evidence."""
import fcntl
import hashlib
import json
import os
import re
import subprocess
import sys
import time

VERIF = os.path.dirname(os.path.dirname(os.path.abspath(__file__)))
REPO = os.environ.get('VERIF_REPO', '/repo')
PY = '/venv/bin/python'
COQ = os.path.join(VERIF, 'coq')
BUILD = os.path.join(VERIF, 'build')
GUARD = 'BILLIARD_VERIF'

sys.path.insert(0, os.path.join(VERIF, 'translate'))

TRUSTED_BASE_COMMON = [
    'Coq 8.16.1 kernel (coqc); vm_compute used for case evaluation and finite sweeps; no native_compute',
    'no Axiom/Parameter/Admitted in the development (grep-checked on every run); Print Assumptions output recorded per theorem',
    'translate/pykernel.py + translate/kernels.py (Python-ast subset -> Gallina over Lib/PyVal.v): a mistranslation that also agrees with the implementation on every correspondence case would go unnoticed',
    'harness drivers under /verif/harness (fakes, oracles, canonicalisation of observations)',
    'CPython semantics of the translated subset, modelled in Lib/PyVal.v',
]


MEM_LIMIT = int(os.environ.get('VERIF_MEM_LIMIT_GB', '16')) << 30


def _limit_memory():
    import resource
    resource.setrlimit(resource.RLIMIT_AS, (MEM_LIMIT, MEM_LIMIT))


def sh(cmd, timeout=None, cwd=None, env=None, inp=None):
    t0 = time.time()
    p = subprocess.run(cmd, shell=isinstance(cmd, str), cwd=cwd, env=env, input=inp,
                       stdout=subprocess.PIPE, stderr=subprocess.STDOUT, timeout=timeout,
                       text=True, preexec_fn=_limit_memory)
    return p.returncode, p.stdout, time.time() - t0


class Lock:
    """process-reentrant exclusive lock on the Coq build directory"""
    depth = 0
    fh = None

    def __init__(self, name='build'):
        os.makedirs(BUILD, exist_ok=True)
        self.path = os.path.join(BUILD, name + '.lock')

    def __enter__(self):
        if Lock.depth == 0:
            Lock.fh = open(self.path, 'w')
            fcntl.flock(Lock.fh, fcntl.LOCK_EX)
        Lock.depth += 1
        return self

    def __exit__(self, *a):
        Lock.depth -= 1
        if Lock.depth == 0:
            fcntl.flock(Lock.fh, fcntl.LOCK_UN)
            Lock.fh.close()


# ---------------------------------------------------------------- Coq literals
def cz(n):
    return '(%d)' % n if n < 0 else '%d' % n


def cnat(n):
    assert 0 <= n < 5000
    return '%d%%nat' % n


def cbool(b):
    return 'true' if b else 'false'


def copt(v, f=cz):
    return 'None' if v is None else '(Some %s)' % f(v)


def clist(xs, f=cz):
    return '[' + '; '.join(f(x) for x in xs) + ']'


def cpair(a, b):
    return '(%s, %s)' % (a, b)


# ------------------------------------------------------------------ translate
def translate(names=None):
    """regenerate coq/Gen from REPO's working tree; returns {kernel: error|None}"""
    import pykernel
    import kernels
    allk, extra = kernels.load()
    specs = [k for n, k in allk.items() if names is None or n in names]
    with Lock():
        res = pykernel.generate_all(specs, REPO, os.path.join(COQ, 'Gen'))
        for n, fn in extra.items():
            if names is None or n in names:
                try:
                    text = fn(REPO)
                    err = None
                except Exception as exc:   # fail closed
                    err = '%s: %s' % (type(exc).__name__, exc)
                    text = '(* generation failed: %s *)\nDefinition generation_failed : False := I.\n' % err.replace('*)', '* )')
                path = os.path.join(COQ, 'Gen', n + '.v')
                old = open(path).read() if os.path.exists(path) else None
                if old != text:
                    with open(path, 'w') as fh:
                        fh.write(text)
                res[n] = err
    return res


# ---------------------------------------------------------------------- build
COQ_DIRS = ['Lib', 'Gen', 'Model', 'Proofs', 'Props']


def ensure_makefile():
    """_CoqProject is derived from the directory contents (so that adding a file
    needs no edit of a shared file); the Makefile is regenerated when it changes"""
    mk = os.path.join(COQ, 'Makefile')
    cp = os.path.join(COQ, '_CoqProject')
    files = []
    for d in COQ_DIRS:
        dd = os.path.join(COQ, d)
        if os.path.isdir(dd):
            files += sorted('%s/%s' % (d, f) for f in os.listdir(dd) if f.endswith('.v') and not f.startswith('.'))
    text = '-Q . BV\n-arg -w -arg -notation-overridden,-deprecated-hint-without-locality\n' + '\n'.join(files) + '\n'
    old = open(cp).read() if os.path.exists(cp) else None
    if old != text:
        with open(cp, 'w') as fh:
            fh.write(text)
    if not os.path.exists(mk) or old != text:
        rc, out, _ = sh('coq_makefile -f _CoqProject -o Makefile', cwd=COQ, timeout=120)
        if rc != 0:
            raise RuntimeError('coq_makefile failed: ' + out)


def enclosing_lemma(vfile, line):
    try:
        lines = open(os.path.join(COQ, vfile)).read().split('\n')
    except OSError:
        return None
    pat = re.compile(r'^\s*(?:Local\s+|Global\s+)?(Lemma|Theorem|Corollary|Fact|Example|Definition|Fixpoint|Instance|Program\s+\w+)\s+([A-Za-z0-9_\']+)')
    for i in range(min(line, len(lines)) - 1, -1, -1):
        m = pat.match(lines[i])
        if m:
            return m.group(2)
    return None


def coq_make(targets, force=(), timeout=1500, jobs=8):
    """make the given .vo targets (full .vo build).  `force`: targets to rebuild
    unconditionally (so that Print Assumptions output is produced on this run).
    Returns dict(ok, log, failed_file, failed_line, failed_lemma, wall_s)."""
    with Lock():
        ensure_makefile()
        for t in force:
            for ext in ('', 'k', 's'):
                try:
                    os.remove(os.path.join(COQ, t + ext))
                except OSError:
                    pass
        cmd = ['make', '-j%d' % jobs] + list(targets)
        try:
            rc, out, dt = sh(cmd, cwd=COQ, timeout=timeout)
        except subprocess.TimeoutExpired as exc:
            return dict(ok=False, log=(exc.stdout or '') + '\nTIMEOUT', failed_file=None,
                        failed_line=None, failed_lemma='(build timed out)', wall_s=timeout,
                        cmd=' '.join(cmd))
    res = dict(ok=(rc == 0), log=out, failed_file=None, failed_line=None, failed_lemma=None,
               wall_s=dt, cmd='cd coq && ' + ' '.join(cmd))
    if rc != 0:
        m = re.search(r'File "\./([^"]+)", line (\d+)', out)
        if m:
            res['failed_file'] = m.group(1)
            res['failed_line'] = int(m.group(2))
            res['failed_lemma'] = enclosing_lemma(m.group(1), int(m.group(2)))
    return res


def parse_assumptions(props_file, log):
    """pair each `Print Assumptions X.` of the Props file with its output block"""
    src = open(os.path.join(COQ, props_file)).read()
    names = re.findall(r'^Print Assumptions ([A-Za-z0-9_\']+)\.', src, re.M)
    # isolate the output of this file: blocks appear in order after its COQC line
    blocks = []
    lines = log.split('\n')
    i = 0
    while i < len(lines):
        ln = lines[i]
        if ln.startswith('Closed under the global context'):
            blocks.append([])
        elif ln.startswith('Axioms:'):
            ax = []
            i += 1
            while i < len(lines) and lines[i] and not lines[i].startswith(('Closed under', 'Axioms:', 'COQC', 'File ', 'make')):
                ax.append(lines[i].strip())
                i += 1
            blocks.append(ax)
            continue
        i += 1
    return names, blocks


def theorem_names(props_file):
    src = open(os.path.join(COQ, props_file)).read()
    return re.findall(r'^(?:Theorem|Example|Corollary)\s+([A-Za-z0-9_\']+)', src, re.M)


FORBIDDEN = re.compile(r'\b(Admitted|admit|Axiom|Parameter|Conjecture|Admit Obligations)\b|Unset Guard|bypass_check|type-in-type|impredicative-set')


def cone_files(props_file):
    """transitive `From BV Require …` closure of a Props file (paths relative to coq/)"""
    seen, todo = [], [props_file]
    while todo:
        f = todo.pop()
        if f in seen or not os.path.exists(os.path.join(COQ, f)):
            continue
        seen.append(f)
        text = open(os.path.join(COQ, f)).read()
        text = re.sub(r'\(\*.*?\*\)', '', text, flags=re.S)
        for m in re.finditer(r'From\s+BV\s+Require\s+(?:Import\s+|Export\s+)?([A-Za-z0-9_.\s]+?)\.(?=\s|$)', text):
            for mod in m.group(1).split():
                todo.append(mod.replace('.', '/') + '.v')
        for m in re.finditer(r'(?<!BV )Require\s+(?:Import\s+|Export\s+)?((?:BV\.[A-Za-z0-9_.]+?\s*)+)\.(?=\s|$)', text):
            for mod in m.group(1).split():
                todo.append(mod[3:].replace('.', '/') + '.v')
    return seen


def grep_forbidden(props_file=None):
    bad = []
    files = cone_files(props_file) if props_file else None
    for root, _, fs in os.walk(COQ):
        if '/Cases' in root:
            continue
        for f in fs:
            if f.endswith('.v'):
                p = os.path.join(root, f)
                rel = os.path.relpath(p, COQ)
                if files is not None and rel not in files:
                    continue
                text = open(p).read()
                text = re.sub(r'\(\*.*?\*\)', '', text, flags=re.S)
                for m in FORBIDDEN.finditer(text):
                    bad.append('%s: %s' % (rel, m.group(0)))
    return bad


# ----------------------------------------------------------- case evaluation
def coq_eval(name, header, body_chunks, timeout=600, jobs=8):
    """Write coq/Cases/<name>_<k>.v, one per chunk, each
         <header> Definition cases := [chunk]. Eval vm_compute in (BV.Lib.Cases.codes check cases).
       and return the list of (global_index, code) with code <> 0, plus raw logs.
       `body_chunks`: list of lists of Coq terms (strings) of the case type."""
    cdir = os.path.join(COQ, 'Cases')
    os.makedirs(cdir, exist_ok=True)
    files = []
    base = 0
    for k, chunk in enumerate(body_chunks):
        # unique per process: several checks (C03, C08, C09 share the worker cases) may run at once
        fn = os.path.join(cdir, '%s_p%d_%d.v' % (name, os.getpid(), k))
        with open(fn, 'w') as fh:
            fh.write(header + '\n')
            fh.write('Definition cases_ := [\n' + ';\n'.join(chunk) + '\n].\n')
            fh.write('Eval vm_compute in (codes check_case cases_).\n')
        files.append((fn, base, len(chunk)))
        base += len(chunk)
    procs = []
    results = []
    logs = []

    def launch(fn):
        # output goes to a file: a failing case file makes coqc print the whole term,
        # which would fill a pipe nobody drains
        out = open(fn[:-2] + '.out', 'w')
        p = subprocess.Popen(['coqc', '-Q', '.', 'BV', '-w', '-notation-overridden',
                              os.path.relpath(fn, COQ)], cwd=COQ,
                             stdout=out, stderr=subprocess.STDOUT, text=True, preexec_fn=_limit_memory)
        p.outpath = fn[:-2] + '.out'
        out.close()
        return p
    pending = list(files)
    running = []
    t0 = time.time()
    while pending or running:
        while pending and len(running) < jobs:
            f = pending.pop(0)
            running.append((f, launch(f[0])))
        still = []
        for f, p in running:
            if p.poll() is None:
                still.append((f, p))
                continue
            out = open(p.outpath).read()
            logs.append(out[-20000:])
            if p.returncode != 0:
                raise RuntimeError('case evaluation failed for %s:\n%s' % (f[0], out[-3000:]))
            results.extend(parse_codes(out, f[1]))
        running = still
        if time.time() - t0 > timeout:
            for _, p in running:
                p.kill()
            raise RuntimeError('case evaluation timed out')
        if running:
            time.sleep(0.05)
    for fn, _, _ in files:
        for ext in ('.v', '.vo', '.vok', '.vos', '.glob', '.out'):
            try:
                os.remove(fn[:-2] + ext)
            except OSError:
                pass
        try:
            os.remove(os.path.join(cdir, '.' + os.path.basename(fn)[:-2] + '.aux'))
        except OSError:
            pass
    return sorted(results), logs


def parse_codes(out, base):
    """output of `Eval vm_compute in codes ...` : = [(i, c); ...] : list (nat * Z)"""
    m = re.search(r'=\s*(\[.*?\])\s*:\s*list', out, re.S)
    if not m:
        raise RuntimeError('cannot parse coqc output: ' + out[-2000:])
    body = m.group(1)
    res = []
    for a, b in re.findall(r'\(\s*(\d+)\s*(?:%nat)?\s*,\s*\(?(-?\d+)\)?\s*(?:%Z)?\s*\)', body):
        res.append((base + int(a), int(b)))
    return res


def chunks(xs, n):
    return [xs[i:i + n] for i in range(0, len(xs), n)] or [[]]


# ------------------------------------------------------------- impl drivers
def run_driver(script, payload, timeout=600, extra_env=None, hooks=True):
    """run harness/<script> under the repo's interpreter with PYTHONPATH=REPO.
    payload (JSON-able) goes to stdin; the driver prints one JSON document."""
    env = dict(os.environ)
    env['PYTHONPATH'] = REPO + os.pathsep + os.path.join(VERIF, 'harness')
    env['PYTHONHASHSEED'] = '0'
    env['PYTHONDONTWRITEBYTECODE'] = '1'
    if hooks:
        env[GUARD] = '1'
    if extra_env:
        env.update(extra_env)
    p = subprocess.run([PY, '-u', os.path.join(VERIF, 'harness', script)], input=json.dumps(payload),
                       stdout=subprocess.PIPE, stderr=subprocess.PIPE, text=True, timeout=timeout,
                       env=env, cwd=os.path.join(VERIF, 'harness'))
    if p.returncode != 0:
        raise DriverError('driver %s exited %s\nstderr: %s\nstdout tail: %s' % (
            script, p.returncode, p.stderr[-3000:], p.stdout[-1000:]))
    # last line that parses as JSON is the result (billiard may log to stdout)
    for ln in reversed(p.stdout.strip().split('\n')):
        try:
            return json.loads(ln)
        except ValueError:
            continue
    raise DriverError('driver %s produced no JSON: %s' % (script, p.stdout[-1000:]))


class DriverError(Exception):
    pass


# ------------------------------------------------------------ known findings
def load_known():
    p = os.path.join(VERIF, 'known_findings.json')
    if not os.path.exists(p):
        return []
    return json.load(open(p))['findings']


def write_replay(pid, data):
    os.makedirs(os.path.join(VERIF, 'replays'), exist_ok=True)
    blob = json.dumps(data, sort_keys=True, indent=1, default=str)
    h = hashlib.sha1(blob.encode()).hexdigest()[:10]
    path = os.path.join(VERIF, 'replays', '%s-%s.json' % (pid, h))
    with open(path, 'w') as fh:
        fh.write(blob)
    return os.path.relpath(path, VERIF)


class Result:
    """accumulates what one check run established"""

    def __init__(self, pid, tier, seed):
        self.pid, self.tier, self.seed = pid, tier, seed
        self.t0 = time.time()
        self.alarms = []      # dict(signature, what, replay)  -- concrete failing inputs
        self.broken = []      # dict(kind, name, detail)       -- obligations that no longer check
        self.cov = dict(evaluations=0, distinct_nontrivial=0, rule='', samples=[],
                        traces_validated_against_impl=0, obligations=0, discharged=0,
                        checker_cmd='', trusted_base=list(TRUSTED_BASE_COMMON))
        self.assumptions = []
        self.notes = []

    def add_cov(self, evaluations=0, distinct=0, traces=0, samples=(), rule=None, **extra):
        self.cov['evaluations'] += evaluations
        self.cov['distinct_nontrivial'] += distinct
        self.cov['traces_validated_against_impl'] += traces
        for s in samples:
            if len(self.cov['samples']) < 6:
                self.cov['samples'].append(s)
        if rule:
            self.cov['rule'] = (self.cov['rule'] + ' | ' if self.cov['rule'] else '') + rule
        for k, v in extra.items():
            self.cov[k] = v

    def proof_step(self, props_file, extra_targets=(), kernels_needed=(), trans=None):
        """translate /repo -> coq/Gen and build the cone of Props/<pid>.v (one lock
        region, so a concurrent check cannot swap Gen in between); record
        obligations/assumptions"""
        with Lock():
            if trans is None:
                trans = translate()
            return self._proof_step(props_file, extra_targets, kernels_needed, trans)

    def _proof_step(self, props_file, extra_targets, kernels_needed, trans):
        bad = grep_forbidden(props_file)
        self.cov['cone_files'] = sorted(cone_files(props_file))
        if bad:
            self.broken.append(dict(kind='forbidden', name='forbidden construct', detail='; '.join(bad)))
        for k in kernels_needed:
            if trans and trans.get(k):
                self.broken.append(dict(kind='translator', name=k, detail=trans[k]))
        build = coq_make([props_file + 'o'] + list(extra_targets), force=[props_file + 'o'])
        thms = theorem_names(props_file)
        self.cov['obligations'] += len(thms)
        self.cov['checker_cmd'] = build['cmd'] + '   (full .vo build of the dependency cone; coqc 8.16.1)'
        if build['ok']:
            names, blocks = parse_assumptions(props_file, build['log'])
            self.cov['discharged'] += len(thms)
            axioms = {}
            for n, b in zip(names, blocks):
                axioms[n] = b or 'Closed under the global context'
            self.cov['print_assumptions'] = axioms
            if len(blocks) < len(names):
                self.notes.append('Print Assumptions output incomplete: %d of %d' % (len(blocks), len(names)))
            nonclosed = sorted({a for b in blocks for a in b})
            if nonclosed:
                self.cov['trusted_base'].append('axioms reported by Print Assumptions: ' + '; '.join(nonclosed))
        else:
            self.broken.append(dict(kind='proof', name='%s:%s' % (build['failed_file'], build['failed_lemma']),
                                    detail=build['log'][-1500:]))
            self.cov['print_assumptions'] = {}
        self.cov['proof_build_s'] = round(build['wall_s'], 1)
        if build['ok'] and (self.tier == 'thorough' or os.environ.get('VERIF_COQCHK')):
            # independent re-check of the compiled cone, and the axioms it relies on
            mod = 'BV.' + props_file[:-2].replace('/', '.')
            try:
                rc, out, dt = sh(['coqchk', '-silent', '-o', '-Q', '.', 'BV', mod], cwd=COQ, timeout=1200)
            except subprocess.TimeoutExpired:
                rc, out, dt = 124, 'coqchk timed out', 1200
            summary = out[out.find('CONTEXT SUMMARY'):] if 'CONTEXT SUMMARY' in out else out[-1500:]
            m = re.search(r'\* Axioms:(.*?)\n\s*\n\* Constants', summary, re.S)
            axioms = ' '.join(m.group(1).split()) if m else '?'
            self.cov['coqchk'] = dict(cmd='coqchk -silent -o -Q . BV ' + mod, rc=rc, wall_s=round(dt, 1), axioms=axioms,
                                      nothing_relies_on_type_in_type=('<none>' in summary.split('type-in-type:')[-1][:20]) if 'type-in-type' in summary else None)
            self.cov['trusted_base'].append('coqchk -o on the cone of %s: axioms %s' % (mod, axioms))
            if rc != 0:
                self.broken.append(dict(kind='coqchk', name=mod, detail=summary[-1500:]))
        return build

    def finish(self):
        known = [k for k in load_known() if k['property'] == self.pid and k.get('status') == 'known']
        lines = []
        unknown = []
        seen_known = {}
        for a in self.alarms:
            k = next((k for k in known if k['signature'] == a['signature']), None)
            if k:
                seen_known.setdefault(k['signature'], (k, a))
            else:
                unknown.append(a)
        for sig, (k, a) in sorted(seen_known.items()):
            lines.append('KNOWN-FINDING: property=%s %s [%s]' % (self.pid, k['what'], sig))
        rc = 0
        nviol = 0
        if unknown:
            a = unknown[0]
            path = write_replay(self.pid, dict(property=self.pid, kind='failing-input',
                                               signature=a['signature'], what=a['what'],
                                               replay=a['replay'], seed=self.seed, tier=self.tier,
                                               others=[u['signature'] for u in unknown[1:20]]))
            lines.append('VIOLATION property=%s replay=%s' % (self.pid, path))
            lines.append('  what: %s' % a['what'])
            rc = 1
            nviol = len(unknown)
        elif self.broken:
            path = write_replay(self.pid, dict(property=self.pid, kind='obligation-broken',
                                               broken=self.broken, seed=self.seed, tier=self.tier,
                                               note='no concrete failing input was found by the search; '
                                                    'the property is no longer shown to hold'))
            lines.append('VIOLATION property=%s replay=%s no-failing-input-found' % (self.pid, path))
            for b in self.broken[:5]:
                lines.append('  broken %s: %s' % (b['kind'], b['name']))
            rc = 1
            nviol = 1
        ev = dict(property_id=self.pid, tier=self.tier, seed=self.seed, level='proof',
                  coverage=self.cov, assumptions=self.assumptions,
                  wall_s=round(time.time() - self.t0, 2), violations=nviol)
        if not self.cov.get('discharged'):
            # nothing was discharged on this run (broken build): the proof-level keys do not
            # apply; the exploration counts below remain
            ev['coverage'].pop('discharged', None)
            ev['coverage']['discharged_none'] = True
        if self.notes:
            ev['coverage']['notes'] = self.notes
        ev['coverage']['known_findings_seen'] = sorted(seen_known)
        if not ev['coverage']['samples']:
            ev['coverage']['samples'] = ['(no correspondence cases on this run)']
        # evidence/ describes runs on /repo itself; a run against a scratch copy (VERIF_REPO=...) of
        # a mutated tree must never overwrite it
        evdir = 'evidence' if os.path.realpath(REPO) == '/repo' else 'evidence_scratch'
        ev['repo'] = REPO
        os.makedirs(os.path.join(VERIF, evdir), exist_ok=True)
        with open(os.path.join(VERIF, evdir, self.pid + '.json'), 'w') as fh:
            json.dump(ev, fh, indent=1, sort_keys=True, default=str)
            fh.write('\n')
        for ln in lines:
            print(ln)
        if rc == 0:
            print('OK property=%s tier=%s obligations=%d/%d evaluations=%d wall=%.1fs' % (
                self.pid, self.tier, self.cov['discharged'], self.cov['obligations'],
                self.cov['evaluations'], time.time() - self.t0))
        return rc
