#!/venv/bin/python
"""Regenerate MANIFEST.json from the table below (keeps it valid and uniform)."""
import json
import os
HERE = os.path.dirname(os.path.abspath(__file__))

import importlib
import sys
sys.path.insert(0, HERE)
sys.dont_write_bytecode = True

# checks that have been run end to end on the unchanged tree by the integrator
READY = ['C01', 'C02', 'C03', 'C04', 'C05', 'C06', 'C07', 'C08', 'C09', 'C10', 'C11', 'C12', 'C13', 'C14', 'C15', 'C16', 'C17', 'C18', 'C19', 'C20']

CHECKS = {}
for f in sorted(os.listdir(os.path.join(HERE, 'props'))):
    if f.startswith('C') and f.endswith('.py'):
        if f[:-3] not in READY:
            continue
        mod = importlib.import_module('props.' + f[:-3])
        if getattr(mod, 'MANIFEST', None) and f[:-3] in READY:
            CHECKS[f[:-3]] = mod.MANIFEST

# properties deliberately not claimed, with the reason (see DESIGN.md)
NOT_APPLICABLE = {}


def main():
    props = [json.loads(l)['id'] for l in open(os.path.join(HERE, 'properties.jsonl'))]
    checks = []
    for pid in props:
        if pid not in CHECKS:
            continue
        c = CHECKS[pid]
        checks.append(dict(
            property_id=pid,
            quick_cmd='./check %s --tier quick' % pid,
            thorough_cmd='./check %s --tier thorough' % pid,
            evidence_file='evidence/%s.json' % pid,
            replay_cmd_template='./check %s --replay {path}' % pid,
            engine='coq',
            level_claimed=dict(category='proof', text=c['text'], design_ref='DESIGN.md section ' + c['ref']),
            level_note=c['note'],
            technique=c['technique'],
        ))
    na = [dict(property_id=p, reason=NOT_APPLICABLE.get(p, 'check not built yet in this round (design in DESIGN.md section 5); not claimed'))
          for p in props if p not in CHECKS]
    man = dict(
        version=1,
        setup_cmd='./setup.sh',
        hooks=dict(guard='BILLIARD_VERIF', enable='checks export BILLIARD_VERIF=1 when driving /repo (no source hooks are needed so far)',
                   baseline_off_cmd='cd /repo && env -u BILLIARD_VERIF /venv/bin/python -m pytest -ra -q -p no:cacheprovider --timeout=900 --continue-on-collection-errors',
                   source_commits=[], add_only=True),
        engines=[dict(name='coq', path='coq/', serves_properties=sorted(CHECKS),
                      kind_free_text='Coq 8.16.1 development: Lib (PyVal target language), Gen (regenerated from /repo on every run), Model (executable), Proofs, Props; case evaluation by vm_compute')],
        checks=checks,
        not_applicable=na,
        notes='Every check: translate /repo -> coq/Gen, rebuild the proof cone (full .vo), run the implementation and the model on the same cases, decide. See DESIGN.md.',
    )
    with open(os.path.join(HERE, 'MANIFEST.json'), 'w') as fh:
        json.dump(man, fh, indent=1)
        fh.write('\n')


if __name__ == '__main__':
    main()
