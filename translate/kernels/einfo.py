"""K12: billiard.einfo -- the recursion guard of Traceback.__init__, DEFAULT_MAX_FRAMES,
the truncation marker, and the pickling protocol (`__reduce__`) of the stand-in classes;
billiard.pool.MaybeEncodingError -- constructor shape, whether it defines `__reduce__`, and (if so) the
body of `__reduce__` and of the rebuild function it names, matched statement by statement and emitted
as data (`mee_reduce_attrs`, `mee_rebuild_sets`, `mee_rebuild_init`) that EInfoProofs interprets;
HOW every attribute of the stand-ins `_Frame`, `_Code`, `Traceback` is READ from the live object
(`frame_reads`, `code_reads`, `tb_reads`: a literal, `obj.attr`, `obj.ns.get(k[, d])`, `obj.ns[k]`,
`try: .. = obj.ns[k] except KeyError: pass`, ...) -- `.get(k)` and `[k]` differ on missing keys, and
EInfoProofs.gen_copy_lframe_eq proves that the reads as translated never raise, whatever the live
frame's namespaces hold, and produce the model's stand-in.

Bespoke fail-closed generator (EXTRA_GENERATORS): Traceback.__init__ calls itself and
copies attributes of foreign objects, which is outside pykernel's statement subset, so the
*statements* are matched structurally here (any other shape raises = broken obligation) while
every *expression* that decides something (the guard, the arguments of the recursive call,
the defaults, the DEFAULT_MAX_FRAMES expression) is translated by pykernel's expression
translator.  Output: coq/Gen/K_einfo.v.
"""
import ast
import os

import pykernel
from pykernel import TranslateError, find_func


def _parse(repo, rel):
    with open(os.path.join(repo, rel)) as fh:
        return ast.parse(fh.read())


def _cls(tree, name):
    for n in ast.walk(tree):
        if isinstance(n, ast.ClassDef) and n.name == name:
            return n
    raise TranslateError('class %s not found' % name)


def _strip_doc(body):
    body = list(body)
    if body and isinstance(body[0], ast.Expr) and isinstance(body[0].value, ast.Constant) \
            and isinstance(body[0].value.value, str):
        body = body[1:]
    return body


def _u(n):
    return ast.unparse(n)


def _expect(cond, msg):
    if not cond:
        raise TranslateError('billiard/einfo.py: ' + msg)


def _assigns(stmts):
    """{target text: value node} for a run of simple assignments; anything else raises"""
    out = {}
    for st in stmts:
        _expect(isinstance(st, ast.Assign) and len(st.targets) == 1,
                'unexpected statement `%s`' % _u(st).split('\n')[0])
        t = _u(st.targets[0])
        _expect(t not in out, 'attribute %s assigned twice' % t)
        out[t] = st.value
    return out


def _expr_tr(rel, qual, fnode, consts, local_names, exprs=None):
    k = pykernel.Kernel(dict(name='K_einfo', file=rel, exprs=exprs or {}), None)
    tr = pykernel.FuncTr(k, dict(qual=qual), fnode, consts)
    tr.locals = set(local_names)
    return tr


def _codes(s):
    return '[' + '; '.join(str(ord(ch)) for ch in s) + ']'


def _kwconst(call, name):
    for kw in call.keywords:
        if kw.arg == name:
            _expect(isinstance(kw.value, ast.Constant) and isinstance(kw.value.value, str),
                    '_Truncated: %s is not a string literal' % name)
            return kw.value.value
    raise TranslateError('_Truncated: keyword %s not found' % name)


def _reduce_is_new_dict(tree, cname):
    fn = find_func(tree, cname + '.__reduce__')
    body = _strip_doc(fn.body)
    want = 'return (%s.__new__, (%s,), self.__dict__)' % (cname, cname)
    _expect(len(body) == 1 and _u(body[0]) == want,
            '%s.__reduce__ is not `%s`' % (cname, want))


def _mee_reduce(ptree, mee):
    """MaybeEncodingError.__reduce__ and the module-level function it names, statement by statement
    (fail closed).  Accepted:

        def __reduce__(self):
            return F, (self.a0, ..., self.an)          # a 2-tuple: no state, no iterators

        def F(p0, ..., pn):                            # module level, positional parameters only
            v = MaybeEncodingError.__new__(MaybeEncodingError)
            v.<name> = p_k          (or  v.x, v.y = p_i, p_j)      # any number, each name once
            Exception.__init__(v, p_k, ...)                        # exactly once
            return v

    Returns ([a0..an], [(name, k)..] in program order, [k..] of the __init__ call, F's name); the
    *meaning* (that this restores args and __dict__) is not decided here but proved in Coq about the
    emitted data (EInfoProofs.gen_mee_rebuild)."""
    def bad(msg):
        raise TranslateError('billiard/pool.py: MaybeEncodingError.__reduce__: ' + msg)

    red = [n for n in mee.body if isinstance(n, ast.FunctionDef) and n.name == '__reduce__']
    if len(red) != 1:
        bad('defined %d times' % len(red))
    red = red[0]
    ra = red.args
    if [x.arg for x in ra.args] != ['self'] or ra.vararg or ra.kwarg or ra.kwonlyargs or ra.posonlyargs \
            or red.decorator_list:
        bad('signature is not __reduce__(self)')
    body = _strip_doc(red.body)
    if not (len(body) == 1 and isinstance(body[0], ast.Return) and isinstance(body[0].value, ast.Tuple)
            and len(body[0].value.elts) == 2):
        bad('body is not a single `return (function, (args...))`: `%s`'
            % '; '.join(_u(s) for s in body))
    fn, argt = body[0].value.elts
    if not isinstance(fn, ast.Name):
        bad('the callable `%s` is not a module-level function name' % _u(fn))
    if not isinstance(argt, ast.Tuple):
        bad('the argument tuple `%s` is not a tuple display' % _u(argt))
    red_attrs = []
    for e in argt.elts:
        if not (isinstance(e, ast.Attribute) and isinstance(e.value, ast.Name) and e.value.id == 'self'
                and isinstance(e.ctx, ast.Load)):
            bad('argument `%s` is not an attribute of self' % _u(e))
        red_attrs.append(e.attr)
    defs = [n for n in ptree.body if isinstance(n, (ast.FunctionDef, ast.AsyncFunctionDef, ast.ClassDef))
            and n.name == fn.id]
    rebound = [n for n in ast.walk(ptree) if isinstance(n, ast.Name) and n.id == fn.id
               and isinstance(n.ctx, (ast.Store, ast.Del))]
    if not (len(defs) == 1 and isinstance(defs[0], ast.FunctionDef) and not rebound
            and not defs[0].decorator_list):
        bad('`%s` is not exactly one plain module-level function' % fn.id)
    f = defs[0]
    fa = f.args
    params = [x.arg for x in fa.args]
    if fa.vararg or fa.kwarg or fa.kwonlyargs or fa.posonlyargs or fa.defaults or len(set(params)) != len(params):
        bad('%s must take plain positional parameters' % f.name)
    if len(params) != len(red_attrs):
        bad('%s takes %d parameters but __reduce__ passes %d' % (f.name, len(params), len(red_attrs)))
    fb = _strip_doc(f.body)
    if len(fb) < 2:
        bad('%s: body too short' % f.name)
    first, last = fb[0], fb[-1]
    if not (isinstance(first, ast.Assign) and len(first.targets) == 1 and isinstance(first.targets[0], ast.Name)
            and _u(first.value) == 'MaybeEncodingError.__new__(MaybeEncodingError)'):
        bad('%s does not start with `obj = MaybeEncodingError.__new__(MaybeEncodingError)`: `%s`'
            % (f.name, _u(first)))
    v = first.targets[0].id
    if v in params:
        bad('%s: the new object is bound to a parameter name' % f.name)
    if not (isinstance(last, ast.Return) and isinstance(last.value, ast.Name) and last.value.id == v):
        bad('%s does not end with `return %s`: `%s`' % (f.name, v, _u(last)))

    def param(e):
        if not (isinstance(e, ast.Name) and e.id in params):
            bad('%s: `%s` is not a parameter' % (f.name, _u(e)))
        return params.index(e.id)

    def target(t):
        if not (isinstance(t, ast.Attribute) and isinstance(t.value, ast.Name) and t.value.id == v):
            bad('%s: assignment target `%s` is not an attribute of %s' % (f.name, _u(t), v))
        return t.attr

    sets, inits = [], []
    for st in fb[1:-1]:
        if isinstance(st, ast.Assign) and len(st.targets) == 1:
            t, val = st.targets[0], st.value
            if isinstance(t, ast.Tuple):
                if not (isinstance(val, ast.Tuple) and len(val.elts) == len(t.elts)):
                    bad('%s: unpacking assignment `%s` is not tuple = tuple of equal length' % (f.name, _u(st)))
                ks = [param(e) for e in val.elts]          # right-hand side is evaluated first
                sets += [(target(tt), k) for tt, k in zip(t.elts, ks)]
            else:
                sets.append((target(t), param(val)))
        elif isinstance(st, ast.Expr) and isinstance(st.value, ast.Call) \
                and _u(st.value.func) in ('Exception.__init__', 'BaseException.__init__') \
                and not st.value.keywords and st.value.args \
                and isinstance(st.value.args[0], ast.Name) and st.value.args[0].id == v:
            inits.append([param(e) for e in st.value.args[1:]])
        else:
            bad('%s: statement `%s` is not understood' % (f.name, _u(st).split('\n')[0]))
    if len(inits) != 1:
        bad('%s must call Exception.__init__(%s, ...) exactly once (found %d)' % (f.name, v, len(inits)))
    names = [a for a, _ in sets]
    if len(set(names)) != len(names):
        bad('%s assigns an attribute twice: %r' % (f.name, names))
    return red_attrs, sets, inits[0], f.name


def _str_const(n):
    return isinstance(n, ast.Constant) and isinstance(n.value, str)


def _rd(v, param, where):
    """how one value of a stand-in's constructor is read from the live object `param` -> Coq `rd` term
    (fail closed: anything not listed is a translator error)"""
    def bad():
        raise TranslateError('billiard/einfo.py: %s: the read `%s` is not understood' % (where, _u(v)))

    def ns_of(e):
        # param.<ns>
        if isinstance(e, ast.Attribute) and isinstance(e.value, ast.Name) and e.value.id == param \
                and isinstance(e.ctx, ast.Load):
            return e.attr
        return None

    if isinstance(v, ast.Constant) and (v.value is None or isinstance(v.value, (bool, int, str, bytes))):
        return 'RdConst %s' % _codes(_u(v))
    if isinstance(v, (ast.Dict, ast.Tuple, ast.List)) and not (v.keys if isinstance(v, ast.Dict) else v.elts):
        return 'RdConst %s' % _codes(_u(v))
    if ns_of(v) is not None:
        return 'RdAttr %s' % _codes(v.attr)
    if isinstance(v, ast.Subscript) and isinstance(v.ctx, ast.Load) and ns_of(v.value) is not None \
            and _str_const(v.slice):
        return 'RdIndex %s %s' % (_codes(v.value.attr), _codes(v.slice.value))
    if isinstance(v, ast.Call) and not v.keywords:
        f = v.func
        # param.ns.get(k) / param.ns.get(k, "d") / param.ns.get(k, None)
        if isinstance(f, ast.Attribute) and f.attr == 'get' and ns_of(f.value) is not None \
                and len(v.args) in (1, 2) and _str_const(v.args[0]):
            d = 'None'
            if len(v.args) == 2:
                if _str_const(v.args[1]):
                    d = '(Some %s)' % _codes(v.args[1].value)
                elif not (isinstance(v.args[1], ast.Constant) and v.args[1].value is None):
                    bad()
            return 'RdGet %s %s %s' % (_codes(f.value.attr), _codes(v.args[0].value), d)
        # self.<Class>(param.attr): copy of a sub-object
        if isinstance(f, ast.Attribute) and isinstance(f.value, ast.Name) and f.value.id == 'self' \
                and len(v.args) == 1 and ns_of(v.args[0]) is not None:
            return 'RdSub %s %s' % (_codes(f.attr), _codes(v.args[0].attr))
        # list(param.attr())
        if isinstance(f, ast.Name) and f.id == 'list' and len(v.args) == 1 \
                and isinstance(v.args[0], ast.Call) and not v.args[0].args and not v.args[0].keywords \
                and ns_of(v.args[0].func) is not None:
            return 'RdCall %s' % _codes(v.args[0].func.attr)
    bad()


def _reads(fn, cname):
    """every attribute the constructor `cname.__init__(self, <param>)` stores, with how it is read, in
    program order: [(attribute, key or None, rd term)].  Accepted statements (anything else raises):
        self.a = <read>                       self.a = {"k": <read>, ...}
        self.a = local = {}                   (local: alias of the dict stored in self.a)
        try: local["k"] = <param>.ns["k2"]    (missing key tolerated)
        except KeyError: pass
        if sys.version_info >= (3, 11): <such statements>       (the harness runs 3.12)"""
    where = cname + '.__init__'
    a = fn.args
    _expect(len(a.args) == 2 and a.args[0].arg == 'self' and not a.vararg and not a.kwarg
            and not a.kwonlyargs and not a.defaults, '%s signature changed' % where)
    param = a.args[1].arg
    out, alias, seen = [], {}, set()

    def add(attr, key, rd, src):
        _expect((attr, key) not in seen, '%s: %s%s assigned twice' % (where, attr, '[%r]' % key if key else ''))
        seen.add((attr, key))
        out.append((attr, key, rd, src))

    def self_attr(t):
        if isinstance(t, ast.Attribute) and isinstance(t.value, ast.Name) and t.value.id == 'self' \
                and isinstance(t.ctx, ast.Store):
            return t.attr
        return None

    def stmts(body):
        for st in body:
            line = _u(st).split('\n')[0]
            if isinstance(st, ast.Assign):
                attrs = [self_attr(t) for t in st.targets]
                names = [t.id for t in st.targets if isinstance(t, ast.Name)]
                _expect(sum(x is not None for x in attrs) == 1 and len(names) == len(st.targets) - 1,
                        '%s: unexpected assignment `%s`' % (where, line))
                attr = [x for x in attrs if x is not None][0]
                v = st.value
                if names:
                    _expect(isinstance(v, ast.Dict) and not v.keys,
                            '%s: only an empty dict may be bound to a local as well: `%s`' % (where, line))
                    for n in names:
                        _expect(n not in alias and n != param, '%s: local %s rebound' % (where, n))
                        alias[n] = attr
                if isinstance(v, ast.Dict) and v.keys:
                    _expect(all(k is not None and _str_const(k) for k in v.keys),
                            '%s: dict display with non-literal keys: `%s`' % (where, line))
                    add(attr, None, 'RdConst %s' % _codes('{..}'), '{..}')
                    for k, e in zip(v.keys, v.values):
                        add(attr, k.value, _rd(e, param, where), _u(e))
                else:
                    add(attr, None, _rd(v, param, where), _u(v))
            elif isinstance(st, ast.Try):
                ok = (len(st.body) == 1 and isinstance(st.body[0], ast.Assign) and len(st.body[0].targets) == 1
                      and len(st.handlers) == 1 and not st.orelse and not st.finalbody
                      and isinstance(st.handlers[0].type, ast.Name) and st.handlers[0].type.id == 'KeyError'
                      and st.handlers[0].name is None
                      and len(st.handlers[0].body) == 1 and isinstance(st.handlers[0].body[0], ast.Pass))
                _expect(ok, '%s: unexpected try statement `%s`' % (where, line))
                t, v = st.body[0].targets[0], st.body[0].value
                _expect(isinstance(t, ast.Subscript) and isinstance(t.value, ast.Name) and t.value.id in alias
                        and _str_const(t.slice), '%s: try body does not store into a local dict: `%s`'
                        % (where, _u(st.body[0])))
                rd = _rd(v, param, where)
                _expect(rd.startswith('RdIndex '), '%s: try body does not read `%s.ns[k]`: `%s`'
                        % (where, param, _u(st.body[0])))
                add(alias[t.value.id], t.slice.value, 'RdTryIndex ' + rd[len('RdIndex '):],
                    'try: %s / except KeyError: pass' % _u(v))
            elif isinstance(st, ast.If):
                _expect(_u(st.test) == 'sys.version_info >= (3, 11)' and not st.orelse,
                        '%s: unexpected conditional `%s`' % (where, line))
                stmts(st.body)
            else:
                _expect(False, '%s: unexpected statement `%s`' % (where, line))

    stmts(_strip_doc(fn.body))
    return param, out


# ---- state between two constructor calls (structural; seeded change C12-4: a class-level dict caching
# ---- the _Code copies by (co_filename, co_name, co_firstlineno))
STATE_CLASSES = ('_Code', '_Frame', '_Object', '_Truncated', 'Traceback', 'RemoteTraceback',
                 'ExceptionWithTraceback', 'ExceptionInfo')


def _immutable_literal(v):
    if isinstance(v, ast.Constant):
        return True
    if isinstance(v, ast.Tuple):
        return all(_immutable_literal(e) for e in v.elts)
    if isinstance(v, ast.UnaryOp) and isinstance(v.operand, ast.Constant):
        return True
    return False


def _class_bindings(tree, cname):
    """every class-level binding of `cname`, in program order: (name, Coq `cbind` term).  A method is a
    function; a name bound to a literal that cannot be mutated is CbConst; to another name CbRef; to a
    dict / list / set display, a comprehension or a call CbMutable (a container shared by all instances
    and all constructor calls); anything else CbOther.  `if sys.version_info >= (3, 11):` blocks are
    entered (the harness runs 3.12)."""
    out = []

    def src(n):
        return _codes(_u(n).split('\n')[0][:60])

    def walk(body):
        for st in _strip_doc(body):
            if isinstance(st, (ast.FunctionDef, ast.AsyncFunctionDef)):
                out.append((st.name, 'CbMethod'))
            elif isinstance(st, ast.Assign) or (isinstance(st, ast.AnnAssign) and st.value is not None):
                targets = st.targets if isinstance(st, ast.Assign) else [st.target]
                v = st.value
                if _immutable_literal(v):
                    kind = 'CbConst'
                elif isinstance(v, ast.Name):
                    kind = 'CbRef %s' % _codes(v.id)
                elif isinstance(v, (ast.Dict, ast.List, ast.Set, ast.ListComp, ast.DictComp, ast.SetComp,
                                    ast.GeneratorExp, ast.Call)):
                    kind = 'CbMutable %s' % src(v)
                else:
                    kind = 'CbOther %s' % src(v)
                for t in targets:
                    names = [t] if isinstance(t, ast.Name) else \
                        (list(t.elts) if isinstance(t, (ast.Tuple, ast.List)) else [t])
                    for nm in names:
                        out.append((nm.id, kind) if isinstance(nm, ast.Name) else ('?', 'CbOther %s' % src(nm)))
            elif isinstance(st, ast.AnnAssign) or isinstance(st, ast.Pass):
                continue
            elif isinstance(st, ast.If) and _u(st.test) == 'sys.version_info >= (3, 11)':
                walk(st.body)
                walk(st.orelse)
            else:
                out.append(('?', 'CbOther %s' % src(st)))

    walk(_cls(tree, cname).body)
    return out


def _module_kinds(tree):
    """module-level names of billiard/einfo.py -> Coq `gkind` (what a constructor can reach by name)"""
    import builtins
    kinds = {}

    def bind(name, k):
        # a name bound twice at module level (or rebound anywhere by `global`) is a variable
        kinds[name] = k if name not in kinds else 'GkVariable'

    for st in tree.body:
        if isinstance(st, (ast.Import, ast.ImportFrom)):
            for a in st.names:
                bind((a.asname or a.name).split('.')[0], 'GkModule')
        elif isinstance(st, ast.ClassDef):
            bind(st.name, 'GkClass')
        elif isinstance(st, (ast.FunctionDef, ast.AsyncFunctionDef)):
            bind(st.name, 'GkFunction')
        else:
            # a name bound once to a value that is no container display / comprehension / call result
            # (DEFAULT_MAX_FRAMES = sys.getrecursionlimit() // 8) is a plain value, anything else a variable
            plain = isinstance(st, ast.Assign) and len(st.targets) == 1 and isinstance(st.targets[0], ast.Name) \
                and not isinstance(st.value, ast.Call) \
                and not any(isinstance(x, (ast.Dict, ast.List, ast.Set, ast.ListComp, ast.DictComp, ast.SetComp,
                                           ast.GeneratorExp, ast.Lambda)) for x in ast.walk(st.value))
            for n in ast.walk(st):
                if isinstance(n, ast.Name) and isinstance(n.ctx, (ast.Store, ast.Del)):
                    bind(n.id, 'GkValue' if plain else 'GkVariable')
    for n in ast.walk(tree):
        if isinstance(n, ast.Global):
            for nm in n.names:
                kinds[nm] = 'GkVariable'
    return kinds, set(dir(builtins))


def _ctor_scan(tree, cname, kinds, builtin_names):
    """`cname.__init__`: (globals it reaches: [(name, gkind)], ways it could keep state between two calls:
    [source text]).  A leak is: a global / nonlocal statement; a default argument that is not an immutable
    literal or a name; a store into an attribute or an item of anything but `self` or a local bound in this
    very call to a fresh display (`self.f_locals = fl = {}`); a `del` of such."""
    fn = find_func(tree, cname + '.__init__')
    a = fn.args
    params = {x.arg for x in a.args + a.kwonlyargs + a.posonlyargs}
    if a.vararg:
        params.add(a.vararg.arg)
    if a.kwarg:
        params.add(a.kwarg.arg)
    leaks = []
    for d in list(a.defaults) + [d for d in a.kw_defaults if d is not None]:
        if not (_immutable_literal(d) or isinstance(d, ast.Name)):
            leaks.append('default %s' % _u(d))
    stored, fresh = set(), set()
    for n in ast.walk(fn):
        if isinstance(n, ast.Name) and isinstance(n.ctx, (ast.Store, ast.Del)):
            stored.add(n.id)
        if isinstance(n, ast.Assign) and isinstance(n.value, (ast.Dict, ast.List, ast.Set, ast.Tuple)):
            fresh.update(t.id for t in n.targets if isinstance(t, ast.Name))
        if isinstance(n, ast.comprehension):
            stored.update(x.id for x in ast.walk(n.target) if isinstance(x, ast.Name))
    # a local that is ever bound to something else than a fresh display is not "fresh"
    for n in ast.walk(fn):
        if isinstance(n, ast.Assign) and not isinstance(n.value, (ast.Dict, ast.List, ast.Set, ast.Tuple)):
            for t in n.targets:
                for x in ([t] if isinstance(t, ast.Name) else
                          list(t.elts) if isinstance(t, (ast.Tuple, ast.List)) else []):
                    if isinstance(x, ast.Name):
                        fresh.discard(x.id)
    for n in ast.walk(fn):
        if isinstance(n, (ast.Global, ast.Nonlocal)):
            leaks.append(_u(n))
        if isinstance(n, (ast.Attribute, ast.Subscript)) and isinstance(n.ctx, (ast.Store, ast.Del)):
            base = n.value
            ok = isinstance(base, ast.Name) and (base.id == 'self' and isinstance(n, ast.Attribute)
                                                 or base.id in fresh)
            if not ok:
                leaks.append('store %s' % _u(n))
        if isinstance(n, (ast.Lambda, ast.FunctionDef, ast.AsyncFunctionDef, ast.ClassDef)) and n is not fn:
            leaks.append('nested %s' % type(n).__name__)
    free = []
    for n in ast.walk(fn):
        if isinstance(n, ast.Name) and isinstance(n.ctx, ast.Load) and n.id not in params \
                and n.id not in stored and n.id not in free:
            free.append(n.id)
    globs = []
    for nm in free:
        if nm in kinds:
            globs.append((nm, kinds[nm]))
        elif nm in builtin_names:
            globs.append((nm, 'GkBuiltin'))
        else:
            globs.append((nm, 'GkUnknown'))
    return globs, leaks


def _emit_reads(out, name, comment, reads):
    out.append('(* %s *)' % comment)
    out.append('Definition %s : list (list Z * option (list Z) * rd) :=' % name)
    def note(a, k, src):
        txt = 'self.%s%s = %s' % (a, '[%r]' % k if k is not None else '', src)
        return '(* %s *)' % txt.replace('"', "'").replace('*)', '* )').replace('(*', '( *')
    out.append('  [' + ';\n   '.join('%s\n   (%s, %s, %s)' % (note(a, k, src), _codes(a),
                                                             'Some %s' % _codes(k) if k is not None else 'None', r)
                                     for a, k, r, src in reads) + '].')
    out.append('')



def gen_einfo(repo):
    rel = 'billiard/einfo.py'
    tree = _parse(repo, rel)
    out = ['(* GENERATED by translate/kernels/einfo.py from billiard/einfo.py and billiard/pool.py'
           ' -- do not edit *)',
           'From Coq Require Import ZArith List Bool.',
           'From BV Require Import Lib.PyVal.',
           'Import ListNotations.', 'Open Scope Z_scope.', '']

    # ---- DEFAULT_MAX_FRAMES = <expr over sys.getrecursionlimit()>
    dmf = [st for st in tree.body if isinstance(st, ast.Assign) and len(st.targets) == 1
           and _u(st.targets[0]) == 'DEFAULT_MAX_FRAMES']
    _expect(len(dmf) == 1, 'DEFAULT_MAX_FRAMES must be assigned exactly once at module level')
    init = find_func(tree, 'Traceback.__init__')
    tr = _expr_tr(rel, 'DEFAULT_MAX_FRAMES', init, {}, [],
                  exprs={'sys.getrecursionlimit()': 'reclimit'})
    out.append('(* DEFAULT_MAX_FRAMES = %s *)' % _u(dmf[0].value))
    out.append('Definition default_max_frames (reclimit : pv) : pv := %s.' % tr.expr(dmf[0].value))
    out.append('')

    # ---- Traceback.__init__(self, tb, max_frames=DEFAULT_MAX_FRAMES, depth=0)
    a = init.args
    names = [x.arg for x in a.args]
    _expect(names == ['self', 'tb', 'max_frames', 'depth'] and not a.vararg and not a.kwarg
            and not a.kwonlyargs, 'Traceback.__init__ signature changed: %r' % names)
    _expect(len(a.defaults) == 2, 'Traceback.__init__ must have defaults for max_frames and depth')
    _expect(_u(a.defaults[0]) == 'DEFAULT_MAX_FRAMES',
            'default of max_frames is `%s`, not DEFAULT_MAX_FRAMES' % _u(a.defaults[0]))
    tr = _expr_tr(rel, 'Traceback.__init__', init, {}, ['max_frames', 'depth'])
    out.append('(* def __init__(self, tb, max_frames=DEFAULT_MAX_FRAMES, depth=%s) *)' % _u(a.defaults[1]))
    out.append('Definition init_depth : pv := %s.' % tr.expr(a.defaults[1]))

    body = _strip_doc(init.body)
    _expect(body and isinstance(body[-1], ast.If), 'Traceback.__init__ does not end with the tb_next test')
    head = _assigns(body[:-1])
    want_head = {'self.tb_frame': 'self.Frame(tb.tb_frame)', 'self.tb_lineno': 'tb.tb_lineno',
                 'self.tb_lasti': 'tb.tb_lasti', 'self.tb_next': 'None'}
    got_head = {k: _u(v) for k, v in head.items()}
    _expect(got_head == want_head, 'Traceback.__init__ attribute copies changed: %r' % got_head)
    outer = body[-1]
    _expect(_u(outer.test) == 'tb.tb_next is not None' and not outer.orelse,
            'outer test is `%s`' % _u(outer.test))
    _expect(len(outer.body) == 1 and isinstance(outer.body[0], ast.If),
            'body of the tb_next test is not a single if/else')
    inner = outer.body[0]
    _expect(len(inner.body) == 1 and len(inner.orelse) == 1, 'guard branches must be single assignments')

    def branch(st):
        _expect(isinstance(st, ast.Assign) and len(st.targets) == 1
                and _u(st.targets[0]) == 'self.tb_next', 'branch does not assign self.tb_next')
        v = st.value
        if _u(v) == '_Truncated()':
            return 'Truncate'
        _expect(isinstance(v, ast.Call) and _u(v.func) == 'Traceback' and not v.keywords
                and len(v.args) == 3 and _u(v.args[0]) == 'tb.tb_next',
                'branch value `%s` is neither _Truncated() nor Traceback(tb.tb_next, e1, e2)' % _u(v))
        return '(mk_recurse %s %s)' % (tr.expr(v.args[1]), tr.expr(v.args[2]))

    b_true, b_false = branch(inner.body[0]), branch(inner.orelse[0])
    _expect({b_true == 'Truncate', b_false == 'Truncate'} == {True, False},
            'exactly one branch must truncate and one must recurse')
    out.append('')
    out.append('Inductive action := Stop | Recurse (max_frames depth : pv) | Truncate | Raise (e : exn).')
    out.append('Definition mk_recurse (m d : pv) : action :=')
    out.append('  match m, d with PErr e, _ => Raise e | _, PErr e => Raise e | _, _ => Recurse m d end.')
    out.append('(* if tb.tb_next is not None:  if %s: ... else: ... *)' % _u(inner.test))
    out.append('Definition step (has_next : bool) (v_max_frames v_depth : pv) : action :=')
    out.append('  if has_next then')
    out.append('    match %s with' % tr.expr(inner.test))
    out.append('    | PErr e => Raise e')
    out.append('    | c => if truth c then %s else %s' % (b_true, b_false))
    out.append('    end')
    out.append('  else Stop.')
    out.append('')

    # ---- the marker: _Truncated.__init__
    tinit = find_func(tree, '_Truncated.__init__')
    tas = _assigns(_strip_doc(tinit.body))
    _expect(set(tas) == {'self.tb_lineno', 'self.tb_frame', 'self.tb_next', 'self.tb_lasti'},
            '_Truncated.__init__ assigns %r' % sorted(tas))
    _expect(_u(tas['self.tb_next']) == 'None', '_Truncated.tb_next is not None')
    ttr = _expr_tr(rel, '_Truncated.__init__', tinit, {}, [])
    out.append('Definition marker_lineno : pv := %s.' % ttr.expr(tas['self.tb_lineno']))
    fr = tas['self.tb_frame']
    _expect(isinstance(fr, ast.Call) and _u(fr.func) == '_Object', '_Truncated.tb_frame is not an _Object')
    code = [kw.value for kw in fr.keywords if kw.arg == 'f_code']
    _expect(len(code) == 1 and isinstance(code[0], ast.Call) and _u(code[0].func) == '_Object',
            '_Truncated.tb_frame.f_code is not an _Object')
    out.append('Definition marker_filename : list Z := %s.' % _codes(_kwconst(code[0], 'co_filename')))
    out.append('Definition marker_name : list Z := %s.' % _codes(_kwconst(code[0], 'co_name')))
    out.append('')

    # ---- attribute copies of the stand-ins (shape only; fail closed)
    fas = {_u(st.targets[0]): _u(st.value)
           for st in ast.walk(find_func(tree, '_Frame.__init__'))
           if isinstance(st, ast.Assign) and len(st.targets) == 1}
    _expect(fas.get('self.f_code') == 'self.Code(frame.f_code)' and fas.get('self.f_lineno') == 'frame.f_lineno',
            '_Frame.__init__ no longer copies f_code/f_lineno verbatim')
    cas = {_u(st.targets[0]): _u(st.value)
           for st in ast.walk(find_func(tree, '_Code.__init__'))
           if isinstance(st, ast.Assign) and len(st.targets) == 1}
    _expect(cas.get('self.co_filename') == 'code.co_filename' and cas.get('self.co_name') == 'code.co_name',
            '_Code.__init__ no longer copies co_filename/co_name verbatim')
    cattrs = {_u(st.targets[0]): _u(st.value) for c in ('Traceback', '_Frame')
              for st in _cls(tree, c).body if isinstance(st, ast.Assign)}
    _expect(cattrs.get('Frame') == '_Frame' and cattrs.get('Code') == '_Code',
            'Traceback.Frame / _Frame.Code rebound: %r' % cattrs)


    # ---- HOW each attribute of the stand-ins is read (data; the totality proof is in EInfoProofs)
    out.append('(* how a value stored by a stand-in constructor is read from the live object (the')
    out.append('   constructor\'s parameter):  literal | obj.a | list(obj.a()) | self.C(obj.a) |')
    out.append('   obj.ns.get(k[, "d"]) | obj.ns[k] (KeyError when k is missing) |')
    out.append('   try: .. = obj.ns[k] except KeyError: pass *)')
    out.append('Inductive rd :=')
    out.append('| RdConst (c : list Z) | RdAttr (a : list Z) | RdCall (a : list Z) | RdSub (c a : list Z)')
    out.append('| RdGet (ns k : list Z) (d : option (list Z)) | RdIndex (ns k : list Z)')
    out.append('| RdTryIndex (ns k : list Z).')
    out.append('')
    _, fr_reads = _reads(find_func(tree, '_Frame.__init__'), '_Frame')
    _, co_reads = _reads(find_func(tree, '_Code.__init__'), '_Code')
    tparam = init.args.args[1].arg
    tb_reads = [(t[len('self.'):], None, _rd(v, tparam, 'Traceback.__init__'), _u(v)) for t, v in head.items()]
    _emit_reads(out, 'frame_reads', '_Frame.__init__(self, frame): (attribute, dict key, read), program order', fr_reads)
    _emit_reads(out, 'code_reads', '_Code.__init__(self, code)', co_reads)
    _emit_reads(out, 'tb_reads', 'Traceback.__init__(self, tb, ...): the copies before the tb_next test', tb_reads)
    # the marker's frame: f_globals literal and the attributes it has
    mg = [kw.value for kw in fr.keywords if kw.arg == 'f_globals']
    _expect(len(mg) == 1 and isinstance(mg[0], ast.Dict) and all(k is not None and _str_const(k) for k in mg[0].keys)
            and all(isinstance(e, ast.Constant) and (e.value is None or isinstance(e.value, str))
                    for e in mg[0].values),
            '_Truncated.tb_frame.f_globals is not a dict display of string/None literals')
    out.append('(* _Truncated().tb_frame.f_globals: key, value (None = None, Some s = the string s) *)')
    out.append('Definition marker_globals : list (list Z * option (list Z)) := [%s].' % '; '.join(
        '(%s, %s)' % (_codes(k.value), 'None' if e.value is None else 'Some %s' % _codes(e.value))
        for k, e in zip(mg[0].keys, mg[0].values)))
    out.append('')
    # ---- nothing is kept between two constructor calls (data; decided in Coq: EInfoSeqProofs)
    out.append('(* STRUCTURAL.  Class-level bindings of the record classes (a CbMutable one is a container')
    out.append('   shared by every constructor call of the process), what the constructors reach by global')
    out.append('   name, and the statements through which a constructor could keep something for the next')
    out.append('   call (global / nonlocal, mutable default, store into anything but self or a local bound')
    out.append('   to a fresh display in this call, nested function). *)')
    out.append('Inductive cbind := CbMethod | CbConst | CbRef (n : list Z) | CbMutable (src : list Z)')
    out.append('                 | CbOther (src : list Z).')
    out.append('Inductive gkind := GkModule | GkClass | GkFunction | GkBuiltin | GkValue | GkVariable | GkUnknown.')
    binds, globs, leaks = [], [], []
    kinds, bnames = _module_kinds(tree)
    for c in STATE_CLASSES:
        binds += [(c, n, k) for n, k in _class_bindings(tree, c)]
        g, l = _ctor_scan(tree, c, kinds, bnames)
        globs += [(c, n, k) for n, k in g]
        leaks += [(c, x) for x in l]
    out.append('Definition class_bindings : list (list Z * list Z * cbind) :=')
    out.append('  [' + ';\n   '.join('(* %s.%s *) (%s, %s, %s)' % (c, n, _codes(c), _codes(n), k)
                                     for c, n, k in binds) + '].')
    out.append('Definition ctor_globals : list (list Z * list Z * gkind) :=')
    out.append('  [' + ';\n   '.join('(* %s.__init__ reads %s *) (%s, %s, %s)' % (c, n, _codes(c), _codes(n), k)
                                     for c, n, k in globs) + '].')
    out.append('Definition ctor_state_leaks : list (list Z * list Z) :=')
    out.append('  [' + ';\n   '.join('(%s, %s)' % (_codes(c), _codes(x.replace('\n', ' ')[:80])) for c, x in leaks) + '].')
    out.append('')
    # ---- pickling protocol
    for c in ('Traceback', '_Frame', '_Code', '_Truncated'):
        _reduce_is_new_dict(tree, c)
    red = _strip_doc(find_func(tree, 'ExceptionWithTraceback.__reduce__').body)
    _expect(len(red) == 1 and _u(red[0]) == 'return (rebuild_exc, (self.exc, self.tb))',
            'ExceptionWithTraceback.__reduce__ changed: `%s`' % _u(red[0]))
    reb = _strip_doc(find_func(tree, 'rebuild_exc').body)
    _expect([_u(s) for s in reb] == ['exc.__cause__ = RemoteTraceback(tb)', 'return exc'],
            'rebuild_exc changed')
    ei = _cls(tree, 'ExceptionInfo')
    special = [n.name for n in ei.body if isinstance(n, ast.FunctionDef)
               and n.name in ('__reduce__', '__reduce_ex__', '__getstate__', '__setstate__', '__getnewargs__')]
    _expect(not special, 'ExceptionInfo defines %r: its pickling is no longer __new__ + __dict__' % special)
    out.append('(* checked: Traceback/_Frame/_Code/_Truncated.__reduce__ = (C.__new__, (C,), self.__dict__);')
    out.append('   ExceptionWithTraceback.__reduce__ = (rebuild_exc, (self.exc, self.tb)); rebuild_exc sets')
    out.append('   __cause__ and returns exc; ExceptionInfo pickles as __new__ + __dict__ *)')
    out.append('Definition standins_pickle_by_dict : bool := true.')
    out.append('')

    # ---- pool.MaybeEncodingError
    ptree = _parse(repo, 'billiard/pool.py')
    mee = _cls(ptree, 'MaybeEncodingError')
    minit = [n for n in mee.body if isinstance(n, ast.FunctionDef) and n.name == '__init__']
    if not (len(minit) == 1 and [x.arg for x in minit[0].args.args] == ['self', 'exc', 'value']):
        raise TranslateError('billiard/pool.py: MaybeEncodingError.__init__(self, exc, value) not found')
    mb = [_u(s) for s in _strip_doc(minit[0].body)]
    if mb != ['self.exc = repr(exc)', 'self.value = repr(value)',
              'super().__init__(self.exc, self.value)']:
        raise TranslateError('billiard/pool.py: MaybeEncodingError.__init__ body changed: %r' % mb)
    special = sorted(n.name for n in mee.body if isinstance(n, ast.FunctionDef)
                     and n.name in ('__reduce__', '__reduce_ex__', '__getstate__', '__setstate__',
                                    '__getnewargs__', '__getnewargs_ex__', '__new__'))
    if special not in ([], ['__reduce__']):
        raise TranslateError('billiard/pool.py: MaybeEncodingError defines %r; only an added '
                             '__reduce__ is understood' % special)
    out.append('(* MaybeEncodingError.__init__ stores repr(exc), repr(value) and passes them to')
    out.append('   Exception.__init__ (checked); does the class define its own __reduce__? *)')
    if not special:
        out.append('Definition mee_has_reduce : bool := false.')
        red_attrs, sets, init_idx = [], [], []
    else:
        red_attrs, sets, init_idx, fname = _mee_reduce(ptree, mee)
        out.append('(* the BODY of __reduce__ and of the function it names were matched statement by')
        out.append('   statement (any other shape is a translator error):')
        out.append('     __reduce__(self): return (%s, (%s))' % (fname, ', '.join('self.' + a for a in red_attrs)))
        out.append('     %s(p0, ..): obj = MaybeEncodingError.__new__(MaybeEncodingError); obj.<name> = p_k ...;' % fname)
        out.append('     Exception.__init__(obj, p_k ...); return obj *)')
        out.append('Definition mee_has_reduce : bool := true.')
    out.append('(* attributes of self that __reduce__ passes, in order, to the rebuild function *)')
    out.append('Definition mee_reduce_attrs : list (list Z) := [%s].' % '; '.join(_codes(a) for a in red_attrs))
    out.append('(* the rebuild function: obj.<name> = parameter #k, in program order *)')
    out.append('Definition mee_rebuild_sets : list (list Z * nat) := [%s].'
               % '; '.join('(%s, %d%%nat)' % (_codes(a), k) for a, k in sets))
    out.append('(* ... and Exception.__init__(obj, parameter #k, ...) *)')
    out.append('Definition mee_rebuild_init : list nat := [%s].' % '; '.join('%d%%nat' % k for k in init_idx))
    return '\n'.join(out) + '\n'


KERNELS = []
EXTRA_GENERATORS = {'K_einfo': gen_einfo}
