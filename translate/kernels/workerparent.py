"""K_workerparent: the parent side of the job protocol (C03) -- ApplyResult._ack and ApplyResult._set
of billiard/pool.py, translated on every run into coq/Gen/K_workerparent.v; Proofs/WorkerParentGen.v
proves them equal to the hand-written Model.Worker.p_ack / p_set.

Both methods are straight-line `if`s over the handle's attributes plus calls of hooks (timeout hooks,
the callbacks, send_ack, cache.pop, Event.set).  pykernel.FuncTr translates the control flow; the hooks
are *modelled calls* that append to an ordered effect log (g_out) -- their order is part of the lemma.

Source-to-source rewrites (each fail-closed: one exact shape, TranslateError otherwise):

    W1  the try statement around the accept callback (exact text, see ACCEPT_TRY)
            ->  accept_cb_try(pid, time_accepted)                                  (modelled call)
        Its semantics in the prelude: the callback is called (logged); if it raises (oracle g_cb_raises),
        Python evaluates the first except clause's expression `self._propagate_errors`, an attribute
        that is assigned NOWHERE in the file (checked here: no `_propagate_errors` store or class
        attribute exists; the constructor stores `_callbacks_propagate`), so AttributeError replaces
        the callback's exception and leaves _ack.  PyVal.exn has no AttributeError: the modelled call
        sets the ghost g_attr_error and returns `Exc TypeError`.
        If `_propagate_errors` ever becomes defined this generator fails (the model must follow).
    W2  self._success, self._value = obj   ->  the parameter obj is split in two (obj_success, obj_value)
    W3  `with self._mutex:`                ->  its body (one atomic section)

Hook point (2026-09-23, seeded change C03-4): the modelled calls of the two hooks that run between
_ack's decision and its answer (call_timeout_set, accept_cb_try) apply `late`: under the oracle
g_late_cancel the handle's _cancelled flag becomes True there (a _cancel() issued by the accept callback
or by another thread).  A second reading of the flag after a hook is then visible to gen_p_ack; and the
NUMBER of readings of `self._cancelled` in _ack is emitted (ack_cancelled_reads) and proved to be 1
(gen_ack_reads_flag_once), so a re-read placed anywhere breaks a proof.

Text pins (outside the translated subset or one-liners the modelled calls stand for):
ApplyResult.ready, ApplyResult.safe_apply_callback, ApplyResult._cancel, ApplyResult.worker_pids,
ApplyResult.accepted, the nested ResultHandler on_ack / on_ready (the `cache[job]` routing and the
`except (KeyError, AttributeError): pass` that the model's in_cache guard and the swallowed
AttributeError stand for), Pool.send_ack and Pool.get_process_queues (what plain billiard gives:
a no-op and synq=None -- constants emitted for the C03_synack_* theorems).
"""
import ast
import os

import pykernel
from pykernel import TranslateError, FuncTr, Kernel, find_func, module_consts, fld, zlit

FILE = 'billiard/pool.py'

PV_FIELDS = ['self._cancelled', 'self._send_ack', 'self._accepted', 'self._time_accepted',
             'self._worker_pid', 'self._on_timeout_set', 'self._accept_callback',
             'self._on_timeout_cancel', 'self._callback', 'self._error_callback',
             'self._success', 'self._value', 'self._job']
GHOSTS = [('g_event', 'bool'), ('g_incache', 'bool'), ('g_cb_raises', 'bool'),
          ('g_attr_error', 'bool'), ('g_out', 'list eff'), ('g_late_cancel', 'bool')]

ACCEPT_TRY = '''\
try:
    self._accept_callback(pid, time_accepted)
except self._propagate_errors:
    response = NACK
    raise
except Exception:
    response = NACK'''

PINS = {
    'ApplyResult.ready': '''
def ready(self):
    return self._event.is_set()
''',
    'ApplyResult.accepted': '''
def accepted(self):
    return self._accepted
''',
    'ApplyResult._cancel': '''
def _cancel(self):
    self._cancelled = True
''',
    'ApplyResult.worker_pids': '''
def worker_pids(self):
    return [self._worker_pid] if self._worker_pid else []
''',
    'ApplyResult.safe_apply_callback': '''
def safe_apply_callback(self, fun, *args, **kwargs):
    if fun:
        try:
            fun(*args, **kwargs)
        except MemoryError:
            raise
        except self._callbacks_propagate:
            raise
        except Exception as exc:
            error('Pool callback raised exception: %r', exc, exc_info=1)
''',
    'ResultHandler._make_methods.on_ack': '''
def on_ack(job, i, time_accepted, pid, synqW_fd):
    restart_state.R = 0
    try:
        cache[job]._ack(i, time_accepted, pid, synqW_fd)
    except (KeyError, AttributeError):
        pass
''',
    'ResultHandler._make_methods.on_ready': '''
def on_ready(job, i, obj, inqW_fd):
    if on_job_ready is not None:
        on_job_ready(job, i, obj, inqW_fd)
    try:
        item = cache[job]
    except KeyError:
        return
    if self.on_ready_counters:
        worker_pid = next(iter(item.worker_pids()), None)
        if worker_pid and worker_pid in self.on_ready_counters:
            on_ready_counter = self.on_ready_counters[worker_pid]
            with on_ready_counter.get_lock():
                on_ready_counter.value += 1
    if not item.ready():
        if putlock is not None:
            putlock.release()
    try:
        item._set(i, obj)
    except KeyError:
        pass
''',
}

# what a PLAIN billiard pool gives its handles and workers
PLAIN = {
    'Pool.send_ack': '''
def send_ack(self, response, job, i, fd):
    pass
''',
    'Pool.get_process_queues': '''
def get_process_queues(self):
    return (self._inqueue, self._outqueue, None)
''',
}

PRELUDE_HEAD = '''\
(* ordered effects of the hooks *)
Inductive eff :=
| GTimeoutSet | GCbAccept (pid t : pv) | GSendAck (resp pid job fd : pv) | GTimeoutCancel
| GCbResult (v : pv) | GCbError (v : pv).
'''

PRELUDE_CALLS = '''\
Definition log (s : st) (e : eff) : st := set_g_out s (g_out s ++ [e]).
(* HOOK POINT.  While a hook of _ack runs (the timeout hook, the accept callback), other
   parent-side code runs: the callback itself, or another thread -- _ack holds only the
   handle's mutex and ApplyResult._cancel (pinned: `self._cancelled = True`) takes no lock.
   Oracle g_late_cancel: such a _cancel() lands during the hooks.  Every reading of
   self._cancelled that _ack makes AFTER a hook therefore sees the new value. *)
Definition late (s : st) : st :=
  if g_late_cancel s then set_self__cancelled s (PBool true) else s.
(* self._on_timeout_set(self, soft, hard) / self._on_timeout_cancel(self) *)
Definition call_timeout_set (s : st) (_ : list pv) : outcome st pv := Ok PNone (late (log s GTimeoutSet)).
Definition call_timeout_cancel (s : st) (_ : list pv) : outcome st pv := Ok PNone (log s GTimeoutCancel).
(* W1: the try statement around self._accept_callback(pid, time_accepted) *)
Definition accept_cb_try (s : st) (a : list pv) : outcome st pv :=
  match a with
  | [pid; t] =>
      let s := late (log s (GCbAccept pid t)) in
      if g_cb_raises s then Exc TypeError (set_g_attr_error s true)   (* stands for AttributeError *)
      else Ok PNone s
  | _ => Exc TypeError s
  end.
Definition call_send_ack (s : st) (a : list pv) : outcome st pv :=
  match a with
  | [resp; pid; job; fd] => Ok PNone (log s (GSendAck resp pid job fd))
  | _ => Exc TypeError s
  end.
Definition event_set (s : st) (_ : list pv) : outcome st pv := Ok PNone (set_g_event s true).
Definition cache_pop (s : st) (_ : list pv) : outcome st pv := Ok PNone (set_g_incache s false).
(* self.safe_apply_callback(fun, value): `if fun:` call it; which callback = the token *)
Definition safe_apply (s : st) (a : list pv) : outcome st pv :=
  match a with
  | [f; v] => if truth f
              then Ok PNone (log s (match f with PInt 2 => GCbError v | _ => GCbResult v end))
              else Ok PNone s
  | _ => Exc TypeError s
  end.
'''

CALLS = {
    'self._on_timeout_set': 'call_timeout_set',
    'self._on_timeout_cancel': 'call_timeout_cancel',
    'accept_cb_try': 'accept_cb_try',
    'self._send_ack': 'call_send_ack',
    'self._event.set': 'event_set',
    'self._cache.pop': 'cache_pop',
    'self.safe_apply_callback': 'safe_apply',
}
EXPRS = {
    'self': 'PNone', 'self._soft_timeout': 'PNone', 'self._timeout': 'PNone',
    'self.ready()': 'PBool (g_event s)', 'self._event.is_set()': 'PBool (g_event s)',
}


def fail(msg):
    raise TranslateError('%s: K_workerparent: %s' % (FILE, msg))


def expect(cond, msg):
    if not cond:
        fail(msg)


def strip_doc(body):
    if body and isinstance(body[0], ast.Expr) and isinstance(body[0].value, ast.Constant) \
            and isinstance(body[0].value.value, str):
        return body[1:]
    return body


def find_nested(tree, qual):
    """find_func, but the last component may be a function nested in a method"""
    parts = qual.split('.')
    try:
        return find_func(tree, qual)
    except TranslateError:
        outer = find_func(tree, '.'.join(parts[:-1]))
        for node in ast.walk(outer):
            if isinstance(node, ast.FunctionDef) and node.name == parts[-1] and node is not outer:
                return node
    fail('anchor %s not found' % qual)


def check_pins(tree, pins):
    for qual, text in pins.items():
        fn = find_nested(tree, qual)
        want = ast.parse(text.strip()).body[0]
        a = ast.unparse(ast.Module(body=strip_doc(fn.body), type_ignores=[]))
        b = ast.unparse(ast.Module(body=strip_doc(want.body), type_ignores=[]))
        expect(a == b and ast.unparse(fn.args) == ast.unparse(want.args),
               '%s: pinned function changed (the model of the parent side was written against it): %r'
               % (qual, a[:300]))


def propagate_errors_defined(tree):
    """is there any store to an attribute / class attribute named _propagate_errors?"""
    for node in ast.walk(tree):
        if isinstance(node, ast.Attribute) and node.attr == '_propagate_errors' \
                and isinstance(node.ctx, (ast.Store, ast.Del)):
            return True
        if isinstance(node, ast.ClassDef):
            for st in node.body:
                tg = []
                if isinstance(st, ast.Assign):
                    tg = st.targets
                elif isinstance(st, ast.AnnAssign):
                    tg = [st.target]
                if any(isinstance(t, ast.Name) and t.id == '_propagate_errors' for t in tg):
                    return True
                if isinstance(st, ast.FunctionDef) and st.name == '_propagate_errors':
                    return True
        if isinstance(node, ast.Call) and ast.unparse(node.func) == 'setattr' and len(node.args) >= 2 \
                and isinstance(node.args[1], ast.Constant) and node.args[1].value == '_propagate_errors':
            return True
    return False


class TryRewriter(ast.NodeTransformer):
    """W1"""

    def __init__(self):
        self.n = 0

    def visit_Try(self, st):
        got = ast.unparse(st)
        want = ast.unparse(ast.parse(ACCEPT_TRY))
        expect(got == want, 'W1: unsupported try statement in ApplyResult._ack: %r' % got[:300])
        self.n += 1
        return ast.copy_location(ast.parse('accept_cb_try(pid, time_accepted)').body[0], st)


def unwrap_mutex(body, where):
    """W3: the whole body is `with self._mutex:`"""
    expect(len(body) == 1 and isinstance(body[0], ast.With) and len(body[0].items) == 1
           and ast.unparse(body[0].items[0].context_expr) == 'self._mutex'
           and body[0].items[0].optional_vars is None, '%s: body is not `with self._mutex:`' % where)
    return list(body[0].body)


def count_cancelled_reads(tree):
    """how many times ApplyResult._ack reads self._cancelled (Load context), and is the first statement
    of the locked body the test of that one reading?"""
    fn = find_func(tree, 'ApplyResult._ack')
    n = sum(1 for node in ast.walk(fn) if isinstance(node, ast.Attribute) and node.attr == '_cancelled'
            and isinstance(node.ctx, ast.Load))
    stores = sum(1 for node in ast.walk(fn) if isinstance(node, ast.Attribute) and node.attr == '_cancelled'
                 and not isinstance(node.ctx, ast.Load))
    # indirect readings (getattr / vars / __dict__) are outside the translated subset anyway: FuncTr rejects them
    return n, stores


def gen_ack(kernel, tree, consts):
    where = 'ApplyResult._ack'
    fn = find_func(tree, where)
    expect([a.arg for a in fn.args.args] == ['self', 'i', 'time_accepted', 'pid', 'synqW_fd'],
           '%s: signature changed' % where)
    body = unwrap_mutex(strip_doc(fn.body), where)
    expect(not propagate_errors_defined(tree),
           'W1: `_propagate_errors` is now defined somewhere in pool.py: the except clause of the accept '
           'callback no longer raises AttributeError; Model.Worker.p_ack must follow the new behaviour')
    rw = TryRewriter()
    fn.body = [rw.visit(st) for st in body]
    expect(rw.n == 1, 'W1: expected exactly one try statement in %s, found %d' % (where, rw.n))
    ast.fix_missing_locations(fn)
    fs = dict(qual=where, coqname='ack', params=['i', 'time_accepted', 'pid', 'synqW_fd'])
    return FuncTr(kernel, fs, fn, consts).translate()


def gen_set(kernel, tree, consts):
    where = 'ApplyResult._set'
    fn = find_func(tree, where)
    expect([a.arg for a in fn.args.args] == ['self', 'i', 'obj'], '%s: signature changed' % where)
    body = unwrap_mutex(strip_doc(fn.body), where)
    # W2
    hits = [k for k, st in enumerate(body) if ast.unparse(st) == 'self._success, self._value = obj']
    expect(len(hits) == 1, 'W2: `self._success, self._value = obj` not found exactly once in %s' % where)
    body[hits[0]] = ast.parse('self._success, self._value = (obj_success, obj_value)').body[0]
    for node in ast.walk(ast.Module(body=body, type_ignores=[])):
        expect(not (isinstance(node, ast.Name) and node.id == 'obj'), 'W2: obj used besides the unpacking')
    fn.body = body
    fn.args.args = fn.args.args[:2] + [ast.arg(arg='obj_success'), ast.arg(arg='obj_value')]
    ast.fix_missing_locations(fn)
    fs = dict(qual=where, coqname='set', params=['i', 'obj_success', 'obj_value'])
    return FuncTr(kernel, fs, fn, consts).translate()


def plain_facts(tree):
    """Pool.send_ack is a no-op; Pool.get_process_queues returns synq=None"""
    out = {}
    for qual, text in PLAIN.items():
        fn = find_func(tree, qual)
        want = ast.parse(text.strip()).body[0]
        a = ast.unparse(ast.Module(body=strip_doc(fn.body), type_ignores=[]))
        b = ast.unparse(ast.Module(body=strip_doc(want.body), type_ignores=[]))
        out[qual] = (a == b and ast.unparse(fn.args) == ast.unparse(want.args))
    # apply_async hands the handle send_ack only under the synack switch
    ap = find_func(tree, 'Pool.apply_async')
    kws = [ast.unparse(kw.value) for node in ast.walk(ap) if isinstance(node, ast.Call)
           and ast.unparse(node.func) == 'ApplyResult' for kw in node.keywords if kw.arg == 'send_ack']
    out['apply_async'] = kws == ['self.send_ack if self.synack else None']
    return out


def generate(repo):
    path = os.path.join(repo, FILE)
    with open(path) as fh:
        src = fh.read()
    tree = ast.parse(src)
    consts = module_consts(tree)
    check_pins(tree, PINS)
    kernel = Kernel(dict(name='K_workerparent', file=FILE, state=PV_FIELDS, calls=CALLS, exprs=EXPRS), repo)
    defs = [gen_ack(kernel, ast.parse(src), consts), gen_set(kernel, ast.parse(src), consts)]
    out = ['(* GENERATED by translate/kernels/workerparent.py from %s -- do not edit *)' % FILE,
           'From Coq Require Import ZArith List Bool.',
           'From BV Require Import Lib.PyVal.',
           'Import ListNotations.', 'Open Scope Z_scope.', '']
    for c in sorted(kernel.used_consts):
        v = consts[c]
        expect(isinstance(v, int) and not isinstance(v, bool), 'module constant %s is not an int' % c)
        out.append('Definition c_%s : pv := PInt %s.' % (c, zlit(v)))
    out += ['', PRELUDE_HEAD]
    names = [fld(a) for a in PV_FIELDS] + [g for g, _ in GHOSTS]
    types = ['pv'] * len(PV_FIELDS) + [t for _, t in GHOSTS]
    out.append('Record st := mk_st { %s }.' % '; '.join('%s : %s' % (n, t) for n, t in zip(names, types)))
    for n, t in zip(names, types):
        setter = 'set_' + (n[2:] if n.startswith('f_') else n)
        out.append('Definition %s (s : st) (v : %s) : st :=\n  mk_st %s.' % (
            setter, t, ' '.join('v' if m == n else '(%s s)' % m for m in names)))
    out += ['', PRELUDE_CALLS]
    out.extend(defs)
    facts = plain_facts(tree)
    reads, stores = count_cancelled_reads(ast.parse(src))
    expect(stores == 0, 'ApplyResult._ack assigns self._cancelled: the model of the parent side does not')
    out += ['(* readings of self._cancelled in ApplyResult._ack (counted on this run): the decision is taken on ONE reading *)',
            'Definition ack_cancelled_reads : nat := %d%%nat.' % reads]
    out += ['(* what a plain billiard.Pool gives its handles and workers (text-compared on this run) *)',
            'Definition plain_send_ack_is_noop : bool := %s.' % ('true' if facts['Pool.send_ack'] else 'false'),
            'Definition plain_workers_have_no_syn_queue : bool := %s.'
            % ('true' if facts['Pool.get_process_queues'] else 'false'),
            'Definition handles_get_send_ack_iff_synack : bool := %s.' % ('true' if facts['apply_async'] else 'false'),
            '(* pinned on this run: %s *)' % ', '.join(sorted(PINS)),
            'Definition pins_checked : nat := %d%%nat.' % len(PINS)]
    return '\n'.join(out) + '\n'


KERNELS = []
EXTRA_GENERATORS = {'K_workerparent': generate}
