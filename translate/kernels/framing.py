"""K8: message framing of billiard.connection (C13).

Generated into coq/Gen/K_framing.v from the working tree on every run:

  _ConnectionBase._check_closed / _check_readable / _check_writable / close /
  _bad_message_length / send_bytes / recv_bytes / recv_bytes_into     (whole bodies)
  Connection._send_bytes   (header format, range of struct.pack, the 16384 threshold,
                            which buffers go to _send and in which order)
  Connection._recv_bytes   (header size 4, format, the maxsize test, what is read next)
  Connection._send         (the `else:` block of one loop iteration: remaining -= n,
                            the break test, buf = buf[n:]) + exact skeleton check
  Connection._recv         (the loop test and the `else:` block: EOF tests and which
                            exception, remaining -= n) + exact skeleton check

pykernel's FuncTr does the translation; this module only adds four syntactic
rewrites that the shared translator does not have (all fail-closed, all declared
per function in the spec):
  * `with E as m: body`            ->  `m = E; body`            (E listed in with_as)
  * `x, = f(...)`                  ->  `x = f(...)`             (f listed in unpack1)
  * `try: body finally: fin`       ->  `body; fin`              (try_finally_noraise)
  * call argument `m[a:b]`         ->  three arguments m, a, b
and, for the two loops, a rewrite of the local `remaining` into a state field so
that the translated block can update it, `break` -> `return None`,
`buf = buf[e:]` -> `return e`.
Outputs the callee would receive are recorded in pseudo state fields `out.*`.

Buffers: `memoryview(buf)` is the token 0 (the caller's buffer with its own shape),
`memoryview(bytes(m))` the token 1 (a flat copy of its bytes); `len(m)` is
`mv_len m dim0 nbytes`, i.e. the FIRST DIMENSION of the caller's buffer (a TypeError
value for a 0-dimensional one) for token 0 and the byte count for token 1; the token
of the view that is sliced is recorded in `out.base`.  So the generated definition
shows which length the argument checks use on which path.
"""
import ast
import os

import pykernel
from pykernel import FuncTr, Kernel, TranslateError, find_func, module_consts, fld, zlit

STATE = ['self._handle', 'self._readable', 'self._writable', 'self.loop_remaining',
         'out.base', 'out.lo', 'out.hi', 'out.max', 'out.hdr', 'out.w1', 'out.w2', 'out.r1', 'out.r2']

PRELUDE = '''\
(* ---- modelled callees (not translated) ---- *)
Definition noop (s : st) (_ : list pv) : outcome st pv := Ok PNone s.
(* views: token 0 = memoryview(buf), the caller's buffer with its own shape;
   token 1 = memoryview(bytes(m)), a flat copy of its bytes.  len() of a view *)
Definition mv_orig : pv := PInt 0.
Definition mv_flat : pv := PInt 1.
Definition mv_len (m dim0 nbytes : pv) : pv :=
  match m with PInt 0 => dim0 | PInt 1 => nbytes | _ => PErr TypeError end.
(* callee receives the slice m[lo:hi] of the view `base` *)
Definition emit_slice (s : st) (a : list pv) : outcome st pv :=
  match a with
  | [base; lo; hi] => Ok PNone (set_out_hi (set_out_lo (set_out_base s base) lo) hi)
  | _ => Exc TypeError s
  end.
(* self._recv_bytes(maxsize) seen from its callers: records the argument, then
   returns rb (None = message too long, an int = a buffer) or raises *)
Definition recv_raw (rb : pv) (s : st) (a : list pv) : outcome st pv :=
  let s := set_out_max s (match a with [x] => x | _ => PNone end) in
  match rb with PErr e => Exc e s | v => Ok v s end.
(* format "!i": network order, signed 32 bit *)
Definition fmt_i32 : pv := PInt 32.
(* struct.pack(fmt, n): struct.error (shown here as ValueError: PyVal has no
   struct.error) unless -2^31 <= n < 2^31; the packed header is the token 1 *)
Definition pack_hdr (s : st) (a : list pv) : outcome st pv :=
  match a with
  | [PInt 32; PInt n] =>
      if (n <? -2147483648) || (n >? 2147483647) then Exc ValueError s
      else Ok (PInt 1) (set_out_hdr s (PInt n))
  | _ => Exc TypeError s
  end.
(* struct.unpack(fmt, header)[0]: the value on the wire is a parameter *)
Definition unpack_hdr (wire_size : pv) (s : st) (a : list pv) : outcome st pv :=
  match a with
  | [PInt 32; _] => Ok wire_size s
  | _ => Exc TypeError s
  end.
(* self._send(x): first and second buffer handed to the write-all loop.
   tokens: 1 = header, 2 = payload, 3 = header + payload *)
Definition emit_send (s : st) (a : list pv) : outcome st pv :=
  match a with
  | [x] => match f_out_w1 s with
           | PNone => Ok PNone (set_out_w1 s x)
           | _ => Ok PNone (set_out_w2 s x)
           end
  | _ => Exc TypeError s
  end.
(* self._recv(n): sizes asked of the read-exactly loop; returns a buffer token *)
Definition emit_recv (s : st) (a : list pv) : outcome st pv :=
  match a with
  | [x] => match f_out_r1 s with
           | PNone => Ok (PInt 1) (set_out_r1 s x)
           | _ => Ok (PInt 1) (set_out_r2 s x)
           end
  | _ => Exc TypeError s
  end.
'''

RAISES = {'OSError': 'OSError', 'ValueError': 'ValueError', 'EOFError': 'EOFError',
          'BufferTooShort': 'BufferTooShort'}

FUNCS = [
    dict(qual='_ConnectionBase._check_closed', coqname='check_closed', params=[]),
    dict(qual='_ConnectionBase._check_readable', coqname='check_readable', params=[]),
    dict(qual='_ConnectionBase._check_writable', coqname='check_writable', params=[]),
    dict(qual='_ConnectionBase.close', coqname='close', params=[],
         try_finally_noraise=True, calls={'self._close': 'noop'}),
    dict(qual='_ConnectionBase._bad_message_length', coqname='bad_message_length', params=[],
         calls={'self.close': '(fun s (_ : list pv) => close s)'}),
    dict(qual='_ConnectionBase.send_bytes', coqname='send_bytes', params=['buf', 'offset', 'size'],
         exprs={'memoryview(buf)': 'mv_orig', 'm.itemsize': 'itemsize',
                'memoryview(bytes(m))': 'mv_flat', 'len(m)': 'mv_len v_m dim0 nbytes'},
         extra_params=['itemsize', 'dim0', 'nbytes'],
         calls={'self._check_closed': '(fun s (_ : list pv) => check_closed s)',
                'self._check_writable': '(fun s (_ : list pv) => check_writable s)',
                'self._send_bytes': 'emit_slice'}),
    dict(qual='_ConnectionBase.recv_bytes', coqname='recv_bytes', params=['maxlength'],
         exprs={'buf.getvalue()': 'v_buf'}, extra_params=['rb'],
         calls={'self._check_closed': '(fun s (_ : list pv) => check_closed s)',
                'self._check_readable': '(fun s (_ : list pv) => check_readable s)',
                'self._recv_bytes': '(recv_raw rb)',
                'self._bad_message_length': '(fun s (_ : list pv) => bad_message_length s)'}),
    dict(qual='_ConnectionBase.recv_bytes_into', coqname='recv_bytes_into', params=['buf', 'offset'],
         with_as=['memoryview(buf)'],
         exprs={'memoryview(buf)': 'mv_orig', 'm.itemsize': 'itemsize_', 'len(m)': 'nitems',
                'result.tell()': 'msgsize', 'result.getvalue()': 'PNone'},
         extra_params=['itemsize_', 'nitems', 'rb', 'msgsize'],
         calls={'self._check_closed': '(fun s (_ : list pv) => check_closed s)',
                'self._check_readable': '(fun s (_ : list pv) => check_readable s)',
                'self._recv_bytes': '(recv_raw rb)',
                'result.seek': 'noop', 'result.readinto': 'emit_slice'}),
    dict(qual='Connection._send_bytes', coqname='send_plan', params=['buf', 'memoryview'],
         exprs={'len(buf)': 'nbytes', 'isinstance(buf, memoryview)': 'is_mv',
                'buf.tobytes()': 'v_buf', "'!i'": 'fmt_i32'},
         extra_params=['nbytes', 'is_mv'],
         calls={'struct.pack': 'pack_hdr', 'self._send': 'emit_send'}),
    dict(qual='Connection._recv_bytes', coqname='recv_plan', params=['maxsize'],
         unpack1=['struct.unpack'],
         exprs={'buf.getvalue()': 'v_buf', "'!i'": 'fmt_i32'},
         extra_params=['wire_size'],
         calls={'self._recv': 'emit_recv', 'struct.unpack': '(unpack_hdr wire_size)'}),
]


class FTr(FuncTr):
    def call_stmt(self, call, bindname, rest):
        args = []
        for a in call.args:
            if isinstance(a, ast.Subscript) and isinstance(a.slice, ast.Slice) \
                    and isinstance(a.value, ast.Name) and a.slice.step is None \
                    and a.slice.lower is not None and a.slice.upper is not None:
                args += [a.value, a.slice.lower, a.slice.upper]
            else:
                args.append(a)
        call2 = ast.copy_location(ast.Call(func=call.func, args=args, keywords=call.keywords), call)
        return super().call_stmt(call2, bindname, rest)

    def block(self, stmts, loopbody=False):
        if stmts:
            st = stmts[0]
            if isinstance(st, ast.With) and len(st.items) == 1 \
                    and isinstance(st.items[0].optional_vars, ast.Name) \
                    and ast.unparse(st.items[0].context_expr) in self.fs.get('with_as', ()):
                if stmts[1:]:
                    self.err(st, 'statements after the `with ... as` block')
                asg = ast.copy_location(ast.Assign(targets=[st.items[0].optional_vars],
                                                   value=st.items[0].context_expr), st)
                return super().block([asg] + list(st.body), loopbody)
            if isinstance(st, ast.Assign) and len(st.targets) == 1 \
                    and isinstance(st.targets[0], ast.Tuple) and len(st.targets[0].elts) == 1 \
                    and isinstance(st.value, ast.Call) \
                    and ast.unparse(st.value.func) in self.fs.get('unpack1', ()):
                asg = ast.copy_location(ast.Assign(targets=[st.targets[0].elts[0]], value=st.value), st)
                return super().block([asg] + stmts[1:], loopbody)
            if isinstance(st, ast.Try) and not st.handlers and not st.orelse \
                    and self.fs.get('try_finally_noraise'):
                return super().block(list(st.body) + list(st.finalbody) + stmts[1:], loopbody)
        return super().block(stmts, loopbody)


# ---------------------------------------------------------------- the two loops
def _dump(node):
    return ast.dump(node, include_attributes=False)


def _stmt(src):
    return _dump(ast.parse(src).body[0])


HANDLER = _dump(ast.parse(
    "try:\n pass\nexcept (OSError, IOError, socket.error) as exc:\n"
    " if getattr(exc, 'errno', None) != errno.EINTR:\n  raise\n").body[0].handlers[0])


def _need(cond, what):
    if not cond:
        raise TranslateError('billiard/connection.py: %s' % what)


class _Rewrite(ast.NodeTransformer):
    """remaining -> self.loop_remaining; break -> return None; buf = buf[e:] -> return e"""

    def visit_Name(self, node):
        if node.id == 'remaining':
            return ast.copy_location(
                ast.Attribute(value=ast.Name(id='self', ctx=ast.Load()), attr='loop_remaining', ctx=node.ctx), node)
        return node

    def visit_Break(self, node):
        return ast.copy_location(ast.Return(value=ast.Constant(value=None)), node)

    def visit_Assign(self, node):
        if len(node.targets) == 1 and isinstance(node.targets[0], ast.Name) and node.targets[0].id == 'buf':
            v = node.value
            _need(isinstance(v, ast.Subscript) and isinstance(v.value, ast.Name) and v.value.id == 'buf'
                  and isinstance(v.slice, ast.Slice) and v.slice.upper is None and v.slice.step is None
                  and v.slice.lower is not None, '_send: `buf = ...` is not `buf = buf[e:]`')
            return ast.copy_location(ast.Return(value=self.visit(v.slice.lower)), node)
        return self.generic_visit(node)


def _synth(name, params, body, like):
    fn = ast.FunctionDef(
        name=name,
        args=ast.arguments(posonlyargs=[], args=[ast.arg(arg='self')] + [ast.arg(arg=p) for p in params],
                           vararg=None, kwonlyargs=[], kw_defaults=[], kwarg=None, defaults=[]),
        body=body, decorator_list=[], returns=None, type_comment=None)
    ast.copy_location(fn, like)
    ast.fix_missing_locations(fn)
    return fn


def _sig(fn, names, default):
    _need([a.arg for a in fn.args.args] == names and len(fn.args.defaults) == 1
          and _dump(fn.args.defaults[0]) == _dump(ast.parse(default).body[0].value)
          and not fn.args.vararg and not fn.args.kwarg and not fn.args.kwonlyargs,
          '%s: signature changed' % fn.name)


def loop_functions(tree):
    """-> list of (fspec, FunctionDef) synthesised from Connection._send / Connection._recv"""
    out = []
    # ---- _send
    fn = find_func(tree, 'Connection._send')
    _sig(fn, ['self', 'buf', 'write'], '_write')
    b = fn.body
    _need(len(b) == 2 and _dump(b[0]) == _stmt('remaining = len(buf)'), '_send: prologue changed')
    w = b[1]
    _need(isinstance(w, ast.While) and _dump(w.test) == _dump(ast.Constant(value=True)) and not w.orelse
          and len(w.body) == 1 and isinstance(w.body[0], ast.Try), '_send: loop skeleton changed')
    t = w.body[0]
    _need(len(t.body) == 1 and _dump(t.body[0]) == _stmt('n = write(self._handle, buf)'),
          '_send: the write call changed')
    _need(len(t.handlers) == 1 and _dump(t.handlers[0]) == HANDLER and not t.finalbody,
          '_send: the EINTR handler changed')
    _need(t.orelse and isinstance(t.orelse[-1], ast.Assign), '_send: else block does not end in `buf = buf[n:]`')
    body = [_Rewrite().visit(s) for s in t.orelse]
    out.append((dict(qual='Connection._send(else)', coqname='send_else', params=['n']),
                _synth('send_else', ['n'], body, fn)))
    # ---- _recv
    fn = find_func(tree, 'Connection._recv')
    _sig(fn, ['self', 'size', 'read'], '_read')
    b = fn.body
    _need(len(b) == 5 and _dump(b[0]) == _stmt('buf = io.BytesIO()')
          and _dump(b[1]) == _stmt('handle = self._handle') and _dump(b[2]) == _stmt('remaining = size')
          and _dump(b[4]) == _stmt('return buf'), '_recv: prologue/epilogue changed')
    w = b[3]
    _need(isinstance(w, ast.While) and not w.orelse and len(w.body) == 1 and isinstance(w.body[0], ast.Try),
          '_recv: loop skeleton changed')
    t = w.body[0]
    _need(len(t.body) == 1 and _dump(t.body[0]) == _stmt('chunk = read(handle, remaining)'),
          '_recv: the read call changed')
    _need(len(t.handlers) == 1 and _dump(t.handlers[0]) == HANDLER and not t.finalbody,
          '_recv: the EINTR handler changed')
    test = ast.Return(value=_Rewrite().visit(w.test))
    out.append((dict(qual='Connection._recv(while test)', coqname='recv_cond', params=['size']),
                _synth('recv_cond', ['size'], [test], fn)))
    body = [_Rewrite().visit(s) for s in t.orelse]
    out.append((dict(qual='Connection._recv(else)', coqname='recv_else', params=['size'],
                     exprs={'len(chunk)': 'chunk_len', 'chunk': 'PNone'}, extra_params=['chunk_len'],
                     calls={'buf.write': 'noop'}),
                _synth('recv_else', ['size'], body, fn)))
    return out


def generate(repo):
    spec = dict(name='K_framing', file='billiard/connection.py', state=STATE, raises=RAISES, funcs=FUNCS)
    k = Kernel(spec, repo)
    with open(os.path.join(repo, spec['file'])) as fh:
        tree = ast.parse(fh.read())
    consts = module_consts(tree)
    defs = []
    for fs in FUNCS:
        defs.append(FTr(k, fs, find_func(tree, fs['qual']), consts).translate())
    for fs, fn in loop_functions(tree):
        defs.append(FTr(k, fs, fn, consts).translate())
    out = ['(* GENERATED by translate/kernels/framing.py (on pykernel.FuncTr) from billiard/connection.py -- do not edit *)',
           'From Coq Require Import ZArith List Bool.', 'From BV Require Import Lib.PyVal.',
           'Import ListNotations.', 'Open Scope Z_scope.', '']
    for c in sorted(k.used_consts):
        v = consts[c]
        out.append('Definition c_%s : pv := %s.' % (
            c, 'PNone' if v is None else 'PBool %s' % str(v).lower() if isinstance(v, bool) else 'PInt %s' % zlit(v)))
    fields = [fld(a) for a in STATE]
    out.append('Record st := mk_st { %s }.' % '; '.join('%s : pv' % f for f in fields))
    for f in fields:
        out.append('Definition set_%s (s : st) (v : pv) : st :=\n  mk_st %s.' % (
            f[2:], ' '.join('v' if g == f else '(%s s)' % g for g in fields)))
    out.append('')
    out.append(PRELUDE)
    out.extend(defs)
    return '\n'.join(out) + '\n'


KERNELS = []
EXTRA_GENERATORS = {'K_framing': generate}
