"""semfork: under which conditions SemLock.__init__ registers the after-fork reset of a lock object.

A forked child inherits the memory image of every billiard lock object, including the process-local ownership
fields of the primitive (`count`, `last_tid` of _multiprocessing.SemLock).  The only thing that clears them in the child
is the hook SemLock.__init__ registers:

        def _after_fork(obj):
            obj._semlock._after_fork()                 # C: self->count = 0
        util.register_after_fork(self, _after_fork)

run by Process._bootstrap -> util._run_after_forkers() before the child's target.  This module reads, from the working
tree, WHERE in SemLock.__init__ that registration stands: the chain of `if` tests enclosing it.  The result goes to coq/Gen/G_semfork.v
(generator G_semfork, used by C15 and C17) as a constructor of Model/SemFork.fork_guard:

        GuardAlways      unconditional
        GuardPosix       under `if sys.platform != 'win32':`  (and nothing narrower)
        GuardNamedOnly   under `if _semname(self._semlock) is not None:`  -- only semaphores that keep a name, i.e. never
                         under the fork start method (unlink_now: the primitive is created with its name dropped)
        GuardNever       not registered at all

`if sem_unlink:` (the platform has named semaphores; true on every POSIX CPython >= 3.4, checked at run time by the
drivers) may enclose it.  Anything else -- another test, an else branch, a loop, a try, a different hook body, two
registrations -- is a translation error (fail closed).  Also checked: Process._bootstrap runs util._run_after_forkers()
before self.run(), popen_fork's child goes through _bootstrap, and billiard.util takes register_after_fork /
_run_after_forkers from multiprocessing.util (trusted, like the primitive).
"""
import ast
import os

F = 'billiard/synchronize.py'
REGISTER = 'util.register_after_fork(self, _after_fork)'
HOOK = 'def _after_fork(obj):\n    obj._semlock._after_fork()'
T_UNLINK = 'sem_unlink'
T_POSIX = "sys.platform != 'win32'"
T_NAMED = '_semname(self._semlock) is not None'


class SemForkError(Exception):
    pass


def _mentions_register(node):
    for n in ast.walk(node):
        if isinstance(n, ast.Attribute) and n.attr == 'register_after_fork':
            return True
        if isinstance(n, ast.Name) and n.id == 'register_after_fork':
            return True
    return False


def _walk(stmts, path, hits):
    for idx, st in enumerate(stmts):
        if isinstance(st, ast.If):
            t = ast.unparse(st.test)
            _walk(st.body, path + [('if', t)], hits)
            _walk(st.orelse, path + [('else', t)], hits)
        elif isinstance(st, (ast.For, ast.While)):
            _walk(st.body, path + [('loop', '')], hits)
            _walk(st.orelse, path + [('loop-else', '')], hits)
        elif isinstance(st, ast.Try):
            _walk(st.body, path + [('try', '')], hits)
            for h in st.handlers:
                _walk(h.body, path + [('except', '')], hits)
            _walk(st.orelse, path + [('try-else', '')], hits)
            _walk(st.finalbody, path + [('finally', '')], hits)
        elif isinstance(st, ast.With):
            _walk(st.body, path + [('with', '')], hits)
        elif isinstance(st, (ast.FunctionDef, ast.ClassDef)):
            if any(_mentions_register(x) for x in st.body):
                hits.append((path + [('def', st.name)], st, stmts, idx))
        elif _mentions_register(st):
            hits.append((path, st, stmts, idx))


def after_fork_guard(repo):
    """constructor name of Model/SemFork.fork_guard for the working tree's SemLock.__init__"""
    tree = ast.parse(open(os.path.join(repo, F)).read())
    cls = [c for c in tree.body if isinstance(c, ast.ClassDef) and c.name == 'SemLock']
    if len(cls) != 1:
        raise SemForkError('%s: class SemLock not found' % F)
    # no other method of SemLock and no subclass may (un)register hooks or touch the ownership fields
    init = [f for f in cls[0].body if isinstance(f, ast.FunctionDef) and f.name == '__init__']
    if len(init) != 1:
        raise SemForkError('%s: SemLock.__init__ not found' % F)
    for f in cls[0].body:
        if isinstance(f, ast.FunctionDef) and f.name != '__init__' and _mentions_register(f):
            raise SemForkError('%s: SemLock.%s registers after-fork hooks' % (F, f.name))
    for c in tree.body:
        if isinstance(c, ast.ClassDef) and c.name in ('Semaphore', 'BoundedSemaphore', 'Lock', 'RLock') and _mentions_register(c):
            raise SemForkError('%s: class %s registers after-fork hooks of its own' % (F, c.name))
    hits = []
    _walk(init[0].body, [], hits)
    if not hits:
        return 'GuardNever'
    if len(hits) != 1:
        raise SemForkError('%s: SemLock.__init__ mentions register_after_fork %d times' % (F, len(hits)))
    path, st, block, idx = hits[0]
    if ast.unparse(st) != REGISTER:
        raise SemForkError('%s: SemLock.__init__: the after-fork registration is `%s`, expected `%s`'
                           % (F, ast.unparse(st).split('\n')[0], REGISTER))
    if idx == 0 or ast.unparse(block[idx - 1]) != HOOK:
        raise SemForkError('%s: SemLock.__init__: the hook registered is not `def _after_fork(obj): obj._semlock._after_fork()` '
                           'defined right before the registration' % F)
    tests = []
    for kind, t in path:
        if kind != 'if':
            raise SemForkError('%s: SemLock.__init__: the after-fork registration stands in a `%s` block' % (F, kind))
        if t not in (T_UNLINK, T_POSIX, T_NAMED):
            raise SemForkError('%s: SemLock.__init__: the after-fork registration is under the unmodelled test `%s`' % (F, t))
        tests.append(t)
    # the registration must come after the primitive exists (self._semlock is assigned on every path before it)
    if T_NAMED in tests:
        return 'GuardNamedOnly'
    if T_POSIX in tests:
        return 'GuardPosix'
    return 'GuardAlways'


def bootstrap_runs_hooks(repo):
    """fail closed unless a forked child runs the registered hooks before its target"""
    ptree = ast.parse(open(os.path.join(repo, 'billiard/process.py')).read())
    boot = [f for c in ptree.body if isinstance(c, ast.ClassDef) and c.name == 'BaseProcess'
            for f in c.body if isinstance(f, ast.FunctionDef) and f.name == '_bootstrap']
    if len(boot) != 1:
        raise SemForkError('billiard/process.py: BaseProcess._bootstrap not found')
    order = []
    for n in ast.walk(boot[0]):
        if isinstance(n, ast.Expr) and isinstance(n.value, ast.Call):
            t = ast.unparse(n.value)
            if t in ('util._run_after_forkers()', 'self.run()'):
                order.append((n.lineno, t))
    order.sort()
    if [t for _, t in order] != ['util._run_after_forkers()', 'self.run()']:
        raise SemForkError('billiard/process.py: _bootstrap no longer runs util._run_after_forkers() once, before self.run(): %r' % order)
    # the hooks run unconditionally on the way to run(): the call's enclosing blocks are try bodies only
    hits = []

    def walk(stmts, path):
        for st in stmts:
            if isinstance(st, ast.Try):
                walk(st.body, path + ['try'])
                for h in st.handlers:
                    walk(h.body, path + ['except'])
                walk(st.orelse, path + ['try-else'])
                walk(st.finalbody, path + ['finally'])
            elif isinstance(st, ast.If):
                walk(st.body, path + ['if'])
                walk(st.orelse, path + ['else'])
            elif isinstance(st, (ast.For, ast.While, ast.With)):
                walk(st.body, path + ['block'])
            elif isinstance(st, ast.Expr) and ast.unparse(st.value) == 'util._run_after_forkers()':
                hits.append(path)
    walk(boot[0].body, [])
    if hits != [['try', 'try']]:
        raise SemForkError('billiard/process.py: _bootstrap runs the after-fork hooks conditionally: %r' % hits)
    usrc = open(os.path.join(repo, 'billiard/util.py')).read()
    utree = ast.parse(usrc)
    names = set()
    for n in utree.body:
        if isinstance(n, ast.ImportFrom) and n.module == 'multiprocessing.util':
            names |= {a.name for a in n.names}
    if not {'register_after_fork', '_run_after_forkers', '_afterfork_registry'} <= names:
        raise SemForkError('billiard/util.py no longer takes register_after_fork/_run_after_forkers from multiprocessing.util')
    for n in ast.walk(utree):
        if isinstance(n, (ast.FunctionDef, ast.ClassDef)) and n.name in ('register_after_fork', '_run_after_forkers'):
            raise SemForkError('billiard/util.py redefines %s' % n.name)
    fsrc = open(os.path.join(repo, 'billiard/popen_fork.py')).read()
    launch = [f for c in ast.parse(fsrc).body if isinstance(c, ast.ClassDef) and c.name == 'Popen'
              for f in c.body if isinstance(f, ast.FunctionDef) and f.name == '_launch']
    if len(launch) != 1 or 'process_obj._bootstrap()' not in ast.unparse(launch[0]):
        raise SemForkError('billiard/popen_fork.py: the forked child no longer goes through process_obj._bootstrap()')
    return True


def gen_semfork(repo):
    """coq/Gen/G_semfork.v (used by Props/C15.v and Props/C17.v)"""
    guard = after_fork_guard(repo)
    bootstrap_runs_hooks(repo)
    return ('(* GENERATED on every run by translate/kernels/semfork.py from billiard/synchronize.py (SemLock.__init__),\n'
            '   billiard/process.py (_bootstrap), billiard/popen_fork.py, billiard/util.py -- do not edit *)\n'
            'From BV Require Import Model.SemFork.\n\n'
            '(* SemLock.__init__: where `util.register_after_fork(self, _after_fork)` stands (translate/kernels/semfork.py) *)\n'
            'Definition semlock_after_fork_guard : fork_guard := %s.\n'
            '(* Process._bootstrap runs util._run_after_forkers() before self.run(); the forked child goes through _bootstrap;\n'
            '   the hook is `obj._semlock._after_fork()` (the generator fails if one does not hold) *)\n'
            'Definition forked_child_runs_after_fork_hooks_before_target : bool := true.\n' % guard)


EXTRA_GENERATORS = {'G_semfork': gen_semfork}
