"""K1: common.restart_state.step"""

K_restart = dict(
    name='K_restart',
    file='billiard/common.py',
    state=['self.R', 'self.T', 'self.maxR', 'self.maxT'],
    raises={'self.RestartFreqExceeded': 'RestartFreqExceeded'},
    funcs=[
        dict(qual='restart_state.step', coqname='step', params=['now'],
             # `now = monotonic() if now is None else now`: the clock is a parameter
             exprs={'monotonic()': 'mono'}, extra_params=['mono']),
    ],
)

KERNELS = [K_restart]
