"""G_sharedmem: bespoke fail-closed generator for billiard/sharedctypes.py (+ BufferWrapper in heap.py).

What is extracted (every run, from the working tree):
  * the effect sequence of RawValue and of the two branches of RawArray
        X = _new_value(type_)                                   -> ENew
        ctypes.memset(ctypes.addressof(X), 0, ctypes.sizeof(X)) -> EZero
        X.__init__(*args)                                       -> EInit
    (type computations `type_ = ...` and the final `return X` are the only other statements
    allowed; anything else is a translation error)
  * the instruction sequences of the generated property accessors (the `template` string is
    parsed as Python): getter = acquire, read, release; setter = acquire, write, release;
    from them the program of `with v.get_lock(): v.value += 1`
  * the effect sequences of _new_value and rebuild_ctype (where the ForkingPickler reducer of a ctypes
    type is registered: this decides whether a process that only received an object can hand it on)
  * facts checked structurally and emitted as booleans: _new_value allocates sizeof(type_)
    bytes through heap.BufferWrapper; BufferWrapper keeps (block, size), frees the block in its
    finaliser and views [start, start+size); reduce_ctype/rebuild_ctype pass the wrapper itself;
    Value/Array build on RawValue/RawArray and default to a recursive lock; `with wrapper:` and
    get_lock() use the wrapper's own lock; every branch of synchronized() is `Wrapper(obj, lock, ctx)`
    (emitted as two counts, proved equal); a wrapper pickles as (synchronized, (obj, lock)).
  * the test under which SynchronizedBase.__init__ keeps the lock it is given (`if lock:` = by truth value):
    emitted as wrapper_lock_test, a constructor of SharedMem.lock_test; billiard's lock classes define no __bool__/__len__.
"""
import ast
import os

import pykernel
from pykernel import TranslateError

F = 'billiard/sharedctypes.py'


def body_no_doc(fn):
    b = list(fn.body)
    if b and isinstance(b[0], ast.Expr) and isinstance(b[0].value, ast.Constant) \
            and isinstance(b[0].value.value, str):
        b = b[1:]
    return b


def effects(stmts, where):
    """statement list -> (effects, name of the object variable)"""
    out = []
    var = None
    returned = None
    for st in stmts:
        txt = ast.unparse(st)
        if isinstance(st, ast.Assign) and len(st.targets) == 1 and isinstance(st.targets[0], ast.Name):
            name = st.targets[0].id
            if name == 'type_':
                continue                       # computing the ctypes type
            if txt == '%s = _new_value(type_)' % name:
                if var is not None:
                    raise TranslateError('%s: %s allocates twice' % (F, where))
                var = name
                out.append('ENew')
                continue
        if isinstance(st, ast.Expr) and isinstance(st.value, ast.Call):
            if var and txt == 'ctypes.memset(ctypes.addressof(%s), 0, ctypes.sizeof(%s))' % (var, var):
                out.append('EZero')
                continue
            if var and txt in ('%s.__init__(*args)' % var, '%s.__init__(*size_or_initializer)' % var):
                out.append('EInit')
                continue
        if isinstance(st, ast.Return) and var and txt == 'return %s' % var:
            returned = var
            continue
        raise TranslateError('%s: %s: statement outside the modelled effects: `%s`' % (F, where, txt))
    if returned is None or not out or out[0] != 'ENew':
        raise TranslateError('%s: %s does not allocate first / return the object' % (F, where))
    return out


def accessor_prog(fn, attr, kind):
    """def getX(self): self.acquire(); try: return self._obj.X finally: self.release()"""
    b = list(fn.body)
    if len(b) != 2 or ast.unparse(b[0]) != 'self.acquire()' or not isinstance(b[1], ast.Try):
        raise TranslateError('%s: accessor template %s has an unexpected shape' % (F, fn.name))
    tr = b[1]
    if tr.handlers or tr.orelse or [ast.unparse(s) for s in tr.finalbody] != ['self.release()'] \
            or len(tr.body) != 1:
        raise TranslateError('%s: accessor template %s: try/finally shape changed' % (F, fn.name))
    inner = ast.unparse(tr.body[0])
    if kind == 'get' and inner == 'return self._obj.%s' % attr:
        return ['Acq', 'Read', 'Rel']
    if kind == 'set' and inner == 'self._obj.%s = value' % attr:
        return ['Acq', 'Write', 'Rel']
    raise TranslateError('%s: accessor template %s body is `%s`' % (F, fn.name, inner))


def with_prog(fn, kind):
    """SynchronizedArray.__getitem__/__setitem__: `with self:` around one access"""
    b = body_no_doc(fn)
    if len(b) != 1 or not isinstance(b[0], ast.With) or len(b[0].items) != 1 \
            or ast.unparse(b[0].items[0].context_expr) != 'self' or len(b[0].body) != 1:
        raise TranslateError('%s: %s is not a single `with self:` block' % (F, fn.name))
    inner = ast.unparse(b[0].body[0])
    ok = {'get': ('return self._obj[i]', 'return self._obj[start:stop]'),
          'set': ('self._obj[i] = value', 'self._obj[start:stop] = values')}[kind]
    if inner not in ok:
        raise TranslateError('%s: %s body is `%s`' % (F, fn.name, inner))
    return ['Acq', 'Read' if kind == 'get' else 'Write', 'Rel']


REGISTER = 'ForkingPickler.register(type_, reduce_ctype)'


def new_value_effects(fn):
    """_new_value(type_):
         size = ctypes.sizeof(type_); wrapper = heap.BufferWrapper(size)   -> NAlloc
         ForkingPickler.register(type_, reduce_ctype)                      -> NRegister
         return rebuild_ctype(type_, wrapper, None)                        -> NRebuild
    allocation first, the rebuild last, nothing else"""
    require([a.arg for a in fn.args.args] == ['type_'], '_new_value signature changed')
    txt = [ast.unparse(s) for s in body_no_doc(fn)]
    out = []
    i = 0
    while i < len(txt):
        if txt[i] == 'size = ctypes.sizeof(type_)' and i + 1 < len(txt) and txt[i + 1] == 'wrapper = heap.BufferWrapper(size)':
            out.append('NAlloc')
            i += 2
        elif txt[i] == REGISTER:
            out.append('NRegister')
            i += 1
        elif txt[i] == 'return rebuild_ctype(type_, wrapper, None)' and i == len(txt) - 1:
            out.append('NRebuild')
            i += 1
        else:
            raise TranslateError('%s: _new_value: statement outside the modelled effects: `%s`' % (F, txt[i]))
    require(out and out[0] == 'NAlloc' and out[-1] == 'NRebuild' and out.count('NAlloc') == 1,
            '_new_value does not allocate sizeof(type_) through BufferWrapper first and rebuild over it last: %r' % out)
    return out


def rebuild_effects(fn):
    """rebuild_ctype(type_, wrapper, length):
         if length is not None: type_ = type_ * length                     -> RArrayType
         ForkingPickler.register(type_, reduce_ctype)                      -> RRegister
         if PY3: buf = wrapper.create_memoryview(); obj = type_.from_buffer(buf)
         else: obj = type_.from_address(wrapper.get_address())
         obj._wrapper = wrapper; return obj                                -> RAttach (last)"""
    require([a.arg for a in fn.args.args] == ['type_', 'wrapper', 'length'], 'rebuild_ctype signature changed')
    body = body_no_doc(fn)
    out = []
    i = 0
    while i < len(body):
        st = body[i]
        txt = ast.unparse(st)
        if isinstance(st, ast.If) and ast.unparse(st.test) == 'length is not None' and not st.orelse \
                and [ast.unparse(x) for x in st.body] == ['type_ = type_ * length']:
            out.append('RArrayType')
            i += 1
        elif txt == REGISTER:
            out.append('RRegister')
            i += 1
        elif isinstance(st, ast.If) and ast.unparse(st.test) == 'PY3' and i == len(body) - 3 \
                and [ast.unparse(x) for x in st.body] == ['buf = wrapper.create_memoryview()', 'obj = type_.from_buffer(buf)'] \
                and [ast.unparse(x) for x in st.orelse] == ['obj = type_.from_address(wrapper.get_address())'] \
                and [ast.unparse(x) for x in body[i + 1:]] == ['obj._wrapper = wrapper', 'return obj']:
            out.append('RAttach')
            i += 3
        else:
            raise TranslateError('%s: rebuild_ctype: statement outside the modelled effects: `%s`' % (F, txt.split('\n')[0]))
    require(out and out[-1] == 'RAttach', 'rebuild_ctype no longer ends in attaching the object to the wrapper memory')
    return out


def wrapper_lock_test(fn):
    """SynchronizedBase.__init__(self, obj, lock=None, ctx=None):
         self._obj = obj
         if <test on lock>: self._lock = lock
         else: ctx = ctx or get_context(force=True); self._lock = ctx.RLock()
         self.acquire = self._lock.acquire; self.release = self._lock.release
    -> which test guards keeping the caller's lock: `lock` (truth value) / `lock is not None` / none at all"""
    require([a.arg for a in fn.args.args] == ['self', 'obj', 'lock', 'ctx'], 'SynchronizedBase.__init__ signature changed')
    body = body_no_doc(fn)
    txt = [ast.unparse(s) for s in body]
    tail = ['self.acquire = self._lock.acquire', 'self.release = self._lock.release']
    require(txt[:1] == ['self._obj = obj'] and txt[-2:] == tail and len(body) == 4,
            'SynchronizedBase.__init__ is no longer `self._obj = obj; <keep or make the lock>; bind acquire/release`: %r' % txt)
    st = body[1]
    if txt[1] == 'self._lock = lock':
        return 'LockAlways'
    require(isinstance(st, ast.If) and [ast.unparse(x) for x in st.body] == ['self._lock = lock']
            and [ast.unparse(x) for x in st.orelse] == ['ctx = ctx or get_context(force=True)', 'self._lock = ctx.RLock()'],
            'SynchronizedBase.__init__: the statement deciding the wrapper\'s lock changed: `%s`' % txt[1].split('\n')[0])
    test = ast.unparse(st.test)
    if test == 'lock':
        return 'LockTruthy'
    if test == 'lock is not None':
        return 'LockNotNone'
    raise TranslateError('%s: SynchronizedBase.__init__ keeps the given lock under the unmodelled test `%s`' % (F, test))


def require(cond, msg):
    if not cond:
        raise TranslateError('%s: %s' % (F, msg))


def gen_sharedmem(repo):
    src = open(os.path.join(repo, F)).read()
    tree = ast.parse(src)
    find = lambda q: pykernel.find_func(tree, q)

    # ---- creation
    rawvalue = effects(body_no_doc(find('RawValue')), 'RawValue')
    ra = body_no_doc(find('RawArray'))
    ra = [s for s in ra if not (isinstance(s, ast.Assign) and ast.unparse(s.targets[0]) == 'type_')]
    require(len(ra) == 1 and isinstance(ra[0], ast.If)
            and ast.unparse(ra[0].test) == 'isinstance(size_or_initializer, int)',
            'RawArray is no longer one `if isinstance(size_or_initializer, int)`')
    arr_n = effects(ra[0].body, 'RawArray(int)')
    arr_init = effects(ra[0].orelse, 'RawArray(initializer)')
    new_value = new_value_effects(find('_new_value'))
    rebuild = rebuild_effects(find('rebuild_ctype'))
    imports = [ast.unparse(s) for s in tree.body if isinstance(s, ast.ImportFrom)]
    require('from .reduction import ForkingPickler' in imports,
            'ForkingPickler is no longer billiard.reduction.ForkingPickler')
    for fn, raw in (('Value', 'obj = RawValue(typecode_or_type, *args)'),
                    ('Array', 'obj = RawArray(typecode_or_type, size_or_initializer)')):
        txt = [ast.unparse(s) for s in ast.walk(find(fn)) if isinstance(s, ast.Assign)]
        require(raw in txt, '%s no longer builds on `%s`' % (fn, raw))
        require('lock = ctx.RLock()' in txt, '%s: the default lock is no longer ctx.RLock()' % fn)

    # ---- rebuild over the same storage
    rb = [ast.unparse(s) for s in ast.walk(find('rebuild_ctype')) if isinstance(s, (ast.Assign, ast.Return))]
    require('buf = wrapper.create_memoryview()' in rb and 'obj = type_.from_buffer(buf)' in rb
            and 'obj._wrapper = wrapper' in rb and 'return obj' in rb, 'rebuild_ctype changed: %r' % rb)
    rd = [ast.unparse(s) for s in ast.walk(find('reduce_ctype')) if isinstance(s, ast.Return)]
    require(rd == ['return (rebuild_ctype, (obj._type_, obj._wrapper, obj._length_))',
                   'return (rebuild_ctype, (type(obj), obj._wrapper, None))'], 'reduce_ctype changed: %r' % rd)

    hsrc = open(os.path.join(repo, 'billiard/heap.py')).read()
    htree = ast.parse(hsrc)
    bw_init = [ast.unparse(s) for s in pykernel.find_func(htree, 'BufferWrapper.__init__').body]
    require(bw_init == ['assert 0 <= size < sys.maxsize', 'block = BufferWrapper._heap.malloc(size)',
                        'self._state = (block, size)',
                        'util.Finalize(self, BufferWrapper._heap.free, args=(block,))'],
            'heap.BufferWrapper.__init__ changed: %r' % bw_init)
    # the finaliser exists only in __init__: a wrapper made by unpickling (default object pickling, __init__ not run) has
    # none and the owner's heap does not know it (Model/SharedHopDrop.v rests on this)
    bw = [c for c in htree.body if isinstance(c, ast.ClassDef) and c.name == 'BufferWrapper']
    require(len(bw) == 1, 'heap.BufferWrapper not found')
    bw_methods = sorted(f.name for f in bw[0].body if isinstance(f, ast.FunctionDef))
    require(bw_methods == ['__init__', 'create_memoryview', 'get_address', 'get_size'],
            'heap.BufferWrapper now defines %s: how a wrapper is pickled / rebuilt / finalised is no longer what is modelled' % bw_methods)
    require(ast.unparse(bw[0]).count('Finalize') == 1, 'heap.BufferWrapper registers finalisers elsewhere than in __init__')
    bw_view = [ast.unparse(s) for s in pykernel.find_func(htree, 'BufferWrapper.create_memoryview').body]
    require(bw_view == ['(arena, start, stop), size = self._state',
                        'return memoryview(arena.buffer)[start:start + size]'],
            'heap.BufferWrapper.create_memoryview changed: %r' % bw_view)

    # ---- accessors
    tmpl = _one_assign(tree, 'template')
    require(isinstance(tmpl, ast.Constant) and isinstance(tmpl.value, str), 'template is not a string literal')
    require(tmpl.value.count('%s') == 7, 'template no longer has 7 placeholders')
    ttree = ast.parse(tmpl.value % (('value',) * 7))
    fns = {f.name: f for f in ttree.body if isinstance(f, ast.FunctionDef)}
    require(set(fns) == {'getvalue', 'setvalue'}, 'template defines %s' % sorted(fns))
    getter = accessor_prog(fns['getvalue'], 'value', 'get')
    setter = accessor_prog(fns['setvalue'], 'value', 'set')
    require(ast.unparse(ttree.body[-1]) == 'value = property(getvalue, setvalue)', 'template property line changed')
    mp = [ast.unparse(s) for s in ast.walk(find('make_property')) if isinstance(s, ast.Expr)]
    require('exec(template % ((name,) * 7), d)' in mp, 'make_property no longer instantiates the template')
    cls = [c for c in tree.body if isinstance(c, ast.ClassDef) and c.name == 'Synchronized']
    require(len(cls) == 1 and [ast.unparse(s) for s in cls[0].body] == ["value = make_property('value')"],
            'class Synchronized changed')
    item_get = with_prog(find('SynchronizedArray.__getitem__'), 'get')
    item_set = with_prog(find('SynchronizedArray.__setitem__'), 'set')
    require([ast.unparse(s) for s in body_no_doc(find('SynchronizedBase.__enter__'))] == ['return self._lock.__enter__()']
            and [ast.unparse(s) for s in body_no_doc(find('SynchronizedBase.__exit__'))] == ['return self._lock.__exit__(*args)']
            and [ast.unparse(s) for s in body_no_doc(find('SynchronizedBase.get_lock'))] == ['return self._lock'],
            'SynchronizedBase.__enter__/__exit__/get_lock changed')
    init_as = [ast.unparse(s) for s in ast.walk(find('SynchronizedBase.__init__')) if isinstance(s, ast.Assign)]
    require('self.acquire = self._lock.acquire' in init_as and 'self.release = self._lock.release' in init_as
            and 'self._lock = lock' in init_as, 'SynchronizedBase.__init__ changed')
    lock_test = wrapper_lock_test(find('SynchronizedBase.__init__'))
    # the lock a wrapper ends up with (a lock that passed the test, or ctx.RLock()) must itself pass the test
    # when the wrapper is rebuilt from (obj, self._lock): billiard's lock classes have no truth-value hooks
    stree = ast.parse(open(os.path.join(repo, 'billiard/synchronize.py')).read())
    for c in stree.body:
        if isinstance(c, ast.ClassDef) and c.name in ('SemLock', 'Lock', 'RLock'):
            hooks = [f.name for f in c.body if isinstance(f, ast.FunctionDef) and f.name in ('__bool__', '__len__', '__nonzero__')]
            require(not hooks, 'billiard/synchronize.py: class %s defines %s: a lock may be false in `if lock:`' % (c.name, hooks))
    require({'SemLock', 'Lock', 'RLock'} <= {c.name for c in stree.body if isinstance(c, ast.ClassDef)},
            'billiard/synchronize.py no longer defines SemLock/Lock/RLock')

    # ---- synchronized(): every branch hands the caller's lock and ctx to the wrapper class
    syn = find('synchronized')
    require([a.arg for a in syn.args.args] == ['obj', 'lock', 'ctx'], 'synchronized signature changed')
    rets = [s for s in ast.walk(syn) if isinstance(s, ast.Return)]
    require(rets and all(isinstance(r.value, ast.Call) for r in rets), 'synchronized: a return is not a constructor call')
    n_ret = len(rets)
    n_pass = sum(1 for r in rets if [ast.unparse(a) for a in r.value.args] == ['obj', 'lock', 'ctx']
                 and not r.value.keywords)
    callees = sorted(ast.unparse(r.value.func) for r in rets)
    require(callees == ['Synchronized', 'SynchronizedArray', 'SynchronizedString', 'scls'],
            'synchronized: wrapper classes returned are %s' % callees)
    require('self._lock = lock' in init_as, 'SynchronizedBase.__init__ no longer keeps the given lock')
    red = [ast.unparse(s) for s in body_no_doc(find('SynchronizedBase.__reduce__'))]
    require(red == ['assert_spawning(self)', 'return (synchronized, (self._obj, self._lock))'],
            'SynchronizedBase.__reduce__ changed: %r' % red)
    for fn in ('Value', 'Array'):
        r = [ast.unparse(s) for s in ast.walk(find(fn)) if isinstance(s, ast.Return)]
        require(sorted(r) == ['return obj', 'return synchronized(obj, lock, ctx=ctx)'], '%s returns %r' % (fn, r))

    def cl(xs):
        return '[' + '; '.join(xs) + ']'
    return '''(* GENERATED by translate/kernels/sharedmem.py (G_sharedmem) from billiard/sharedctypes.py
   and billiard/heap.py (BufferWrapper) -- do not edit *)
From Coq Require Import List.
From BV Require Import Model.SharedMem Model.SharedHop.
Import ListNotations.

(* _new_value(type_) *)
Definition new_value_prog : list neffect := %s.
(* rebuild_ctype(type_, wrapper, length) *)
Definition rebuild_prog : list reffect := %s.

(* RawValue(typecode_or_type, args) *)
Definition rawvalue_prog : list ceffect := %s.
(* RawArray(typecode_or_type, n) *)
Definition rawarray_n_prog : list ceffect := %s.
(* RawArray(typecode_or_type, initializer) *)
Definition rawarray_init_prog : list ceffect := %s.

(* the generated `value` property of Synchronized *)
Definition getter_prog : list instr := %s.
Definition setter_prog : list instr := %s.
(* SynchronizedArray.__getitem__ / __setitem__ *)
Definition getitem_prog : list instr := %s.
Definition setitem_prog : list instr := %s.
(* `with v.get_lock(): v.value += 1`  and the same without the outer `with` *)
Definition incr_prog : list instr := [Acq] ++ getter_prog ++ setter_prog ++ [Rel].
Definition incr_unlocked_prog : list instr := getter_prog ++ setter_prog.

(* SynchronizedBase.__init__: the test under which the wrapper keeps the lock it is given *)
Definition wrapper_lock_test : lock_test := %s.

(* structural facts checked by the generator (it fails if one does not hold) *)
Definition new_value_allocates_sizeof_through_bufferwrapper : bool := true.
Definition bufferwrapper_keeps_block_size_and_frees_in_finaliser : bool := true.
Definition bufferwrapper_views_start_to_start_plus_size : bool := true.
Definition pickling_passes_the_wrapper_itself : bool := true.
Definition value_and_array_build_on_raw_and_default_to_rlock : bool := true.
Definition with_wrapper_and_get_lock_use_the_wrappers_lock : bool := true.
Definition pickling_a_wrapper_passes_its_object_and_its_lock : bool := true.
Definition value_and_array_hand_lock_and_ctx_to_synchronized : bool := true.
(* synchronized(obj, lock, ctx): number of `return Wrapper(...)` branches, and how many of them are
   exactly `Wrapper(obj, lock, ctx)` *)
Definition synchronized_branches : nat := %d.
Definition synchronized_branches_passing_lock_and_ctx : nat := %d.
''' % (cl(new_value), cl(rebuild), cl(rawvalue), cl(arr_n), cl(arr_init), cl(getter), cl(setter), cl(item_get), cl(item_set), lock_test, n_ret, n_pass)


def _one_assign(tree, name):
    hits = [s for s in tree.body if isinstance(s, ast.Assign) and len(s.targets) == 1
            and isinstance(s.targets[0], ast.Name) and s.targets[0].id == name]
    if len(hits) != 1:
        raise TranslateError('%s: expected one module-level assignment to %s' % (F, name))
    return hits[0].value


EXTRA_GENERATORS = {'G_sharedmem': gen_sharedmem}
