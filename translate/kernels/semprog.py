"""semprog: fail-closed compiler from the semaphore-only methods of billiard/synchronize.py
(Condition.wait/notify/notify_all, Event.is_set/set/clear/wait, the SemLock wrappers and the
constructors) to SemProg instruction lists (coq/Model/SemProg.v).

EXTRA_GENERATORS['P_cond'] writes coq/Gen/P_cond.v on every run.  The entry points are the
client functions of /verif/harness/c17_clients.py -- the very functions the scheduler harness
executes -- and every billiard method they call is inlined from the working tree of the
repository.  Anything outside the subset raises TranslateError (the check reports a broken
translator obligation; nothing is skipped silently).

Subset: assert (is_mine / not acquire / local), expression statements that are semaphore
operations or calls of translatable methods, local integer assignments, `+= 1`,
`for i in range(local)`, `while <acquire>:` / `while <acquire>: pass`, if / if-else on an
acquire result or a local, try/finally, `with <lock-like>:`, return of None / bool constant /
local / acquire result / translatable call.

Register convention: r0, r1 = the call's arguments (`timeout is not None`, `block`), r7 = scratch
for results that are tested at once, r2.. = locals in order of first use (per inlined frame).
"""
import ast
import os

HERE = os.path.dirname(os.path.abspath(__file__))
VERIF = os.path.dirname(os.path.dirname(HERE))
NREGS = 8
TMP = 7


class TranslateError(Exception):
    pass


# ----------------------------------------------------------------------------- objects
class Sem:
    """a Lock / RLock / Semaphore / BoundedSemaphore object = one semaphore id"""
    def __init__(self, sid):
        self.sid = sid


class Obj:
    """an object of a translatable class: class name + attribute map"""
    def __init__(self, cls, attrs):
        self.cls = cls
        self.attrs = attrs


class Flag:
    """a value known only as a flag: 'T' | 'F' | ('R', reg)"""
    def __init__(self, f):
        self.f = f


NONE = Flag('F')      # the constant None in a `timeout` position: not timed


def coq_flag(f):
    if f == 'T':
        return 'FT'
    if f == 'F':
        return 'FF'
    return '(FR %d)' % f[1]


# the trivial wrappers the compiler relies on, checked verbatim against the source
EXPECTED_WRAPPERS = {
    ('SemLock', '_make_methods'):
        "self.acquire = self._semlock.acquire\nself.release = self._semlock.release",
    ('SemLock', '__enter__'): "return self._semlock.__enter__()",
    ('SemLock', '__exit__'): "return self._semlock.__exit__(*args)",
    ('Condition', '_make_methods'):
        "self.acquire = self._lock.acquire\nself.release = self._lock.release",
    ('Condition', '__enter__'): "return self._lock.__enter__()",
    ('Condition', '__exit__'): "return self._lock.__exit__(*args)",
}

EXPECTED_CTORS = {
    # class -> unparsed body of __init__ (docstrings removed)
    'Condition': "assert ctx\nself._lock = lock or ctx.RLock()\n"
                 "self._sleeping_count = ctx.Semaphore(0)\nself._woken_count = ctx.Semaphore(0)\n"
                 "self._wait_semaphore = ctx.Semaphore(0)\nself._make_methods()",
    'Event': "assert ctx\nself._cond = ctx.Condition(ctx.Lock())\nself._flag = ctx.Semaphore(0)",
}


def body_text(fn):
    body = fn.body
    if body and isinstance(body[0], ast.Expr) and isinstance(body[0].value, ast.Constant) \
            and isinstance(body[0].value.value, str):
        body = body[1:]
    return '\n'.join(ast.unparse(s) for s in body)


class Source:
    def __init__(self, path):
        self.path = path
        self.tree = ast.parse(open(path).read(), path)
        self.classes = {n.name: n for n in self.tree.body if isinstance(n, ast.ClassDef)}
        self.funcs = {n.name: n for n in self.tree.body if isinstance(n, ast.FunctionDef)}

    def method(self, cls, name):
        c = self.classes.get(cls)
        while c is not None:
            for n in c.body:
                if isinstance(n, ast.FunctionDef) and n.name == name:
                    return n, c.name
            base = c.bases[0] if c.bases else None
            c = self.classes.get(base.id) if isinstance(base, ast.Name) else None
        raise TranslateError('%s: method %s.%s not found' % (self.path, cls, name))

    def module_const(self, name):
        for n in self.tree.body:
            if isinstance(n, ast.Assign):
                for t in n.targets:
                    if isinstance(t, ast.Name) and t.id == name:
                        return n.value
                    if isinstance(t, ast.Tuple):
                        names = [e.id for e in t.elts if isinstance(e, ast.Name)]
                        if name in names:
                            return ('tuple', names, n.value)
        raise TranslateError('%s: module constant %s not found' % (self.path, name))


class Frame:
    def __init__(self, cls, fn, env, ret_reg, end_label, depth, parent=None):
        self.parent = parent
        self.cls = cls
        self.fn = fn
        self.env = env            # name -> Sem | Obj | Flag | ('reg', n)
        self.ret_reg = ret_reg    # register receiving the return value (None: discarded)
        self.end_label = end_label   # None for the top-level frame (emit Ret)
        self.cleanups = []        # innermost last: functions emitting clean-up code
        self.depth = depth


class Compiler:
    def __init__(self, sources, max_depth=6):
        self.sources = sources     # class name -> Source, plus '' -> client source
        self.code = []             # ('i', text) | ('label', name) ; jumps carry label names
        self.nlabel = 0
        self.nreg = 2
        self.max_depth = max_depth

    # ------------------------------------------------------------------ emission
    def err(self, node, msg, fr=None):
        where = '%s.%s' % (fr.cls, fr.fn.name) if fr else '?'
        raise TranslateError('%s line %s: %s' % (where, getattr(node, 'lineno', '?'), msg))

    def label(self):
        self.nlabel += 1
        return 'L%d' % self.nlabel

    def emit(self, fmt, *labels):
        self.code.append(('i', fmt, labels))

    def place(self, lab):
        self.code.append(('label', lab))

    def newreg(self, node=None):
        r = self.nreg
        if r >= TMP:
            raise TranslateError('out of registers')
        self.nreg += 1
        return r

    def resolve(self):
        pos, out = {}, []
        n = 0
        for c in self.code:
            if c[0] == 'label':
                pos[c[1]] = n
            else:
                n += 1
        for c in self.code:
            if c[0] == 'i':
                out.append(c[1] % tuple('%d' % pos[l] for l in c[2]))
        return out

    # ------------------------------------------------------------------ name resolution
    def obj_of(self, e, fr):
        """resolve an expression to Sem / Obj / Flag / ('reg', n); None if not an object path"""
        if isinstance(e, ast.Name):
            if e.id in fr.env:
                return fr.env[e.id]
            return None
        if isinstance(e, ast.Attribute):
            base = self.obj_of(e.value, fr)
            if isinstance(base, Obj):
                if e.attr in base.attrs:
                    return base.attrs[e.attr]
                return None
            if isinstance(base, Sem) and e.attr == '_semlock':
                return base            # the wrapped primitive: same semaphore
            return None
        return None

    def local_reg(self, name, fr, create=False, node=None):
        v = fr.env.get(name)
        if v is None:
            if not create:
                self.err(node, 'unknown local %s' % name, fr)
            v = ('reg', self.newreg())
            fr.env[name] = v
        if not (isinstance(v, tuple) and v[0] == 'reg'):
            self.err(node, '%s is not an integer local' % name, fr)
        return v[1]

    def flag_of(self, e, fr, position):
        """flag for a `block` or `timeout` argument expression"""
        if isinstance(e, ast.Constant):
            if position == 'block' and e.value in (True, False):
                return 'T' if e.value else 'F'
            if position == 'timeout' and e.value is None:
                return 'F'
            self.err(e, 'unsupported constant %r as %s' % (e.value, position), fr)
        if isinstance(e, ast.Name):
            v = fr.env.get(e.id)
            if isinstance(v, Flag):
                return v.f
            self.err(e, '%s is not a flag parameter' % e.id, fr)
        self.err(e, 'unsupported %s argument %s' % (position, ast.unparse(e)), fr)

    # ------------------------------------------------------------------ semaphore operations
    def sem_call(self, e, fr):
        """if e is a primitive semaphore call return (kind, sem, args) else None"""
        if not (isinstance(e, ast.Call) and isinstance(e.func, ast.Attribute)):
            return None
        tgt = self.obj_of(e.func.value, fr)
        m = e.func.attr
        if isinstance(tgt, Obj) and tgt.cls == 'Condition' and m in ('acquire', 'release'):
            tgt = tgt.attrs['_lock']        # Condition._make_methods (checked verbatim)
        if not isinstance(tgt, Sem):
            return None
        if e.keywords:
            self.err(e, 'keyword arguments on a semaphore operation', fr)
        if m in ('acquire', '__enter__'):
            if m == '__enter__' and e.args:
                self.err(e, '__enter__ with arguments', fr)
            if len(e.args) > 2:
                self.err(e, 'too many arguments to acquire', fr)
            b = self.flag_of(e.args[0], fr, 'block') if len(e.args) >= 1 else 'T'
            t = self.flag_of(e.args[1], fr, 'timeout') if len(e.args) == 2 else 'F'
            return ('acq', tgt.sid, b, t)
        if m in ('release', '__exit__'):
            if m == 'release' and e.args:
                self.err(e, 'release with arguments', fr)
            return ('rel', tgt.sid)
        through_semlock = isinstance(e.func.value, ast.Attribute) and e.func.value.attr == '_semlock'
        if m in ('_count', '_is_mine', '_is_zero') and through_semlock and not e.args:
            return (m, tgt.sid)
        self.err(e, 'unsupported semaphore method %s' % m, fr)

    def emit_acq(self, op, dst):
        self.emit('Acq %d %s %s %d' % (op[1], coq_flag(op[2]), coq_flag(op[3]), dst))

    # ------------------------------------------------------------------ expressions -> register
    def value_into(self, e, fr, dst):
        """evaluate an integer/bool valued expression into register dst"""
        op = self.sem_call(e, fr)
        if op:
            if op[0] == 'acq':
                self.emit_acq(op, dst)
            elif op[0] == '_count':
                self.emit('Count %d %d' % (op[1], dst))
            elif op[0] == '_is_zero':
                self.emit('IsZero %d %d' % (op[1], dst))
            else:
                self.err(e, 'value of %s not supported' % op[0], fr)
            return
        if isinstance(e, ast.Constant) and isinstance(e.value, (bool, int)):
            self.emit('Mov %d %d' % (dst, int(e.value)))
            return
        if isinstance(e, ast.Call):
            self.call(e, fr, dst)
            return
        self.err(e, 'unsupported expression %s' % ast.unparse(e), fr)

    def cond_jump_false(self, test, fr, target):
        """emit code that jumps to `target` when `test` is false"""
        neg = False
        while isinstance(test, ast.UnaryOp) and isinstance(test.op, ast.Not):
            neg = not neg
            test = test.operand
        if isinstance(test, ast.Name):
            r = self.local_reg(test.id, fr, node=test)
        elif isinstance(test, ast.Constant) and test.value in (1, True) and not neg:
            return                                     # while 1:
        else:
            self.value_into(test, fr, TMP)
            r = TMP
        self.emit(('Jnz %d %%s' if neg else 'Jz %d %%s') % r, target)

    # ------------------------------------------------------------------ calls of translatable methods
    def call(self, e, fr, dst):
        """inline a method call; the return value goes to register dst (None: discarded)"""
        if not isinstance(e.func, ast.Attribute):
            self.err(e, 'unsupported call %s' % ast.unparse(e), fr)
        tgt = self.obj_of(e.func.value, fr)
        lookup_cls = None
        if tgt is None and isinstance(e.func.value, ast.Name) and e.func.value.id in self.sources \
                and e.func.value.id not in fr.env and e.args:
            # explicit base-class call  Class.method(self, ...)
            first = self.obj_of(e.args[0], fr)
            if isinstance(first, Obj):
                lookup_cls = e.func.value.id
                tgt = first
                e = ast.copy_location(ast.Call(func=e.func, args=e.args[1:], keywords=e.keywords), e)
        if not isinstance(tgt, Obj):
            self.err(e, 'call on unknown object %s' % ast.unparse(e), fr)
        if fr.depth + 1 > self.max_depth:
            self.err(e, 'inlining too deep', fr)
        src = self.sources[lookup_cls or tgt.cls]
        fn, owner = src.method(lookup_cls or tgt.cls, e.func.attr)
        params = [a.arg for a in fn.args.args]
        if fn.args.kwarg or fn.args.kwonlyargs or e.keywords or \
                (fn.args.vararg and len(e.args) > len(params) - 1):
            self.err(e, 'unsupported signature for %s' % fn.name, fr)
        defaults = dict(zip(params[len(params) - len(fn.args.defaults):], fn.args.defaults))
        env = {params[0]: tgt}
        for k, p in enumerate(params[1:]):
            a = e.args[k] if k < len(e.args) else defaults.get(p)
            if a is None:
                self.err(e, 'missing argument %s' % p, fr)
            if isinstance(a, ast.Constant) and a.value is None:
                env[p] = NONE
            elif isinstance(a, ast.Constant) and a.value in (True, False):
                env[p] = Flag('T' if a.value else 'F')
            elif isinstance(a, ast.Name) and isinstance(fr.env.get(a.id), Flag):
                env[p] = fr.env[a.id]
            elif isinstance(a, ast.Name) and isinstance(fr.env.get(a.id), tuple):
                env[p] = fr.env[a.id]          # a register holding a message
            elif self.passthrough(a, fr) is not None:
                env[p] = self.passthrough(a, fr)
            else:
                self.err(e, 'unsupported argument %s' % ast.unparse(a), fr)
        if len(e.args) > len(params) - 1:
            self.err(e, 'too many arguments', fr)
        end = self.label()
        sub = Frame(owner, fn, env, dst, end, fr.depth + 1, fr)
        self.body(fn.body, sub)
        self.place(end)

    def passthrough(self, a, fr):
        """argument expressions that only wrap a value (overridden by the queue compiler)"""
        return None

    def do_raise(self, code, fr):
        """raise: run the clean-ups of every enclosing frame, innermost first, then Raise"""
        f = fr
        while f is not None:
            for k in range(len(f.cleanups) - 1, -1, -1):
                saved = f.cleanups
                f.cleanups = saved[:k]
                saved[k]()
                f.cleanups = saved
            f = f.parent
        self.emit('Raise %s' % code)

    # ------------------------------------------------------------------ statements
    def body(self, stmts, fr):
        for s in stmts:
            self.stmt(s, fr)

    def always_returns(self, stmts):
        if not stmts:
            return False
        s = stmts[-1]
        if isinstance(s, (ast.Return, ast.Raise)):
            return True
        if isinstance(s, ast.If):
            return self.always_returns(s.body) and self.always_returns(s.orelse)
        if isinstance(s, ast.Try):
            return self.always_returns(s.body) or self.always_returns(s.finalbody)
        if isinstance(s, ast.With):
            return self.always_returns(s.body)
        return False

    def do_return(self, valnode, fr, node):
        # 1. value
        if valnode is None or (isinstance(valnode, ast.Constant) and valnode.value is None):
            val = 'RNone'
        elif isinstance(valnode, ast.Constant) and valnode.value in (True, False):
            val = '(RConst %d)' % int(valnode.value)
        elif isinstance(valnode, ast.Name):
            val = '(RReg %d)' % self.local_reg(valnode.id, fr, node=valnode)
        else:
            if fr.ret_reg is not None:
                r = fr.ret_reg
            else:
                r = fr.env.get('#ret')
                if r is None:
                    r = fr.env['#ret'] = self.newreg()
            self.value_into(valnode, fr, r)
            val = '(RReg %d)' % r
        # 2. enclosing clean-ups of this frame, innermost first
        for k in range(len(fr.cleanups) - 1, -1, -1):
            saved = fr.cleanups
            fr.cleanups = saved[:k]
            saved[k]()
            fr.cleanups = saved
        # 3. leave
        if fr.end_label is None:
            self.emit('Ret %s' % val)
        else:
            if fr.ret_reg is not None:
                if val == 'RNone':
                    self.emit('Mov %d (-1)' % fr.ret_reg)
                elif val.startswith('(RConst'):
                    self.emit('Mov %d %s' % (fr.ret_reg, val[8:-1]))
                elif val != '(RReg %d)' % fr.ret_reg:
                    self.emit('Cpy %d %s' % (fr.ret_reg, val[6:-1]))
            self.emit('Jmp %s', fr.end_label)

    def stmt(self, s, fr):
        if isinstance(s, ast.Expr) and isinstance(s.value, ast.Constant) and isinstance(s.value.value, str):
            return
        if isinstance(s, ast.Pass):
            return
        if isinstance(s, ast.Assert):
            t = s.test
            op = self.sem_call(t, fr)
            if op and op[0] == '_is_mine':
                self.emit('AssertMine %d' % op[1])
                return
            if isinstance(t, ast.Name):
                self.emit('AssertNZ %d' % self.local_reg(t.id, fr, node=t))
                return
            if isinstance(t, ast.UnaryOp) and isinstance(t.op, ast.Not):
                op = self.sem_call(t.operand, fr)
                if op and op[0] == 'acq':
                    self.emit_acq(op, TMP)
                    self.emit('AssertZ %d' % TMP)
                    return
            self.err(s, 'unsupported assert %s' % ast.unparse(t), fr)
        if isinstance(s, ast.Expr):
            op = self.sem_call(s.value, fr)
            if op:
                if op[0] == 'acq':
                    self.emit_acq(op, TMP)
                elif op[0] == 'rel':
                    self.emit('Rel %d' % op[1])
                else:
                    self.err(s, 'semaphore query used as a statement', fr)
                return
            if isinstance(s.value, ast.Call):
                self.call(s.value, fr, None)
                return
            self.err(s, 'unsupported expression statement %s' % ast.unparse(s), fr)
        if isinstance(s, ast.Assign):
            if len(s.targets) != 1 or not isinstance(s.targets[0], ast.Name):
                self.err(s, 'unsupported assignment target', fr)
            r = self.local_reg(s.targets[0].id, fr, create=True, node=s)
            self.value_into(s.value, fr, r)
            return
        if isinstance(s, ast.AugAssign):
            if isinstance(s.target, ast.Name) and isinstance(s.op, ast.Add) \
                    and isinstance(s.value, ast.Constant) and s.value.value == 1:
                self.emit('Inc %d' % self.local_reg(s.target.id, fr, node=s))
                return
            self.err(s, 'unsupported augmented assignment', fr)
        if isinstance(s, ast.For):
            it = s.iter
            if s.orelse or not (isinstance(s.target, ast.Name) and isinstance(it, ast.Call)
                                and isinstance(it.func, ast.Name) and it.func.id == 'range'
                                and len(it.args) == 1 and isinstance(it.args[0], ast.Name)):
                self.err(s, 'unsupported for loop', fr)
            bound = self.local_reg(it.args[0].id, fr, node=s)
            i = self.local_reg(s.target.id, fr, create=True, node=s)
            head, end = self.label(), self.label()
            self.emit('Mov %d 0' % i)
            self.place(head)
            self.emit('Jge %d %d %%s' % (i, bound), end)
            self.body(s.body, fr)
            self.emit('Inc %d' % i)
            self.emit('Jmp %s', head)
            self.place(end)
            return
        if isinstance(s, ast.While):
            if s.orelse:
                self.err(s, 'while/else', fr)
            head, end = self.label(), self.label()
            self.place(head)
            self.cond_jump_false(s.test, fr, end)
            self.body(s.body, fr)
            self.emit('Jmp %s', head)
            self.place(end)
            return
        if isinstance(s, ast.If):
            els, end = self.label(), self.label()
            self.cond_jump_false(s.test, fr, els)
            self.body(s.body, fr)
            if s.orelse:
                if not self.always_returns(s.body):
                    self.emit('Jmp %s', end)
                self.place(els)
                self.body(s.orelse, fr)
                self.place(end)
            else:
                self.place(els)
            return
        if isinstance(s, ast.Try):
            if s.handlers or s.orelse or not s.finalbody:
                self.err(s, 'only try/finally is supported', fr)

            def cleanup(fb=s.finalbody):
                self.body(fb, fr)
            fr.cleanups.append(cleanup)
            self.body(s.body, fr)
            fr.cleanups.pop()
            if not self.always_returns(s.body):
                cleanup()
            return
        if isinstance(s, ast.With):
            if len(s.items) != 1 or s.items[0].optional_vars is not None:
                self.err(s, 'unsupported with', fr)
            tgt = self.obj_of(s.items[0].context_expr, fr)
            if isinstance(tgt, Obj) and tgt.cls == 'Condition':
                tgt = tgt.attrs['_lock']     # Condition.__enter__/__exit__ (checked verbatim)
            if isinstance(tgt, Obj) and tgt.cls in self.sources:
                ce = s.items[0].context_expr
                enter = ast.Call(func=ast.Attribute(value=ce, attr='__enter__', ctx=ast.Load()), args=[], keywords=[])
                exit_ = ast.Call(func=ast.Attribute(value=ce, attr='__exit__', ctx=ast.Load()), args=[], keywords=[])
                ast.copy_location(enter, s)
                ast.copy_location(exit_, s)
                self.call(enter, fr, None)

                def cleanup_o(exit_=exit_):
                    self.call(exit_, fr, None)
                fr.cleanups.append(cleanup_o)
                self.body(s.body, fr)
                fr.cleanups.pop()
                if not self.always_returns(s.body):
                    cleanup_o()
                return
            if not isinstance(tgt, Sem):
                self.err(s, 'with over a non-lock object', fr)
            sid = tgt.sid
            self.emit('Acq %d FT FF %d' % (sid, TMP))      # SemLock.__enter__ = acquire()

            def cleanup(sid=sid):
                self.emit('Rel %d' % sid)
            fr.cleanups.append(cleanup)
            self.body(s.body, fr)
            fr.cleanups.pop()
            if not self.always_returns(s.body):
                cleanup()
            return
        if isinstance(s, ast.Return):
            self.do_return(s.value, fr, s)
            return
        self.err(s, 'unsupported statement %s' % type(s).__name__, fr)


# ----------------------------------------------------------------------------- world layout
# semaphore ids of the C17 world, in the creation order used by harness/c17_driver.py
SEM_IDS = dict(L=0, S=1, W=2, T=3, F=4, USEM=5, UBSEM=6, ULOCK=7, URLOCK=8)


def cond_obj():
    return Obj('Condition', {'_lock': Sem(0), '_sleeping_count': Sem(1),
                             '_woken_count': Sem(2), '_wait_semaphore': Sem(3)})


def event_obj():
    return Obj('Event', {'_cond': cond_obj(), '_flag': Sem(4)})


def check_wrappers(src):
    for (cls, name), want in EXPECTED_WRAPPERS.items():
        fn, _ = src.method(cls, name)
        got = body_text(fn)
        if got != want:
            raise TranslateError('%s.%s is no longer the trivial wrapper the compiler assumes: %r'
                                 % (cls, name, got))
    for cls, want in EXPECTED_CTORS.items():
        fn, owner = src.method(cls, '__init__')
        if owner != cls:
            raise TranslateError('%s has no __init__ of its own' % cls)
        got = body_text(fn)
        if got != want:
            raise TranslateError('%s.__init__ changed: %r' % (cls, got))
    # class hierarchy the wrappers rely on
    for cls, base in (('Semaphore', 'SemLock'), ('BoundedSemaphore', 'Semaphore'),
                      ('Lock', 'SemLock'), ('RLock', 'SemLock')):
        b = src.classes[cls].bases
        if len(b) != 1 or not isinstance(b[0], ast.Name) or b[0].id != base:
            raise TranslateError('base class of %s changed' % cls)
    v = src.module_const('RECURSIVE_MUTEX')
    if not (isinstance(v, tuple) and v[1] == ['RECURSIVE_MUTEX', 'SEMAPHORE']
            and ast.unparse(v[2]) == 'list(range(2))'):
        raise TranslateError('RECURSIVE_MUTEX, SEMAPHORE no longer list(range(2))')
    if ast.unparse(src.module_const('SEM_VALUE_MAX')) != '_billiard.SemLock.SEM_VALUE_MAX':
        raise TranslateError('SEM_VALUE_MAX changed')
    # SemLock.__init__ must pass (kind, value, maxvalue) through unchanged
    fn, _ = src.method('SemLock', '__init__')
    calls = [n for n in ast.walk(fn) if isinstance(n, ast.Call)
             and ast.unparse(n.func) == '_billiard.SemLock']
    if not calls:
        raise TranslateError('SemLock.__init__ no longer creates _billiard.SemLock')
    for c in calls:
        if [ast.unparse(a) for a in c.args[:3]] != ['kind', 'value', 'maxvalue']:
            raise TranslateError('SemLock.__init__ passes %s to the primitive'
                                 % [ast.unparse(a) for a in c.args[:3]])


def ctor_def(src, cls):
    """constructor parameters of a SemLock subclass, read off its __init__"""
    fn, owner = src.method(cls, '__init__')
    if owner != cls:
        raise TranslateError('%s has no __init__ of its own' % cls)
    params = [a.arg for a in fn.args.args]
    body = [s for s in fn.body if not (isinstance(s, ast.Expr) and isinstance(s.value, ast.Constant))]
    if len(body) != 1 or not (isinstance(body[0], ast.Expr) and isinstance(body[0].value, ast.Call)
                              and ast.unparse(body[0].value.func) == 'SemLock.__init__'):
        raise TranslateError('%s.__init__ is not a single SemLock.__init__ call' % cls)
    c = body[0].value
    if len(c.args) != 4 or ast.unparse(c.args[0]) != 'self' or \
            [(k.arg, ast.unparse(k.value)) for k in c.keywords] != [('ctx', 'ctx')]:
        raise TranslateError('%s.__init__: unexpected SemLock.__init__ arguments' % cls)
    kind = ast.unparse(c.args[1])
    if kind not in ('SEMAPHORE', 'RECURSIVE_MUTEX'):
        raise TranslateError('%s.__init__: unknown kind %s' % (cls, kind))
    has_value = 'value' in params

    def num(a):
        if isinstance(a, ast.Constant) and isinstance(a.value, int) and not isinstance(a.value, bool):
            return '%d' % a.value
        if isinstance(a, ast.Name) and a.id == 'value' and has_value:
            return 'v'
        if isinstance(a, ast.Name) and a.id == 'SEM_VALUE_MAX':
            return 'SEM_VALUE_MAX'
        raise TranslateError('%s.__init__: unsupported argument %s' % (cls, ast.unparse(a)))
    if params not in (['self', 'ctx'], ['self', 'value', 'ctx']):
        raise TranslateError('%s.__init__: unexpected parameters %s' % (cls, params))
    return 'Definition ctor_%s %s: sem := mkSem %s %s %s.' % (
        cls, '(v : Z) ' if has_value else '', num(c.args[2]), num(c.args[3]),
        'true' if kind == 'RECURSIVE_MUTEX' else 'false')


# client function -> (call id, objects bound to its leading parameters)
CLIENTS = [
    ('c_wait', 0), ('c_notify', 1), ('c_notify_all', 2),
    ('e_is_set', 3), ('e_set', 4), ('e_clear', 5), ('e_wait', 6),
    ('u_acquire', 7), ('u_release', 8), ('ub_acquire', 9), ('ub_release', 10),
    ('ul_acquire', 11), ('ul_release', 12), ('ur_acquire', 13), ('ur_release', 14),
    ('c_wait2', 15),
]
PARAM_OBJECTS = {
    'cond': cond_obj, 'ev': event_obj,
    'usem': lambda: Sem(5), 'ubsem': lambda: Sem(6), 'ulock': lambda: Sem(7), 'urlock': lambda: Sem(8),
}
PARAM_FLAGS = {'timeout': 0, 'block': 1}      # register holding the flag


def compile_client(name, client_src, sync_src):
    fn = client_src.funcs.get(name)
    if fn is None:
        raise TranslateError('client %s not found' % name)
    comp = Compiler({'Condition': sync_src, 'Event': sync_src, '': client_src})
    env = {}
    for a in fn.args.args:
        if a.arg in PARAM_OBJECTS:
            env[a.arg] = PARAM_OBJECTS[a.arg]()
        elif a.arg in PARAM_FLAGS:
            env[a.arg] = Flag(('R', PARAM_FLAGS[a.arg]))
        else:
            raise TranslateError('client %s: unknown parameter %s' % (name, a.arg))
    fr = Frame('client', fn, env, None, None, 0)
    comp.body(fn.body, fr)
    if not comp.always_returns(fn.body):
        comp.emit('Ret RNone')
    return comp.resolve()


def gen_P_cond(repo):
    sync_src = Source(os.path.join(repo, 'billiard', 'synchronize.py'))
    client_src = Source(os.path.join(VERIF, 'harness', 'c17_clients.py'))
    check_wrappers(sync_src)
    out = ['(* GENERATED on every run by translate/kernels/semprog.py from',
           '   billiard/synchronize.py (working tree) and harness/c17_clients.py.  Do not edit. *)',
           'From Coq Require Import ZArith List Bool.',
           'From BV Require Import Model.SemProg.',
           'Import ListNotations.',
           'Open Scope Z_scope.',
           '',
           '(* constructor parameters (recursive?, initial value, maxvalue) *)',
           'Definition SEM_VALUE_MAX : Z := 2147483647.',
           ctor_def(sync_src, 'Lock'), ctor_def(sync_src, 'RLock'),
           ctor_def(sync_src, 'Semaphore'), ctor_def(sync_src, 'BoundedSemaphore'),
           '(* Condition(lock): _lock, _sleeping_count, _woken_count, _wait_semaphore *)',
           'Definition ctor_Condition (lock : sem) : list sem :=',
           '  [lock; ctor_Semaphore 0; ctor_Semaphore 0; ctor_Semaphore 0].',
           'Definition ctor_Condition_default : list sem := ctor_Condition ctor_RLock.',
           '(* Event(): _cond = Condition(Lock()), _flag *)',
           'Definition ctor_Event : list sem := ctor_Condition ctor_Lock ++ [ctor_Semaphore 0].',
           '']
    names = []
    for name, cid in CLIENTS:
        prog = compile_client(name, client_src, sync_src)
        out.append('Definition p_%s : list instr :=' % name)
        out.append('  [ ' + ';\n    '.join('%-28s (* %2d *)' % (ins, k) for k, ins in enumerate(prog)) + ' ].')
        out.append('')
        names.append((name, cid))
    out.append('Definition code (c : nat) : list instr :=')
    out.append('  match c with')
    for name, cid in names:
        out.append('  | %d%%nat => p_%s' % (cid, name))
    out.append('  | _ => []')
    out.append('  end.')
    return '\n'.join(out) + '\n'



# ============================================================================= C16: queues
E_CODES = {'Full': '(-4)', 'Empty': '(-5)', 'ValueError': '(-3)'}
PSEM = 1000          # Sem ids >= PSEM are per-process: (SP (id - PSEM))

# statements of queues.py that are outside the model and skipped (text must match exactly)
Q_SKIP = {
    'assert not self._closed',                 # the queue is never closed in the model
    'deadline = monotonic() + timeout',        # only its difference with a later clock reading matters
}
# `timeout = deadline - monotonic()` is the scheduling point Clock: the scheduler chooses whether the
# deadline has passed (the register gets 1) or time is left (0)
Q_REMAINING = 'timeout = deadline - monotonic()'


class Rem:
    """the local `timeout` once it holds a remaining time: register `e` = 1 iff it is negative (the
    deadline has passed); `tr` = register holding `timeout > 0` when some path assigns a constant to
    `timeout` (else None: it is positive whenever it is not negative)"""
    def __init__(self, e, tr):
        self.e, self.tr = e, tr
# `self._thread is None` is compiled as the local test ThreadJ (jump when a feeder thread exists) and the
# call `self._start_thread()` as the scheduling point StartThread, wherever the code puts them (inside
# or outside `with self._notempty`); Queue._start_thread itself is checked against START_EXPECTED
Q_START_CALL = 'self._start_thread()'
Q_THREAD_TESTS = ('self._thread is None', 'self._thread is not None')


class QCompiler(Compiler):
    """Compiler + the buffer / pipe / waiter-count operations of billiard.queues"""

    def passthrough(self, a, fr):
        # ForkingPickler.dumps(obj): pickling is not modelled, the message passes through
        if isinstance(a, ast.Call) and ast.unparse(a.func) == 'ForkingPickler.dumps' and len(a.args) == 1 \
                and isinstance(a.args[0], ast.Name) and isinstance(fr.env.get(a.args[0].id), tuple):
            return fr.env[a.args[0].id]
        return None

    def msg_reg(self, e, fr):
        if isinstance(e, ast.Name) and isinstance(fr.env.get(e.id), tuple) and fr.env[e.id][0] == 'reg':
            return fr.env[e.id][1]
        self.err(e, '%s is not a message register' % ast.unparse(e), fr)

    def rem_of(self, fr, node):
        """the Rem of this frame's `timeout`, created on first use"""
        v = fr.env.get('timeout')
        if isinstance(v, Rem):
            return v
        if not isinstance(v, Flag):
            self.err(node, '`timeout` is not the timeout parameter here', fr)
        consts = any(isinstance(n, ast.Assign) and len(n.targets) == 1 and ast.unparse(n.targets[0]) == 'timeout'
                     and isinstance(n.value, ast.Constant) for n in ast.walk(fr.fn))
        e = self.newreg()
        v = fr.env['timeout'] = Rem(e, self.newreg() if consts else None)
        return v

    def poll_flag(self, c, fr):
        """flag `timed` of a call self._poll([timeout])"""
        if c.keywords or len(c.args) > 1:
            self.err(c, 'unsupported poll call %s' % ast.unparse(c), fr)
        if not c.args:
            return 'F'
        a = c.args[0]
        if isinstance(a, ast.Name) and a.id == 'timeout' and isinstance(fr.env.get('timeout'), Rem):
            rem = fr.env['timeout']
            return 'T' if rem.tr is None else ('R', rem.tr)
        if isinstance(a, ast.Constant) and isinstance(a.value, (int, float)) and not isinstance(a.value, bool):
            return 'T' if a.value > 0 else 'F'
        self.err(c, 'unsupported poll timeout %s' % ast.unparse(a), fr)

    def stmt(self, s, fr):
        txt = ast.unparse(s)
        if txt in Q_SKIP:
            return
        if txt == Q_REMAINING:
            rem = self.rem_of(fr, s)
            self.emit('Clock %d' % rem.e)
            if rem.tr is not None:
                self.emit('Mov %d 1' % rem.tr)
            return
        if isinstance(s, ast.Assign) and len(s.targets) == 1 and ast.unparse(s.targets[0]) == 'timeout' \
                and isinstance(s.value, ast.Constant) and isinstance(s.value.value, (int, float)) \
                and not isinstance(s.value.value, bool) and s.value.value >= 0:
            rem = self.rem_of(fr, s)
            self.emit('Mov %d 0' % rem.e)
            self.emit('Mov %d %d' % (rem.tr, 1 if s.value.value > 0 else 0))
            return
        if txt == Q_START_CALL and isinstance(fr.env.get('self'), Obj) \
                and fr.env['self'].cls in ('Queue', 'JoinableQueue'):
            # the body of Queue._start_thread (shape checked by gen_P_queue): buffer.clear(), create and
            # start the feeder thread -- one scheduling point
            self.emit('StartThread')
            return
        if isinstance(s, ast.Expr) and isinstance(s.value, ast.Call):
            c = s.value
            f = ast.unparse(c.func)
            if f == 'self._buffer.append' and len(c.args) == 1:
                self.emit('BufAppend %d' % self.msg_reg(c.args[0], fr))
                return
            if f == 'self._writer.send_bytes' and len(c.args) == 1:
                self.emit('Send %d' % self.msg_reg(c.args[0], fr))
                return
        if isinstance(s, ast.AugAssign) and ast.unparse(s.target) == 'self._waiters' \
                and isinstance(s.value, ast.Constant) and s.value.value == 1:
            if isinstance(s.op, ast.Add):
                self.emit('WInc')
                return
            if isinstance(s.op, ast.Sub):
                self.emit('WDec')
                return
        if isinstance(s, ast.Assign) and len(s.targets) == 1 and isinstance(s.targets[0], ast.Name) \
                and ast.unparse(s.value) == 'self._recv_bytes()':
            r = self.local_reg(s.targets[0].id, fr, create=True, node=s)
            self.emit('Recv %d' % r)
            return
        if isinstance(s, ast.Raise):
            name = None
            if isinstance(s.exc, ast.Name):
                name = s.exc.id
            elif isinstance(s.exc, ast.Call) and isinstance(s.exc.func, ast.Name):
                name = s.exc.func.id
            if name not in E_CODES:
                self.err(s, 'unsupported raise %s' % txt, fr)
            self.do_raise(E_CODES[name], fr)
            return
        if isinstance(s, ast.If) and ast.unparse(s.test) == 'self._wlock is None':
            # posix: the write lock exists; only the else branch is compiled
            if not s.orelse:
                self.err(s, 'expected an else branch', fr)
            self.body(s.orelse, fr)
            return
        if isinstance(s, ast.Return) and isinstance(s.value, ast.Call):
            f = ast.unparse(s.value.func)
            if f == 'ForkingPickler.loads' and len(s.value.args) == 1:
                # unpickling is not modelled: the message is returned
                return self.do_return(s.value.args[0], fr, s)
            if f == 'self._reader.recv_bytes' and not s.value.args:
                r = fr.ret_reg
                if r is None:
                    r = fr.env.get('#ret')
                    if r is None:
                        r = fr.env['#ret'] = self.newreg()
                self.emit('Recv %d' % r)
                return self.do_return(ast.Name(id='#ret', ctx=ast.Load()), fr, s) if fr.ret_reg is None \
                    else self.finish_return_reg(r, fr, s)
        return Compiler.stmt(self, s, fr)

    def finish_return_reg(self, r, fr, node):
        """return the value already in register r (= fr.ret_reg)"""
        for k in range(len(fr.cleanups) - 1, -1, -1):
            saved = fr.cleanups
            fr.cleanups = saved[:k]
            saved[k]()
            fr.cleanups = saved
        if fr.end_label is None:
            self.emit('Ret (RReg %d)' % r)
        else:
            self.emit('Jmp %s', fr.end_label)

    def local_reg(self, name, fr, create=False, node=None):
        if name == '#ret' and isinstance(fr.env.get('#ret'), int):
            return fr.env['#ret']
        return Compiler.local_reg(self, name, fr, create, node)

    def value_into(self, e, fr, dst):
        if isinstance(e, ast.Call) and ast.unparse(e.func) == 'ForkingPickler.loads' and len(e.args) == 1:
            return self.value_into(e.args[0], fr, dst)
        if isinstance(e, ast.Call) and ast.unparse(e.func) == 'self._poll':
            self.emit('Poll %s %d' % (coq_flag(self.poll_flag(e, fr)), dst))
            return
        return Compiler.value_into(self, e, fr, dst)

    def cond_jump_false(self, test, fr, target):
        txt = ast.unparse(test)
        if isinstance(test, ast.BoolOp) and isinstance(test.op, ast.And):
            for v in test.values:
                self.cond_jump_false(v, fr, target)
            return
        if isinstance(test, ast.BoolOp) and isinstance(test.op, ast.Or):
            # A or B: any true disjunct goes to the body
            body = self.label()
            for v in test.values[:-1]:
                self.cond_jump_false(ast.copy_location(ast.UnaryOp(op=ast.Not(), operand=v), v), fr, body)
            self.cond_jump_false(test.values[-1], fr, target)
            self.place(body)
            return
        neg, inner = False, test
        while isinstance(inner, ast.UnaryOp) and isinstance(inner.op, ast.Not):
            neg, inner = not neg, inner.operand
        if ast.unparse(inner) in Q_THREAD_TESTS and isinstance(fr.env.get('self'), Obj) \
                and fr.env['self'].cls in ('Queue', 'JoinableQueue'):
            true_when_none = (ast.unparse(inner) == Q_THREAD_TESTS[0]) != neg
            if true_when_none:
                self.emit('ThreadJ %s', target)          # a feeder thread exists: the test is false
            else:
                cont = self.label()
                self.emit('ThreadJ %s', cont)
                self.emit('Jmp %s', target)
                self.place(cont)
            return
        if ast.unparse(inner) == 'timeout < 0' and isinstance(fr.env.get('timeout'), Rem):
            # the remaining time is negative: the deadline has passed (register set by Clock)
            self.emit(('Jnz %d %%s' if neg else 'Jz %d %%s') % fr.env['timeout'].e, target)
            return
        if txt == 'timeout is None' and isinstance(fr.env.get('timeout'), Flag):
            f = fr.env['timeout'].f
            if f == 'F':
                return                      # constant None: the test is true
            if f == 'T':
                self.emit('Jmp %s', target)
                return
            self.emit('Jnz %d %%s' % f[1], target)
            return
        if isinstance(test, ast.Name) and isinstance(fr.env.get(test.id), Flag):
            f = fr.env[test.id].f
            if f == 'T':
                return
            if f == 'F':
                self.emit('Jmp %s', target)
                return
            self.emit('Jz %d %%s' % f[1], target)
            return
        if txt == 'self._waiters':
            self.emit('WJz %s', target)
            return
        return Compiler.cond_jump_false(self, test, fr, target)


def q_rename(ins):
    """base instruction text -> QueueProg instruction text"""
    parts = ins.split(' ')
    op = parts[0]

    def sref(n):
        n = int(n)
        return '(SP %d)' % (n - PSEM) if n >= PSEM else '(SG %d)' % n
    if op in ('Acq', 'Rel', 'IsZero', 'Count', 'AssertMine'):
        parts[1] = sref(parts[1])
    return 'Q' + ' '.join(parts)


def tcond_obj():
    return Obj('TCond', {'_lock': Obj('TLock', {'_semlock': Sem(PSEM)}), '_ns': Sem(PSEM + 1)})


def jq_cond_obj():
    return Obj('Condition', {'_lock': Sem(4), '_sleeping_count': Sem(5),
                             '_woken_count': Sem(6), '_wait_semaphore': Sem(7)})


def queue_obj(cls):
    attrs = {'_sem': Sem(0), '_rlock': Sem(1), '_wlock': Sem(2), '_notempty': tcond_obj()}
    if cls == 'JoinableQueue':
        attrs['_unfinished_tasks'] = Sem(3)
        attrs['_cond'] = jq_cond_obj()
    return Obj(cls, attrs)


Q_CLIENTS = [('q_put', 0), ('q_get', 1), ('jq_put', 3), ('jq_task_done', 4), ('jq_join', 5),
             ('sq_put', 6), ('sq_get', 7)]
Q_PARAM_OBJECTS = {
    'q': lambda: queue_obj('Queue'), 'jq': lambda: queue_obj('JoinableQueue'),
    'sq': lambda: Obj('SimpleQueue', {'_rlock': Sem(1), '_wlock': Sem(2)}),
}

# Queue._feed is NOT compiled (local aliases of bound methods, try/except IndexError, the
# sentinel): its body must match this text exactly, and then the hand-written program below is
# emitted.  Any edit of _feed breaks the obligation (fail closed).
# two texts are recognised: the repaired feeder (try/except INSIDE `while 1`: an object that cannot be sent is
# dropped, its capacity token is given back with queue_sem.release() and the thread goes on) and the feeder as it
# was before the repair (handler outside the loop: the thread ends; kept so that the model follows the code if
# that behaviour ever returns -- the check then reports the ended feeder concretely)
FEED_EXPECTED = """debug('starting thread to feed data to pipe')
nacquire = notempty.acquire
nrelease = notempty.release
nwait = notempty.wait
bpopleft = buffer.popleft
sentinel = _sentinel
if sys.platform != 'win32':
    wacquire = writelock.acquire
    wrelease = writelock.release
else:
    wacquire = None
while 1:
    try:
        nacquire()
        try:
            if not buffer:
                nwait()
        finally:
            nrelease()
        try:
            while 1:
                obj = bpopleft()
                if obj is sentinel:
                    debug('feeder thread got sentinel -- exiting')
                    close()
                    return
                obj = ForkingPickler.dumps(obj)
                if wacquire is None:
                    send_bytes(obj)
                else:
                    wacquire()
                    try:
                        send_bytes(obj)
                    finally:
                        wrelease()
        except IndexError:
            pass
    except Exception as exc:
        if ignore_epipe and get_errno(exc) == errno.EPIPE:
            return
        try:
            if is_exiting():
                info('error in queue thread: %r', exc, exc_info=True)
                return
            elif not error('error in queue thread: %r', exc, exc_info=True):
                import traceback
                traceback.print_exc()
        except Exception:
            pass
        if queue_sem is not None:
            queue_sem.release()"""
FEED_OLD = """debug('starting thread to feed data to pipe')
nacquire = notempty.acquire
nrelease = notempty.release
nwait = notempty.wait
bpopleft = buffer.popleft
sentinel = _sentinel
if sys.platform != 'win32':
    wacquire = writelock.acquire
    wrelease = writelock.release
else:
    wacquire = None
try:
    while 1:
        nacquire()
        try:
            if not buffer:
                nwait()
        finally:
            nrelease()
        try:
            while 1:
                obj = bpopleft()
                if obj is sentinel:
                    debug('feeder thread got sentinel -- exiting')
                    close()
                    return
                obj = ForkingPickler.dumps(obj)
                if wacquire is None:
                    send_bytes(obj)
                else:
                    wacquire()
                    try:
                        send_bytes(obj)
                    finally:
                        wrelease()
        except IndexError:
            pass
except Exception as exc:
    if ignore_epipe and get_errno(exc) == errno.EPIPE:
        return
    try:
        if is_exiting():
            info('error in queue thread: %r', exc, exc_info=True)
        elif not error('error in queue thread: %r', exc, exc_info=True):
            import traceback
            traceback.print_exc()
    except Exception:
        pass"""
FEED_ARGS_EXPECTED = ("(self._buffer, self._notempty, self._send_bytes, self._wlock, "
                      "self._writer.close, self._ignore_epipe, self._sem)")      # queue_sem = the capacity semaphore
FEED_ARGS_OLD = ("(self._buffer, self._notempty, self._send_bytes, self._wlock, "
                 "self._writer.close, self._ignore_epipe)")
# Queue._start_thread is not compiled either: apart from its debug() lines it must begin with exactly these
# statements (the model's StartThread = clear the buffer, then create, record and start the feeder thread), and
# nothing after them may touch self._thread / self._buffer again
START_EXPECTED = ("self._buffer.clear()\n"
                  "self._thread = threading.Thread(target=Queue._feed, args=%s, name='QueueFeederThread')\n"
                  "self._thread.daemon = True\n"
                  "self._thread.start()")


def check_start_thread(st, repaired):
    body = [n for n in st.body
            if not (isinstance(n, ast.Expr) and isinstance(n.value, ast.Constant))
            and not (isinstance(n, ast.Expr) and isinstance(n.value, ast.Call) and ast.unparse(n.value.func) == 'debug')]
    head = '\n'.join(ast.unparse(n) for n in body[:4])
    if head != START_EXPECTED % (FEED_ARGS_EXPECTED if repaired else FEED_ARGS_OLD):
        raise TranslateError('Queue._start_thread changed: it no longer is clear(); Thread(target=Queue._feed, ...); '
                             'daemon; start(): %r' % head[:300])
    for n in body[4:]:
        for m in ast.walk(n):
            if isinstance(m, (ast.Assign, ast.AugAssign, ast.Delete)):
                tgts = m.targets if isinstance(m, (ast.Assign, ast.Delete)) else [m.target]
                for t in tgts:
                    if ast.unparse(t) in ('self._thread', 'self._buffer', 'self._notempty'):
                        raise TranslateError('Queue._start_thread assigns %s after starting the thread' % ast.unparse(t))
            if isinstance(m, ast.Call) and isinstance(m.func, ast.Attribute) and \
                    ast.unparse(m.func.value) in ('self._buffer', 'self._thread') and m.func.attr != 'join':
                raise TranslateError('Queue._start_thread calls %s after starting the thread' % ast.unparse(m.func))


FEED_PARAMS_EXPECTED = ['buffer', 'notempty', 'send_bytes', 'writelock', 'close', 'ignore_epipe', 'queue_sem']


def feed_program(srcs, fk_src, repaired=True):
    """hand translation of Queue._feed (nwait() = the compiled body of TCond.wait).  repaired: the handler
    `except Exception` is inside `while 1` and ends with queue_sem.release(); else (the feeder before the
    repair) the handler is outside the loop and the function returns"""
    comp = QCompiler(srcs)
    comp.nreg = 3
    top, rel, pop, wend = comp.label(), comp.label(), comp.label(), comp.label()
    comp.place(top)
    comp.emit('Acq %d FT FF %d' % (PSEM, TMP))        # nacquire()
    comp.emit('BufNonEmptyJ %s', rel)                 # if not buffer:
    wfn, _ = fk_src.method('TCond', 'wait')           #     nwait()
    comp.body(wfn.body, Frame('TCond', wfn, {'self': tcond_obj()}, None, wend, 1))
    comp.place(wend)
    comp.place(rel)
    comp.emit('Rel %d' % PSEM)                        # nrelease()
    comp.place(pop)
    comp.emit('BufPop 2 %s', top)                     # obj = bpopleft()  (IndexError: outer loop)
    dead = comp.label()
    comp.emit('Dumps 2 %s', dead)                     # obj = ForkingPickler.dumps(obj); an exception goes to the handler
    comp.emit('Acq 2 FT FF %d' % TMP)                 # wacquire()
    comp.emit('Send 2')                               # send_bytes(obj)
    comp.emit('Rel 2')                                # wrelease()
    comp.emit('Jmp %s', pop)
    comp.place(dead)
    if repaired:
        comp.emit('Rel 0')                            # except Exception: (logged) queue_sem.release()
        comp.emit('Jmp %s', top)                      # while 1: the thread goes on with the next object
    else:
        comp.emit('Exit')                             # except Exception: ... (logged); the function returns
    return [q_rename(i) for i in comp.resolve()]


def compile_q_client(name, srcs, client_src):
    fn = client_src.funcs.get(name)
    if fn is None:
        raise TranslateError('client %s not found' % name)
    comp = QCompiler(srcs)
    env = {}
    for a in fn.args.args:
        if a.arg in Q_PARAM_OBJECTS:
            env[a.arg] = Q_PARAM_OBJECTS[a.arg]()
        elif a.arg in PARAM_FLAGS:
            env[a.arg] = Flag(('R', PARAM_FLAGS[a.arg]))
        elif a.arg == 'obj':
            env[a.arg] = ('reg', 2)
        else:
            raise TranslateError('client %s: unknown parameter %s' % (name, a.arg))
    comp.nreg = 3
    fr = Frame('client', fn, env, None, None, 0)
    comp.body(fn.body, fr)
    if not comp.always_returns(fn.body):
        comp.emit('Ret RNone')
    return [q_rename(i) for i in comp.resolve()]


def gen_P_queue(repo):
    sync_src = Source(os.path.join(repo, 'billiard', 'synchronize.py'))
    q_src = Source(os.path.join(repo, 'billiard', 'queues.py'))
    fk_src = Source(os.path.join(VERIF, 'harness', 'c16_fakes.py'))
    client_src = Source(os.path.join(VERIF, 'harness', 'c16_clients.py'))
    check_wrappers(sync_src)
    srcs = {'Condition': sync_src, 'Queue': q_src, 'JoinableQueue': q_src, 'SimpleQueue': q_src,
            '_SimpleQueue': q_src, 'TCond': fk_src, 'TLock': fk_src, '': client_src}
    # --- shape checks of what is not compiled
    fn, _ = q_src.method('Queue', '_feed')
    feed_text = body_text(fn)
    if feed_text not in (FEED_EXPECTED, FEED_OLD):
        raise TranslateError('Queue._feed changed: the hand-written feeder program no longer applies')
    repaired = feed_text == FEED_EXPECTED
    if repaired and [a.arg for a in fn.args.args] != FEED_PARAMS_EXPECTED:
        raise TranslateError('Queue._feed: unexpected parameters %r' % [a.arg for a in fn.args.args])
    st, _ = q_src.method('Queue', '_start_thread')
    starts = [n for n in ast.walk(st) if isinstance(n, ast.Call) and ast.unparse(n.func) == 'threading.Thread']
    if len(starts) != 1:
        raise TranslateError('Queue._start_thread no longer creates exactly one thread')
    kw = {k.arg: ast.unparse(k.value) for k in starts[0].keywords}
    if kw.get('target') != 'Queue._feed' or kw.get('args') != (FEED_ARGS_EXPECTED if repaired else FEED_ARGS_OLD):
        raise TranslateError('Queue._start_thread passes %r to the feeder' % kw)
    check_start_thread(st, repaired)
    af, _ = q_src.method('Queue', '_after_fork')
    af_text = body_text(af)
    for need in ('self._notempty = threading.Condition(threading.Lock())', 'self._buffer = collections.deque()',
                 'self._thread = None', 'self._send_bytes = self._writer.send_bytes',
                 'self._recv_bytes = self._reader.recv_bytes', 'self._poll = self._reader.poll'):
        if need not in af_text.split('\n'):
            raise TranslateError('Queue._after_fork lost %r' % need)
    init, _ = q_src.method('Queue', '__init__')
    it = body_text(init)
    for need in ('self._rlock = ctx.Lock()', 'self._sem = ctx.BoundedSemaphore(maxsize)', 'self._maxsize = maxsize'):
        if need not in [l.strip() for l in it.split('\n')]:
            raise TranslateError('Queue.__init__ lost %r' % need)
    if 'self._wlock = ctx.Lock()' not in [l.strip() for l in it.split('\n')]:
        raise TranslateError('Queue.__init__: write lock')
    ji, _ = q_src.method('JoinableQueue', '__init__')
    jt = [l.strip() for l in body_text(ji).split('\n')]
    for need in ('Queue.__init__(self, maxsize, ctx=ctx)', 'self._unfinished_tasks = ctx.Semaphore(0)',
                 'self._cond = ctx.Condition()'):
        if need not in jt:
            raise TranslateError('JoinableQueue.__init__ lost %r' % need)
    si, _ = q_src.method('SimpleQueue', '__init__')
    stx = [l.strip() for l in body_text(si).split('\n')]
    for need in ('self._rlock = ctx.Lock()', "self._wlock = ctx.Lock() if sys.platform != 'win32' else None"):
        if need not in stx:
            raise TranslateError('SimpleQueue.__init__ lost %r' % need)
    out = ['(* GENERATED on every run by translate/kernels/semprog.py from billiard/queues.py,',
           '   billiard/synchronize.py (working tree), harness/c16_clients.py and harness/c16_fakes.py.',
           '   p_feed is a hand translation emitted only while Queue._feed matches its expected text%s;'
           % ('' if repaired else ' (the feeder BEFORE the repair: handler outside the loop)'),
           '   StartThread stands for the body of Queue._start_thread (checked against its expected shape). *)',
           'From Coq Require Import ZArith List Bool.',
           'From BV Require Import Model.SemProg Model.QueueProg.',
           'Import ListNotations.',
           'Open Scope Z_scope.',
           '',
           '(* constructor parameters: _sem = BoundedSemaphore(maxsize), _rlock/_wlock = Lock(),',
           '   _unfinished_tasks = Semaphore(0), _cond = Condition() (RLock + three Semaphore(0)) *)',
           'Definition SEM_VALUE_MAX : Z := 2147483647.',
           ctor_def(sync_src, 'Lock'), ctor_def(sync_src, 'RLock'),
           ctor_def(sync_src, 'Semaphore'), ctor_def(sync_src, 'BoundedSemaphore'),
           'Definition queue_sems (maxsize : Z) : list sem :=',
           '  [ctor_BoundedSemaphore maxsize; ctor_Lock; ctor_Lock;',
           '   ctor_Semaphore 0; ctor_RLock; ctor_Semaphore 0; ctor_Semaphore 0; ctor_Semaphore 0].',
           '']
    progs = []
    for name, cid in Q_CLIENTS:
        progs.append((name, cid, compile_q_client(name, srcs, client_src)))
    progs.append(('feed', 2, feed_program(srcs, fk_src, repaired)))
    for name, cid, prog in sorted(progs, key=lambda x: x[1]):
        out.append('Definition p_%s : list qinstr :=' % name)
        out.append('  [ ' + ';\n    '.join('%-30s (* %2d *)' % (ins, k) for k, ins in enumerate(prog)) + ' ].')
        out.append('')
    out.append('Definition code (c : nat) : list qinstr :=')
    out.append('  match c with')
    for name, cid, prog in sorted(progs, key=lambda x: x[1]):
        out.append('  | %d%%nat => p_%s' % (cid, name))
    out.append('  | _ => []')
    out.append('  end.')
    out.append('Definition FEED : nat := 2.')
    return '\n'.join(out) + '\n'


Q_PRELUDE = ('From Coq Require Import ZArith List Bool.', 'From BV Require Import Model.SemProg Model.QueueProg.',
             'Import ListNotations.', 'Open Scope Z_scope.')


def queue_module_text(repo, name):
    """the definitions of Gen/P_queue.v for `repo`, wrapped as `Module <name>` (for case files that must
    not depend on coq/Gen, which a concurrent check of another tree may regenerate); the importing
    file provides the prelude Q_PRELUDE"""
    lines = [l for l in gen_P_queue(repo).split('\n') if l not in Q_PRELUDE]
    return 'Module %s.\n%s\nEnd %s.\n' % (name, '\n'.join(lines), name)


KERNELS = []
EXTRA_GENERATORS = {'P_cond': gen_P_cond, 'P_queue': gen_P_queue}
