"""Kernel specifications: one module per family; each defines KERNELS (list of pykernel
specs) and optionally EXTRA_GENERATORS = {gen_name: fn(repo_path) -> coq text}."""
import importlib
import os
import pkgutil


def load():
    kernels, extra = {}, {}
    here = os.path.dirname(__file__)
    for m in sorted(pkgutil.iter_modules([here]), key=lambda m: m.name):
        mod = importlib.import_module('kernels.' + m.name)
        importlib.reload(mod)
        for k in getattr(mod, 'KERNELS', []):
            kernels[k['name']] = k
        extra.update(getattr(mod, 'EXTRA_GENERATORS', {}))
    return kernels, extra
