"""Pool family: the text the hand-written pool model was validated against.

coq/Model/Pool.v is written by hand and tied to billiard/pool.py by differential
correspondence on every run.  The correspondence samples histories; this generator adds the
fail-closed half: for every parent-side function the model copies, a digest of its AST
(docstrings and comments do not count, everything else does) is compared with the digest of the
text the model was last read against (poolpins.json, committed).  The result is emitted as
`Definition pin_<function> : bool` into coq/Gen/G_pool_pins.v and each pool property proves
`pin = true` for the functions ITS theorems are about, so ANY edit of one of them breaks a proof
obligation of exactly the properties that depend on it -- the check then searches (deeper) for a
failing history and reports the violation with one, or `no-failing-input-found`.

After a deliberate change of /repo (a `fix:` commit) the model is re-read against the new text
and the digests are renewed by hand:  /venv/bin/python translate/kernels/poolpins.py --update
(never run by a check)."""
import ast
import hashlib
import json
import os
import sys

HERE = os.path.dirname(os.path.abspath(__file__))
PINS = os.path.join(HERE, 'poolpins.json')

# the parent-side functions Model/Pool.v (and Model/PoolSys.v) copy, by what they decide
GROUPS = {
    'setup': ['Pool.__init__', 'Pool._setup_queues', 'Pool.create_result_handler', 'Pool.get_process_queues',
              'Pool._process_register_queues', 'ResultHandler.__init__', 'Supervisor.__init__', 'PoolThread.__init__'],
    'jobs': ['ApplyResult.__init__', 'ApplyResult._set', 'ApplyResult._ack', 'ApplyResult.get', 'ApplyResult.wait',
             'ApplyResult.ready', 'ApplyResult.safe_apply_callback', 'ApplyResult._set_terminated',
             'ApplyResult.worker_pids', 'ApplyResult._cancel', 'ApplyResult.discard',
             'MapResult.__init__', 'MapResult._set', 'MapResult._ack', 'MapResult.worker_pids',
             'IMapIterator.__init__', 'IMapIterator.next', 'IMapIterator._set', 'IMapIterator._set_length',
             'IMapIterator._ack', 'IMapIterator._set_terminated', 'IMapIterator.worker_pids', 'IMapIterator.ready',
             'IMapUnorderedIterator._set',
             'ResultHandler._make_methods', 'ResultHandler._process_result', 'ResultHandler.handle_event',
             'Pool.apply_async', 'Pool._map_async', 'Pool.imap', 'Pool.imap_unordered', 'Pool.on_job_ready'],
    'loss': ['Pool._join_exited_workers', 'Pool.on_job_process_down', 'Pool.on_job_process_lost',
             'Pool.mark_as_worker_lost', 'Pool.process_flush_queues'],
    'limits': ['TimeoutHandler.__init__', 'TimeoutHandler._process_by_pid', 'TimeoutHandler.on_soft_timeout',
               'TimeoutHandler.on_hard_timeout', 'TimeoutHandler._trywaitkill', 'TimeoutHandler.handle_timeouts',
               'TimeoutHandler.handle_event', 'TimeoutHandler.body', 'ApplyResult.handle_timeout',
               'Pool._start_timeout_handler'],
    'drain': ['ResultHandler.finish_at_shutdown'],
    'worker_signals': ['soft_timeout_sighandler', 'Worker.after_fork'],
    'close': ['Pool.close', 'Pool.join', 'TaskHandler.__init__', 'TaskHandler.body', 'TaskHandler.tell_others',
              'TaskHandler.on_stop_not_started', 'ResultHandler.finish_at_shutdown', 'ResultHandler.body',
              'Supervisor.body'],
    'terminate': ['Pool.terminate', 'Pool._terminate_pool', 'Pool.terminate_job', 'Pool._help_stuff_finish',
                  'Pool._set_result_sentinel', 'Pool._stop_task_handler', 'PoolThread.run', 'PoolThread.stop',
                  'PoolThread.terminate', 'PoolThread.close', 'stop_if_not_current'],
    'size': ['Pool._maintain_pool', 'Pool.maintain_pool', 'Pool._repopulate_pool', 'Pool._avail_index',
             'Pool._create_worker_process', 'Pool.shrink', 'Pool.grow', 'Pool._iterinactive', 'Pool._worker_active',
             'Pool._process_by_pid', 'Pool.did_start_ok'],
}
# which groups each property's theorems are about
BY_PROPERTY = {
    'C01': ['jobs', 'loss', 'drain', 'setup'],
    'C04': ['loss', 'jobs', 'drain', 'setup'],
    'C05': ['limits', 'jobs', 'setup'],
    'C06': ['limits', 'worker_signals', 'setup'],
    'C07': ['close', 'jobs', 'size', 'setup'],
    'C08': ['terminate', 'loss', 'close', 'setup'],
    'C09': ['size', 'loss', 'setup'],
    'C10': ['jobs', 'loss', 'close', 'setup'],
    'C11': ['size', 'close', 'setup'],
}


def coqname(qual):
    # Cls.__init__ -> Cls_dd_init, Cls._private -> Cls_p_private, Cls.public -> Cls_public
    return 'pin_' + qual.replace('.__', '_dd_').replace('._', '_p_').replace('.', '_').rstrip('_')


def digest(fn):
    fn = ast.parse(ast.unparse(fn)).body[0]       # fresh copy, positions gone
    for node in ast.walk(fn):
        body = getattr(node, 'body', None)
        if isinstance(node, (ast.FunctionDef, ast.ClassDef)) and body and isinstance(body[0], ast.Expr) and \
                isinstance(getattr(body[0], 'value', None), ast.Constant) and isinstance(body[0].value.value, str):
            node.body = body[1:] or [ast.Pass()]
    return hashlib.sha256(ast.dump(fn, annotate_fields=True, include_attributes=False).encode()).hexdigest()


def all_funcs():
    seen = []
    for g in GROUPS.values():
        for q in g:
            if q not in seen:
                seen.append(q)
    return seen


def digests(repo):
    sys.path.insert(0, os.path.dirname(HERE))
    from pykernel import find_func
    tree = ast.parse(open(os.path.join(repo, 'billiard/pool.py')).read())
    return {q: digest(find_func(tree, q)) for q in all_funcs()}      # a missing function is an error (fail closed)


def generate(repo):
    have = digests(repo)
    want = json.load(open(PINS))['digests']
    out = ['(* GENERATED by translate/kernels/poolpins.py from billiard/pool.py -- do not edit.',
           '   pin_f = true: the AST of f is the one the hand-written pool model was last read against',
           '   (translate/kernels/poolpins.json) *)']
    for q in all_funcs():
        out.append('Definition %s : bool := %s.' % (coqname(q), 'true' if want.get(q) == have[q] else 'false'))
    for g, qs in sorted(GROUPS.items()):
        out.append('Definition group_%s : bool := %s.' % (g, ' && '.join(coqname(q) for q in qs)))
    for p, gs in sorted(BY_PROPERTY.items()):
        out.append('Definition modelled_code_of_%s : bool := %s.' % (p, ' && '.join('group_' + g for g in gs)))
    return '\n'.join(out) + '\n'


EXTRA_GENERATORS = {'G_pool_pins': generate}

if __name__ == '__main__':
    if sys.argv[1:] == ['--update']:
        repo = os.environ.get('VERIF_REPO', '/repo')
        import subprocess
        head = subprocess.run(['git', '-C', repo, 'rev-parse', '--short', 'HEAD'], stdout=subprocess.PIPE, text=True).stdout.strip()
        json.dump(dict(read_against=head, digests=digests(repo)), open(PINS, 'w'), indent=1, sort_keys=True)
        print('pinned', len(all_funcs()), 'functions of', repo, 'at', head)
    else:
        print(generate(os.environ.get('VERIF_REPO', '/repo')))
