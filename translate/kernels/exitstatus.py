"""K9 (family X, exit status): two generated files.

K_procguard  -- plain pykernel spec over billiard/process.py:
                BaseProcess.start / join / is_alive / exitcode (the guards and
                the children-set bookkeeping of ONE process object).
K_exitstatus -- bespoke fail-closed generator.  The interesting decisions sit
                inside try/except/while constructs pykernel does not accept, so
                this module cuts them out of the real AST (checking the shape of
                everything it drops against a canonical form, failing otherwise),
                assembles a synthetic module of small straight-line functions
                made of the *original* statement nodes, and hands that to
                pykernel:
                  poll_ans       popen_fork.Popen.poll with the waitpid retry loop
                                 replaced by its result (pid, sts) as parameters
                  wait           popen_fork.Popen.wait (sentinel wait and the two
                                 possible waitpid outcomes are oracle parameters)
                  fs_poll        popen_forkserver.Popen.poll (try/except around
                                 read_unsigned turned into `if rd_ok`)
                  sysexit_code   the `except SystemExit as exc:` handler of
                                 BaseProcess._bootstrap (stderr writes dropped)
                  return_code / raise_code   the constants assigned after
                                 self.run() and in the bare `except:` handler
                  human_is_signal / human_signum / human_exitnum
                                 common.human_status: its test and the numbers it prints
"""
import ast
import copy
import os
import tempfile

import pykernel
from pykernel import TranslateError


# --------------------------------------------------------------------------- K_procguard
K_procguard = dict(
    name='K_procguard',
    file='billiard/process.py',
    # self.in_children is a pseudo attribute: "self is a member of the module-level
    # set _children"; it is written by the modelled calls _children.add/discard
    state=['self._popen', 'self._parent_pid', 'self._sentinel', 'self.in_children'],
    exprs={
        'self': 'PNone',            # the argument of _children.add/discard(self)
        'os.getpid()': 'getpid',
        'self._Popen(self)': 'new_popen',
        'self._popen.sentinel': 'PInt 0',
        'self is _current_process': 'is_current',
        'self._popen.returncode': 'rc_after',
        'self._popen.wait(timeout)': 'wait_res',
        'self._popen.poll()': 'poll_res',
    },
    calls={
        '_cleanup': 'call_noop',
        '_children.add': 'children_add',
        '_children.discard': 'children_discard',
        'self.close': 'call_noop',
        'self._popen.poll': 'call_noop',
    },
    prelude='''(* modelled callees: _cleanup() and close() do not touch this object's guard
   state; poll()'s effect is visible through the oracle parameter rc_after *)
Definition call_noop (s : st) (_ : list pv) : outcome st pv := Ok PNone s.
Definition children_add (s : st) (_ : list pv) : outcome st pv :=
  Ok PNone (set_self_in_children s (PBool true)).
Definition children_discard (s : st) (_ : list pv) : outcome st pv :=
  Ok PNone (set_self_in_children s (PBool false)).''',
    funcs=[
        dict(qual='BaseProcess.start', coqname='start', params=[],
             extra_params=['getpid', 'new_popen']),
        dict(qual='BaseProcess.join', coqname='join', params=['timeout'],
             extra_params=['getpid', 'wait_res']),
        dict(qual='BaseProcess.is_alive', coqname='is_alive', params=[],
             extra_params=['getpid', 'is_current', 'rc_after']),
        dict(qual='BaseProcess.exitcode', coqname='exitcode', params=[],
             extra_params=['poll_res']),
    ],
)

KERNELS = [K_procguard]


# --------------------------------------------------------------------------- K_exitstatus
def _parse(repo, rel):
    with open(os.path.join(repo, rel)) as fh:
        return ast.parse(fh.read())


def _dump(node):
    return ast.dump(node, annotate_fields=True, include_attributes=False)


def _canon_stmt(text):
    return ast.parse(text).body[0]


def _same(node, text, what):
    if _dump(node) != _dump(_canon_stmt(text)):
        raise TranslateError('%s: shape changed; expected\n%s\nfound\n%s' % (
            what, text.strip(), ast.unparse(node)))


def _mkfunc(name, params, body):
    fn = ast.FunctionDef(
        name=name,
        args=ast.arguments(posonlyargs=[], args=[ast.arg(arg=p) for p in ['self'] + params],
                           vararg=None, kwonlyargs=[], kw_defaults=[], kwarg=None, defaults=[]),
        body=body, decorator_list=[], returns=None, type_comment=None)
    return fn


WAITPID_LOOP = '''
while True:
    try:
        pid, sts = os.waitpid(self.pid, flag)
    except OSError as e:
        if e.errno == errno.EINTR:
            continue
        return None
    else:
        break
'''


def _canon_handler_names(node):
    """copy of `node` with every `except X as <name>` variable renamed to `e`"""
    node = copy.deepcopy(node)
    for h in [n for n in ast.walk(node) if isinstance(n, ast.ExceptHandler) and n.name]:
        old = h.name
        if any(isinstance(n, ast.Name) and n.id == 'e' for n in ast.walk(h)) and old != 'e':
            continue                      # would capture another `e`: leave it, the shape check fails
        for n in ast.walk(h):
            if isinstance(n, ast.Name) and n.id == old:
                n.id = 'e'
        h.name = 'e'
    return node


def _ret_name(name):
    return ast.Return(value=ast.Name(id=name, ctx=ast.Load()))


def _strip(stmts, allowed, what):
    """drop whitelisted side-effect statements (recursively through if/else)"""
    out = []
    for st in stmts:
        if isinstance(st, ast.Expr) and isinstance(st.value, ast.Call):
            if ast.unparse(st) in allowed:
                continue
            raise TranslateError('%s: unexpected call statement `%s`' % (what, ast.unparse(st)))
        if isinstance(st, ast.If):
            st = copy.copy(st)
            st.body = _strip(st.body, allowed, what)
            st.orelse = _strip(st.orelse, allowed, what)
        out.append(st)
    return out


def _stores(node, name):
    return sum(1 for n in ast.walk(node)
               if isinstance(n, ast.Name) and n.id == name and isinstance(n.ctx, ast.Store))


def _const_assign(st, name, what):
    if not (isinstance(st, ast.Assign) and len(st.targets) == 1
            and isinstance(st.targets[0], ast.Name) and st.targets[0].id == name):
        raise TranslateError('%s: expected `%s = <constant>`, found `%s`' % (what, name, ast.unparse(st)))
    return st


def fork_poll_and_wait(repo):
    tree = _parse(repo, 'billiard/popen_fork.py')
    poll = copy.deepcopy(pykernel.find_func(tree, 'Popen.poll'))
    if [a.arg for a in poll.args.args] != ['self', 'flag'] or \
            [ast.unparse(d) for d in poll.args.defaults] != ['os.WNOHANG']:
        raise TranslateError('popen_fork.Popen.poll: signature changed')
    # find the waitpid loop (exactly one `while` in the function), check it, drop it
    holders = [n for n in ast.walk(poll) if hasattr(n, 'body') and isinstance(n.body, list)
               and any(isinstance(s, ast.While) for s in n.body)]
    whiles = [n for n in ast.walk(poll) if isinstance(n, ast.While)]
    if len(whiles) != 1 or len(holders) != 1:
        raise TranslateError('popen_fork.Popen.poll: expected exactly one while loop')
    _same(_canon_handler_names(whiles[0]), WAITPID_LOOP, 'popen_fork.Popen.poll waitpid loop')
    holder = holders[0]
    idx = holder.body.index(whiles[0])
    # nothing before the loop inside its block may look at pid/sts; after removal the
    # loop's results are the parameters pid, sts
    holder.body = holder.body[:idx] + holder.body[idx + 1:]
    poll_ans = _mkfunc('poll_ans', ['pid', 'sts'], poll.body)

    wait = copy.deepcopy(pykernel.find_func(tree, 'Popen.wait'))
    if [a.arg for a in wait.args.args] != ['self', 'timeout'] or \
            [ast.unparse(d) for d in wait.args.defaults] != ['None']:
        raise TranslateError('popen_fork.Popen.wait: signature changed')

    def drop_imports(stmts):
        out = []
        for st in stmts:
            if isinstance(st, ast.ImportFrom):
                if ast.unparse(st) != 'from .connection import wait':
                    raise TranslateError('popen_fork.Popen.wait: unexpected import')
                continue
            if isinstance(st, ast.If):
                st.body = drop_imports(st.body)
                st.orelse = drop_imports(st.orelse)
            out.append(st)
        return out
    wait_fn = _mkfunc('wait', ['timeout'], drop_imports(wait.body))
    return poll_ans, wait_fn


def forkserver_poll(repo):
    tree = _parse(repo, 'billiard/popen_forkserver.py')
    poll = copy.deepcopy(pykernel.find_func(tree, 'Popen.poll'))
    if [a.arg for a in poll.args.args] != ['self', 'flag'] or \
            [ast.unparse(d) for d in poll.args.defaults] != ['os.WNOHANG']:
        raise TranslateError('popen_forkserver.Popen.poll: signature changed')

    def rewrite(stmts):
        out = []
        for st in stmts:
            if isinstance(st, ast.ImportFrom):
                if ast.unparse(st) != 'from .connection import wait':
                    raise TranslateError('popen_forkserver.Popen.poll: unexpected import')
                continue
            if isinstance(st, ast.Try):
                if st.orelse or st.finalbody or len(st.handlers) != 1 or \
                        st.handlers[0].type is None or \
                        ast.unparse(st.handlers[0].type) != '(OSError, EOFError)' or \
                        st.handlers[0].name is not None:
                    raise TranslateError('popen_forkserver.Popen.poll: try/except shape changed')
                if len(st.body) != 1 or 'read_unsigned' not in ast.unparse(st.body[0]):
                    raise TranslateError('popen_forkserver.Popen.poll: try body changed')
                out.append(ast.If(test=ast.Name(id='rd_ok', ctx=ast.Load()),
                                  body=st.body, orelse=st.handlers[0].body))
                continue
            if isinstance(st, ast.If):
                st.body = rewrite(st.body)
                st.orelse = rewrite(st.orelse)
            out.append(st)
        return out
    return _mkfunc('fs_poll', ['flag'], rewrite(poll.body))


def bootstrap_codes(repo):
    tree = _parse(repo, 'billiard/process.py')
    fn = pykernel.find_func(tree, 'BaseProcess._bootstrap')
    what = 'process.BaseProcess._bootstrap'
    outer = [s for s in fn.body if isinstance(s, ast.Try)]
    if len(outer) != 1:
        raise TranslateError(what + ': expected one top-level try statement')
    outer = outer[0]
    if not isinstance(fn.body[-1], ast.Return) or ast.unparse(fn.body[-1]) != 'return exitcode' \
            or fn.body[-2] is not outer:
        raise TranslateError(what + ': must end with the try statement and `return exitcode`')
    if len(outer.handlers) != 2 or outer.orelse:
        raise TranslateError(what + ': expected exactly the handlers SystemExit and bare except')
    h_se, h_any = outer.handlers
    if h_se.type is None or ast.unparse(h_se.type) != 'SystemExit' or h_se.name != 'exc' \
            or h_any.type is not None:
        raise TranslateError(what + ': handler order/types changed')
    if any(_stores(s, 'exitcode') for s in outer.finalbody):
        raise TranslateError(what + ': finally block assigns exitcode')
    # --- SystemExit handler
    allowed = {"sys.stderr.write(str(exc.args[0]) + '\\n')", '_maybe_flush(sys.stderr)'}
    body = _strip(copy.deepcopy(h_se.body), allowed, what + ' SystemExit handler')
    sysexit = _mkfunc('sysexit_code', [], body + [_ret_name('exitcode')])
    # --- bare handler: first statement sets the code, nothing else touches it
    first = _const_assign(h_any.body[0], 'exitcode', what + ' bare except')
    if sum(_stores(s, 'exitcode') for s in h_any.body) != 1:
        raise TranslateError(what + ': bare except assigns exitcode more than once')
    raise_fn = _mkfunc('raise_code', [], [copy.deepcopy(first), _ret_name('exitcode')])
    # --- normal return: the try whose body is `self.run(); exitcode = K`
    runs = [n for n in ast.walk(outer) if isinstance(n, ast.Try) and n.body
            and ast.unparse(n.body[0]) == 'self.run()']
    if len(runs) != 1 or len(runs[0].body) != 2 or runs[0].handlers or runs[0].orelse:
        raise TranslateError(what + ': expected `try: self.run(); exitcode = K finally: ...`')
    if any(_stores(s, 'exitcode') for s in runs[0].finalbody):
        raise TranslateError(what + ': finally of the run block assigns exitcode')
    okst = _const_assign(runs[0].body[1], 'exitcode', what + ' after self.run()')
    # no other assignment to exitcode in the try body
    if sum(_stores(s, 'exitcode') for s in outer.body) != 1:
        raise TranslateError(what + ': try body assigns exitcode more than once')
    return_fn = _mkfunc('return_code', [], [copy.deepcopy(okst), _ret_name('exitcode')])
    return sysexit, return_fn, raise_fn


FORK_CHILD = '''
if self.pid == 0:
    try:
        os.close(parent_r)
        if 'random' in sys.modules:
            import random
            random.seed()
        code = process_obj._bootstrap()
    finally:
        os._exit(code)
else:
    os.close(child_w)
    self.sentinel = parent_r
'''


def exit_mechanics(repo):
    """how the code chosen by _bootstrap leaves the child: shape checks only"""
    tree = _parse(repo, 'billiard/popen_fork.py')
    launch = pykernel.find_func(tree, 'Popen._launch')
    ifs = [s for s in launch.body if isinstance(s, ast.If)]
    if len(ifs) != 1:
        raise TranslateError('popen_fork.Popen._launch: shape changed')
    _same(ifs[0], FORK_CHILD, 'popen_fork.Popen._launch child branch')
    tree = _parse(repo, 'billiard/spawn.py')
    sm = pykernel.find_func(tree, 'spawn_main')
    tail = [ast.unparse(s) for s in sm.body[-2:]]
    if tail != ['exitcode = _main(fd)', 'sys.exit(exitcode)']:
        raise TranslateError('spawn.spawn_main: must end with exitcode = _main(fd); sys.exit(exitcode)')
    mn = pykernel.find_func(tree, '_main')
    if ast.unparse(mn.body[-1]) != 'return self._bootstrap()':
        raise TranslateError('spawn._main: must return self._bootstrap()')
    tree = _parse(repo, 'billiard/forkserver.py')
    so = pykernel.find_func(tree, '_serve_one')
    tail = [ast.unparse(s) for s in so.body[-2:]]
    if tail != ['code = spawn._main(child_r)', 'write_unsigned(child_w, code)']:
        raise TranslateError('forkserver._serve_one: must end with code = spawn._main(child_r); '
                             'write_unsigned(child_w, code)')
    fmt = [ast.unparse(s.value) for s in tree.body if isinstance(s, ast.Assign)
           and ast.unparse(s.targets[0]) == 'UNSIGNED_STRUCT']
    if fmt != ["struct.Struct('Q')"]:
        raise TranslateError('forkserver.UNSIGNED_STRUCT is no longer struct.Struct(\'Q\')')


CLEANUP = '''
def _cleanup():
    for p in list(_children):
        if p._popen.poll() is not None:
            _children.discard(p)
'''

ACTIVE_CHILDREN = '''
def active_children(_cleanup=_cleanup):
    try:
        _cleanup()
    except TypeError:
        return []
    return list(_children)
'''


def _strip_doc(fn):
    fn = copy.deepcopy(fn)
    if fn.body and isinstance(fn.body[0], ast.Expr) and isinstance(fn.body[0].value, ast.Constant) \
            and isinstance(fn.body[0].value.value, str):
        fn.body = fn.body[1:]
    return fn


def children_set_shapes(repo):
    """process._cleanup / active_children are modelled by hand (a loop over a set):
    their shape is pinned, their behaviour is covered by the correspondence"""
    tree = _parse(repo, 'billiard/process.py')
    _same(_strip_doc(pykernel.find_func(tree, '_cleanup')), CLEANUP, 'process._cleanup')
    _same(_strip_doc(pykernel.find_func(tree, 'active_children')), ACTIVE_CHILDREN,
          'process.active_children')


def human_status_parts(repo):
    tree = _parse(repo, 'billiard/common.py')
    fn = pykernel.find_func(tree, 'human_status')
    what = 'common.human_status'
    if [a.arg for a in fn.args.args] != ['status'] or len(fn.body) != 2 \
            or not isinstance(fn.body[0], ast.If) or fn.body[0].orelse \
            or not isinstance(fn.body[1], ast.Return):
        raise TranslateError(what + ': shape changed')
    test = copy.deepcopy(fn.body[0].test)
    tr = fn.body[0].body
    if len(tr) != 1 or not isinstance(tr[0], ast.Try) or len(tr[0].body) != 1 \
            or not isinstance(tr[0].body[0], ast.Return):
        raise TranslateError(what + ': signal branch shape changed')

    def fmt_arg0(ret, prefix):
        c = ret.value
        if not (isinstance(c, ast.Call) and isinstance(c.func, ast.Attribute) and c.func.attr == 'format'
                and isinstance(c.func.value, ast.Constant) and str(c.func.value.value).startswith(prefix)
                and c.args):
            raise TranslateError(what + ': expected %r.format(...)' % prefix)
        return copy.deepcopy(c.args[0])
    sig_arg = fmt_arg0(tr[0].body[0], 'signal {0}')
    for h in tr[0].handlers:
        if len(h.body) != 1 or not isinstance(h.body[0], ast.Return) or \
                _dump(fmt_arg0(h.body[0], 'signal {0}')) != _dump(sig_arg):
            raise TranslateError(what + ': KeyError fallback prints a different number')
    exit_arg = fmt_arg0(fn.body[1], 'exitcode {0}')
    f1 = _mkfunc('human_is_signal', ['status'], [ast.Return(value=ast.Call(
        func=ast.Name(id='bool', ctx=ast.Load()), args=[test], keywords=[]))])
    f2 = _mkfunc('human_signum', ['status'], [ast.Return(value=sig_arg)])
    f3 = _mkfunc('human_exitnum', ['status'], [ast.Return(value=exit_arg)])
    return f1, f2, f3


PRELUDE = '''From BV Require Import Lib.ExitStatusWait.
(* self.poll(flag) inside wait(): the waitpid retry loop has one of two outcomes,
   depending on the flag -- given as oracle parameters (w_err_*: OSError other
   than EINTR; otherwise the pair (pid, sts)).  Defined after poll_ans below. *)'''

# self.poll(flag) as called from wait(): dispatch on the flag to the oracle answer
POLL_CALL = ('(fun s a => match a with '
             '| [f] => bindv (py_eq f (PInt 1)) s (fun nb => '
             'if truth nb then (if truth w_err_n then Ok PNone s else poll_ans s w_pid_n w_sts_n) '
             'else (if truth w_err_b then Ok PNone s else poll_ans s w_pid_b w_sts_b)) '
             '| _ => Exc TypeError s end)')

SPEC = dict(
    name='K_exitstatus',
    file='synthetic_exitstatus.py',
    state=['self.pid', 'self.returncode'],
    prelude=PRELUDE,
    exprs={
        'os.WIFSIGNALED(sts)': 'os_WIFSIGNALED v_sts',
        'os.WIFEXITED(sts)': 'os_WIFEXITED v_sts',
        'os.WTERMSIG(sts)': 'os_WTERMSIG v_sts',
        'os.WEXITSTATUS(sts)': 'os_WEXITSTATUS v_sts',
        'os.WNOHANG': 'PInt 1',
    },
    funcs=[
        dict(qual='poll_ans', coqname='poll_ans', params=['pid', 'sts']),
        dict(qual='wait', coqname='wait', params=['timeout'],
             exprs={'wait([self.sentinel], timeout)': 'ready',
                    'timeout == 0.0': 'py_eq v_timeout (PInt 0)'},
             calls={'self.poll': POLL_CALL},
             extra_params=['ready', 'w_err_n', 'w_pid_n', 'w_sts_n', 'w_err_b', 'w_pid_b', 'w_sts_b']),
        dict(qual='fs_poll', coqname='fs_poll', params=['flag'],
             exprs={'wait([self.sentinel], timeout)':
                    'py_ifexp (py_is_none v_timeout) ready_block ready_now',
                    'forkserver.read_unsigned(self.sentinel)': 'rd_val',
                    'rd_ok': 'rd_ok'},
             extra_params=['ready_block', 'ready_now', 'rd_ok', 'rd_val']),
        dict(qual='sysexit_code', coqname='sysexit_code', params=[],
             # exc.args is seen through its length (truthiness) and its first element
             exprs={'exc.args': 'nargs',
                    'isinstance(exc.args[0], int)': 'a0_is_int',
                    'isinstance(exc.args[0], str)': 'a0_is_str',
                    'exc.args[0]': 'a0'},
             extra_params=['nargs', 'a0_is_int', 'a0_is_str', 'a0']),
        dict(qual='return_code', coqname='return_code', params=[]),
        dict(qual='raise_code', coqname='raise_code', params=[]),
        dict(qual='human_is_signal', coqname='human_is_signal', params=['status']),
        dict(qual='human_signum', coqname='human_signum', params=['status']),
        dict(qual='human_exitnum', coqname='human_exitnum', params=['status']),
    ],
)


def synthetic_module(repo):
    poll_ans, wait_fn = fork_poll_and_wait(repo)
    fs = forkserver_poll(repo)
    sysexit, return_fn, raise_fn = bootstrap_codes(repo)
    exit_mechanics(repo)
    children_set_shapes(repo)
    h1, h2, h3 = human_status_parts(repo)
    mod = ast.Module(body=[poll_ans, wait_fn, fs, sysexit, return_fn, raise_fn, h1, h2, h3],
                     type_ignores=[])
    ast.fix_missing_locations(mod)
    return ast.unparse(mod)


def gen_exitstatus(repo):
    src = synthetic_module(repo)
    with tempfile.TemporaryDirectory(prefix='c19gen') as tmp:
        with open(os.path.join(tmp, SPEC['file']), 'w') as fh:
            fh.write(src + '\n')
        text = pykernel.Kernel(SPEC, tmp).generate()
    head = ('(* GENERATED by translate/kernels/exitstatus.py from billiard/popen_fork.py,\n'
            '   popen_forkserver.py, process.py, common.py (shape checks also on spawn.py,\n'
            '   forkserver.py) -- do not edit.  Synthetic source handed to pykernel:\n\n'
            + src.replace('*)', '* )') + '\n*)\n')
    return head + text


EXTRA_GENERATORS = {'K_exitstatus': gen_exitstatus}
