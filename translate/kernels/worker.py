"""K10: decision kernels of pool.Worker.workloop / _ensure_messages_consumed (C03).

workloop is a loop with try/except/finally around oracle calls, which pykernel does not
translate as a whole.  This bespoke, fail-closed generator

 1. cuts the *decisions* out of the function (loop guard, exit-status selection, memory
    test, SYN answer decoding, message-type assertion, the `x or default` preludes, the
    consumed-counter comparison) and translates each with pykernel.FuncTr into
    coq/Gen/K_worker.v, together with the module constants they use;
 2. replaces them by placeholders and compares the remaining *skeleton* of
    workloop / _ensure_messages_consumed / the protected receive (via ast.unparse, so
    comments and layout do not matter) with the text the hand-written model
    Model/Worker.v was written against.  Any other text => TranslateError naming the
    first differing line (the check then reports a broken translator obligation and
    runs the failing-input search).

Logging calls (debug/error/warning/info) are dropped from kernels.
"""
import ast
import difflib
import os

import pykernel
from pykernel import TranslateError

FILE = 'billiard/pool.py'
LOGGERS = ('debug', 'error', 'warning', 'info')

# ---- the skeleton the model was written against (ast.unparse layout) -----------------
EXPECTED_WORKLOOP = '''\
def workloop(self, debug=debug, now=monotonic, pid=None):
    pid = __K_pid_default__
    put = self.outq.put
    inqW_fd = self.inqW_fd
    synqW_fd = self.synqW_fd
    maxtasks = self.maxtasks
    max_memory_per_child = __K_maxmem_default__
    prepare_result = self.prepare_result
    wait_for_job = self.wait_for_job
    _wait_for_syn = self.wait_for_syn

    def wait_for_syn(jid):
        i = 0
        while 1:
            if i > 60:
                error('!!!WAIT FOR ACK TIMEOUT: job:%r fd:%r!!!', jid, self.synq._reader.fileno(), exc_info=1)
            req = _wait_for_syn()
            if req:
                type_, args = req
                __K_syn_decide__
            i += 1
    completed = 0
    try:
        while __K_loop_guard__:
            req = wait_for_job()
            if req:
                type_, args_ = req
                __K_task_check__
                job, i, fun, args, kwargs = args_
                put((ACK, (job, i, now(), pid, synqW_fd)))
                if _wait_for_syn:
                    confirm = wait_for_syn(job)
                    if not confirm:
                        continue
                try:
                    result = (True, prepare_result(fun(*args, **kwargs)))
                except BaseException:
                    if _should_have_exited[0]:
                        raise
                    result = (False, ExceptionInfo())
                try:
                    put((READY, (job, i, result, inqW_fd)))
                except Exception as exc:
                    _, _, tb = sys.exc_info()
                    try:
                        wrapped = MaybeEncodingError(exc, result[1])
                        einfo = ExceptionInfo((MaybeEncodingError, wrapped, tb))
                        put((READY, (job, i, (False, einfo), inqW_fd)))
                    finally:
                        del tb
                completed += 1
                __K_mem_check__
        debug('worker exiting after %d tasks', completed)
        __K_exit_status__
    finally:
        self._ensure_messages_consumed(completed=completed)'''

EXPECTED_ENSURE = '''\
def _ensure_messages_consumed(self, completed):
    if not self.on_ready_counter:
        return False
    for retry in range(GUARANTEE_MESSAGE_CONSUMPTION_RETRY_LIMIT):
        if __K_ensure_test__:
            debug('ensured messages consumed after %d retries', retry)
            return True
        time.sleep(GUARANTEE_MESSAGE_CONSUMPTION_RETRY_INTERVAL)
    warning('could not ensure all messages were consumed prior to exiting')
    return False'''

EXPECTED_RECEIVE = '''\
def _make_protected_receive(self, conn):
    _receive = self._make_recv_method(conn)
    should_shutdown = self._shutdown.is_set if self._shutdown else None

    def receive(debug=debug):
        if should_shutdown and should_shutdown():
            debug('worker got sentinel -- exiting')
            raise SystemExit(EX_OK)
        try:
            ready, req = _receive(1.0)
            if not ready:
                return None
        except (EOFError, IOError) as exc:
            if get_errno(exc) == errno.EINTR:
                return None
            debug('worker got %s -- exiting', type(exc).__name__)
            raise SystemExit(EX_FAILURE)
        if req is None:
            debug('worker got sentinel -- exiting')
            raise SystemExit(EX_FAILURE)
        return req
    return receive'''

EXPECTED_CHILD_METHODS = '''\
def _make_child_methods(self, loads=pickle_loads):
    self.wait_for_job = self._make_protected_receive(self.inq)
    self.wait_for_syn = self._make_protected_receive(self.synq) if self.synq else None'''

EXPECTED_CALL = '''\
def __call__(self):
    _exit = sys.exit
    _exitcode = [None]

    def exit(status=None):
        _exitcode[0] = status
        return _exit(status)
    sys.exit = exit
    pid = os.getpid()
    self._make_child_methods()
    self.after_fork()
    self.on_loop_start(pid=pid)
    try:
        sys.exit(self.workloop(pid=pid))
    except Exception as exc:
        error('Pool process %r error: %r', self, exc, exc_info=1)
        self._do_exit(pid, _exitcode[0], exc)
    finally:
        self._do_exit(pid, _exitcode[0], None)'''

EXPECTED_DO_EXIT = '''\
def _do_exit(self, pid, exitcode, exc=None):
    __K_do_exit_code__
    if self.on_exit is not None:
        self.on_exit(pid, exitcode)
    if sys.platform != 'win32':
        try:
            self._put_death(pid, exitcode)
            time.sleep(1)
        finally:
            os._exit(exitcode)
    else:
        os._exit(exitcode)'''

# the exit announcement: same message as before, but the queue's write lock is taken with a
# bound (an exiting worker must never wait forever for a lock that was lost; C08)
EXPECTED_PUT_DEATH = '''\
def _put_death(self, pid, exitcode, timeout=1.0):
    outq = self.outq
    wlock = getattr(outq, '_wlock', None)
    if wlock is None:
        return outq.put((DEATH, (pid, exitcode)))
    sigmask = getattr(signal, 'pthread_sigmask', None)
    blocked = None
    if sigmask is not None:
        blocked = sigmask(signal.SIG_BLOCK, [TERM_SIGNAL])
    try:
        if wlock.acquire(True, timeout):
            try:
                outq._writer.send_bytes(ForkingPickler.dumps((DEATH, (pid, exitcode))))
            finally:
                wlock.release()
    finally:
        if blocked is not None:
            sigmask(signal.SIG_SETMASK, blocked)'''

CONSTS = ['ACK', 'READY', 'TASK', 'NACK', 'DEATH', 'EX_OK', 'EX_FAILURE', 'EX_RECYCLE',
          'GUARANTEE_MESSAGE_CONSUMPTION_RETRY_LIMIT']


def fail(msg):
    raise TranslateError('%s: K_worker: %s' % (FILE, msg))


def placeholder_stmt(name):
    return ast.Expr(value=ast.Name(id='__K_%s__' % name, ctx=ast.Load()))


def placeholder_expr(name):
    return ast.Name(id='__K_%s__' % name, ctx=ast.Load())


def strip_doc(fn):
    if fn.body and isinstance(fn.body[0], ast.Expr) and isinstance(fn.body[0].value, ast.Constant) \
            and isinstance(fn.body[0].value.value, str):
        fn.body = fn.body[1:]


def is_log(st):
    return isinstance(st, ast.Expr) and isinstance(st.value, ast.Call) \
        and isinstance(st.value.func, ast.Name) and st.value.func.id in LOGGERS


def strip_logs(stmts):
    """remove logging statements (recursively through if/else); empty bodies become `pass`"""
    out = []
    for st in stmts:
        if is_log(st):
            continue
        if isinstance(st, ast.If):
            st = ast.If(test=st.test, body=strip_logs(st.body) or [ast.Pass()],
                        orelse=strip_logs(st.orelse))
        out.append(st)
    return out


def synth(name, params, body):
    fn = ast.parse('def %s(%s):\n    pass\n' % (name, ', '.join(params))).body[0]
    fn.body = body
    ast.fix_missing_locations(fn)
    return fn


def compare_skeleton(what, fn, expected):
    got = ast.unparse(ast.fix_missing_locations(fn))
    if got != expected:
        g, e = got.split('\n'), expected.split('\n')
        diff = [ln for ln in difflib.unified_diff(e, g, 'model-was-written-against', 'repo', lineterm='', n=0)
                if not ln.startswith(('---', '+++', '@@'))]
        fail('%s no longer has the shape the model was written against: %s' % (
            what, ' | '.join(d.strip() for d in diff[:6])))


def expect(cond, msg):
    if not cond:
        fail(msg)


def ex_ok_value(tree):
    """EX_OK is assigned twice; the last assignment is getattr(os, 'EX_OK', 0)"""
    last = None
    for st in tree.body:
        if isinstance(st, ast.Assign) and len(st.targets) == 1 and isinstance(st.targets[0], ast.Name) \
                and st.targets[0].id == 'EX_OK':
            last = st.value
    expect(last is not None, 'module constant EX_OK not found')
    if isinstance(last, ast.Constant) and isinstance(last.value, int):
        return last.value
    expect(ast.unparse(last) == "getattr(os, 'EX_OK', 0)", 'EX_OK = %s: unsupported' % ast.unparse(last))
    return getattr(os, 'EX_OK', 0)


def generate(repo):
    path = os.path.join(repo, FILE)
    with open(path) as fh:
        tree = ast.parse(fh.read())
    consts = pykernel.module_consts(tree)
    consts['EX_OK'] = ex_ok_value(tree)
    for c in CONSTS:
        expect(c in consts and isinstance(consts[c], int), 'module constant %s not an int literal' % c)

    kernels = []      # (coqname, params, body stmts, exprs, extra_params)

    # ------------------------------------------------------------------ workloop
    wl = pykernel.find_func(tree, 'Worker.workloop')
    strip_doc(wl)
    try:
        b = wl.body
        # pid = pid or os.getpid()
        expect(isinstance(b[0], ast.Assign) and ast.unparse(b[0].targets[0]) == 'pid', 'prelude: pid')
        kernels.append(('pid_default', ['pid'], [ast.Return(value=b[0].value)],
                        {'os.getpid()': 'ospid'}, ['ospid']))
        b[0].value = placeholder_expr('pid_default')
        expect(isinstance(b[5], ast.Assign) and ast.unparse(b[5].targets[0]) == 'max_memory_per_child',
               'prelude: max_memory_per_child')
        kernels.append(('maxmem_default', [], [ast.Return(value=b[5].value)],
                        {'self.max_memory_per_child': 'v_mm'}, ['v_mm']))
        b[5].value = placeholder_expr('maxmem_default')
        # nested wait_for_syn: decision after `type_, args = req`
        wfs = b[9]
        expect(isinstance(wfs, ast.FunctionDef) and wfs.name == 'wait_for_syn', 'nested wait_for_syn')
        wh = wfs.body[1]
        expect(isinstance(wh, ast.While), 'wait_for_syn: while')
        ifreq = wh.body[2]
        expect(isinstance(ifreq, ast.If) and ast.unparse(ifreq.test) == 'req', 'wait_for_syn: if req')
        kernels.append(('syn_decide', ['type_'], strip_logs(ifreq.body[1:]), {}, []))
        ifreq.body = [ifreq.body[0], placeholder_stmt('syn_decide')]
        # the try block
        tr = b[11]
        expect(isinstance(tr, ast.Try), 'try/finally')
        loop = tr.body[0]
        expect(isinstance(loop, ast.While) and not loop.orelse, 'main while loop')
        kernels.append(('loop_guard', ['maxtasks', 'completed'], [ast.Return(value=loop.test)], {}, []))
        loop.test = placeholder_expr('loop_guard')
        ifreq2 = loop.body[1]
        expect(isinstance(ifreq2, ast.If) and ast.unparse(ifreq2.test) == 'req' and not ifreq2.orelse,
               'main loop: if req')
        ib = ifreq2.body
        expect(isinstance(ib[1], ast.Assert), 'assert type_ == TASK')
        kernels.append(('task_check', ['type_'], [ib[1]], {}, []))
        ib[1] = placeholder_stmt('task_check')
        memif = ib[-1]
        expect(isinstance(memif, ast.If) and 'max_memory_per_child' in ast.unparse(memif.test),
               'memory test')
        first = memif.body[0]
        expect(isinstance(first, ast.Assign) and ast.unparse(first) == 'used_kb = mem_rss()',
               'memory test: used_kb = mem_rss()')
        mem_body = [ast.If(test=memif.test, body=strip_logs(memif.body[1:]) or [ast.Pass()],
                           orelse=strip_logs(memif.orelse))]
        kernels.append(('mem_check', ['max_memory_per_child', 'used_kb'], mem_body, {}, []))
        ib[-1] = placeholder_stmt('mem_check')
        # after the loop: [debug(...), if maxtasks: return ..., return EX_OK]
        post = tr.body[1:]
        expect(len(post) >= 2 and is_log(post[0]), 'statements after the loop')
        kernels.append(('exit_status', ['maxtasks', 'completed'], strip_logs(post[1:]), {}, []))
        tr.body = [tr.body[0], post[0], placeholder_stmt('exit_status')]
    except (IndexError, AttributeError) as exc:
        fail('workloop structure: %s' % exc)
    compare_skeleton('Worker.workloop', wl, EXPECTED_WORKLOOP)

    # --------------------------------------------------- _ensure_messages_consumed
    en = pykernel.find_func(tree, 'Worker._ensure_messages_consumed')
    strip_doc(en)
    try:
        loop = en.body[1]
        expect(isinstance(loop, ast.For), '_ensure_messages_consumed: for loop')
        test_if = loop.body[0]
        expect(isinstance(test_if, ast.If), '_ensure_messages_consumed: if')
        kernels.append(('ensure_test', ['completed'], [ast.Return(value=test_if.test)],
                        {'self.on_ready_counter.value': 'v_value'}, ['v_value']))
        test_if.test = placeholder_expr('ensure_test')
    except (IndexError, AttributeError) as exc:
        fail('_ensure_messages_consumed structure: %s' % exc)
    compare_skeleton('Worker._ensure_messages_consumed', en, EXPECTED_ENSURE)

    # ------------------------------------------ protected receive (no kernel inside)
    rc = pykernel.find_func(tree, 'Worker._make_protected_receive')
    strip_doc(rc)
    compare_skeleton('Worker._make_protected_receive', rc, EXPECTED_RECEIVE)
    cm = pykernel.find_func(tree, 'Worker._make_child_methods')
    strip_doc(cm)
    compare_skeleton('Worker._make_child_methods', cm, EXPECTED_CHILD_METHODS)

    # ------------------------------------------------------- __call__ / _do_exit
    ca = pykernel.find_func(tree, 'Worker.__call__')
    strip_doc(ca)
    compare_skeleton('Worker.__call__', ca, EXPECTED_CALL)
    de = pykernel.find_func(tree, 'Worker._do_exit')
    strip_doc(de)
    try:
        first = de.body[0]
        expect(isinstance(first, ast.If) and ast.unparse(first.test) == 'exitcode is None',
               '_do_exit: if exitcode is None')
        kernels.append(('do_exit_code', ['exitcode', 'exc'],
                        [first, ast.Return(value=ast.Name(id='exitcode', ctx=ast.Load()))], {}, []))
        de.body[0] = placeholder_stmt('do_exit_code')
    except (IndexError, AttributeError) as exc:
        fail('_do_exit structure: %s' % exc)
    compare_skeleton('Worker._do_exit', de, EXPECTED_DO_EXIT)
    pd = pykernel.find_func(tree, 'Worker._put_death')
    strip_doc(pd)
    compare_skeleton('Worker._put_death', pd, EXPECTED_PUT_DEATH)

    # ------------------------------------------------------------------- emit
    spec = dict(name='K_worker', file=FILE, state=[], funcs=[])
    k = pykernel.Kernel(spec, repo)
    defs = []
    for name, params, body, exprs, extra in kernels:
        fs = dict(qual='Worker.workloop#' + name, coqname=name, params=params, exprs=exprs,
                  extra_params=extra)
        defs.append(pykernel.FuncTr(k, fs, synth(name, params, body), consts).translate())
    for c in CONSTS:
        k.used_consts.add(c)
    out = ['(* GENERATED by translate/kernels/worker.py from %s -- do not edit *)' % FILE,
           'From Coq Require Import ZArith List Bool.',
           'From BV Require Import Lib.PyVal.',
           'Import ListNotations.', 'Open Scope Z_scope.', '']
    for c in sorted(k.used_consts):
        v = consts[c]
        if v is None:
            t = 'PNone'
        elif isinstance(v, bool):
            t = 'PBool %s' % ('true' if v else 'false')
        else:
            t = 'PInt %s' % pykernel.zlit(v)
        out.append('Definition c_%s : pv := %s.' % (c, t))
    out += ['', 'Definition st := unit.', '']
    out.extend(defs)
    return '\n'.join(out) + '\n'


KERNELS = []
EXTRA_GENERATORS = {'K_worker': generate}
