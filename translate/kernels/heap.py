"""K7: heap.Heap._roundup (pykernel) and, by a bespoke fail-closed generator (G_heap), the
arithmetic that heap.py applies around it: the size normalisation, the assert, the split
point and split test of `malloc`, the arena length and the doubling in `_malloc`, the
class constant `_alignment`, which bisect function `_malloc` searches with, and the locking
discipline of `free`: which kind of lock `__init__` creates (re-entrant or not) and that
`free` takes it with a non-blocking acquire whose failure branch only appends to the
pending list."""
import ast
import os

import pykernel
from pykernel import TranslateError

K_heap = dict(
    name='K_heap',
    file='billiard/heap.py',
    funcs=[dict(qual='Heap._roundup', coqname='roundup', params=['n', 'alignment'])],
)

KERNELS = [K_heap]


class _K:
    """the little of pykernel.Kernel that FuncTr needs"""
    def __init__(self):
        self.spec = dict(file='billiard/heap.py')
        self.state = []
        self.used_consts = set()


class ExprTr(pykernel.FuncTr):
    """pykernel's expression translator plus calls of self._roundup(a, b)"""
    def expr(self, e):
        if isinstance(e, ast.Call) and ast.unparse(e.func) == 'self._roundup' \
                and len(e.args) == 2 and not e.keywords:
            return '(roundup_val %s %s)' % (self.expr(e.args[0]), self.expr(e.args[1]))
        return pykernel.FuncTr.expr(self, e)


def _walk_no_nested(fn):
    """all statements of a function body, descending into compound statements but not
    into nested defs"""
    out = []
    stack = list(fn.body)
    while stack:
        st = stack.pop(0)
        out.append(st)
        if isinstance(st, (ast.FunctionDef, ast.ClassDef)):
            continue
        for fld in ('body', 'orelse', 'finalbody'):
            stack = list(getattr(st, fld, []) or []) + stack
    return out


def _one(stmts, pred, what):
    hits = [s for s in stmts if pred(s)]
    if len(hits) != 1:
        raise TranslateError('billiard/heap.py: expected exactly one %s, found %d' % (what, len(hits)))
    return hits[0]


def gen_heap(repo):
    src = open(os.path.join(repo, 'billiard/heap.py')).read()
    tree = ast.parse(src)
    cls = _one(tree.body, lambda s: isinstance(s, ast.ClassDef) and s.name == 'Heap', 'class Heap')
    al = _one(cls.body, lambda s: isinstance(s, ast.Assign) and len(s.targets) == 1
              and isinstance(s.targets[0], ast.Name) and s.targets[0].id == '_alignment',
              'Heap._alignment assignment')
    if not (isinstance(al.value, ast.Constant) and isinstance(al.value.value, int)
            and not isinstance(al.value.value, bool)):
        raise TranslateError('Heap._alignment is not an integer literal')
    alignment = al.value.value

    exprs = {'self._alignment': 'c__alignment', 'mmap.PAGESIZE': 'pagesize',
             'self._size': 'self_size', 'sys.maxsize': 'c_maxsize'}

    def tr(fn, locals_):
        t = ExprTr(_K(), dict(qual='Heap.' + fn.name, exprs=exprs), fn, {})
        t.locals = set(locals_)
        return t

    def is_assign_to(name):
        return lambda s: (isinstance(s, ast.Assign) and len(s.targets) == 1
                          and isinstance(s.targets[0], ast.Name) and s.targets[0].id == name)

    # ---- malloc
    m = pykernel.find_func(tree, 'Heap.malloc')
    if [a.arg for a in m.args.args] != ['self', 'size']:
        raise TranslateError('Heap.malloc signature changed')
    ms = _walk_no_nested(m)
    t = tr(m, ['size', 'start', 'stop', 'new_stop'])
    size_as = _one(ms, is_assign_to('size'), 'assignment to `size` in Heap.malloc')
    malloc_size = t.expr(size_as.value)
    asr = _one(ms, lambda s: isinstance(s, ast.Assert), 'assert in Heap.malloc')
    malloc_assert = t.expr(asr.test)
    ns = _one(ms, is_assign_to('new_stop'), 'assignment to `new_stop` in Heap.malloc')
    new_stop = t.expr(ns.value)
    split = _one(ms, lambda s: isinstance(s, ast.If) and 'new_stop' in ast.unparse(s.test),
                 '`if` on new_stop in Heap.malloc')
    split_test = t.expr(split.test)
    if split.orelse or len(split.body) != 1 or \
            ast.unparse(split.body[0]) != 'self._free((arena, new_stop, stop))':
        raise TranslateError('Heap.malloc: the split branch is no longer '
                             '`self._free((arena, new_stop, stop))`')
    # order inside malloc: pending frees are applied before the search
    order = [ast.unparse(s) for s in ms if isinstance(s, (ast.Expr, ast.Assign))]
    try:
        i_drain = order.index('self._free_pending_blocks()')
        i_search = next(i for i, s in enumerate(order) if 'self._malloc(size)' in s)
        i_size = order.index(ast.unparse(size_as))
    except (ValueError, StopIteration):
        raise TranslateError('Heap.malloc: _free_pending_blocks()/_malloc(size) calls not found')
    if not (i_drain < i_search and i_size < i_search):
        raise TranslateError('Heap.malloc: statement order changed')

    # ---- _malloc
    f = pykernel.find_func(tree, 'Heap._malloc')
    if [a.arg for a in f.args.args] != ['self', 'size']:
        raise TranslateError('Heap._malloc signature changed')
    fs = _walk_no_nested(f)
    t2 = tr(f, ['size'])
    # `length` is assigned twice (new arena / found block): take the one calling _roundup
    la = _one(fs, lambda s: is_assign_to('length')(s) and '_roundup' in ast.unparse(s.value),
              'arena length computation in Heap._malloc')
    arena_length = t2.expr(la.value)
    aug = _one(fs, lambda s: isinstance(s, ast.AugAssign) and ast.unparse(s.target) == 'self._size',
               'update of self._size in Heap._malloc')
    op = pykernel.BINOPS.get(type(aug.op))
    if not op:
        raise TranslateError('Heap._malloc: unsupported operator on self._size')
    next_size = '(%s %s %s)' % (op, t2.expr(aug.target), t2.expr(aug.value))
    ia = _one(fs, is_assign_to('i'), 'assignment to `i` in Heap._malloc')
    search = ast.unparse(ia.value)
    known = {'bisect.bisect_left(self._lengths, size)': 'true',
             'bisect.bisect_right(self._lengths, size)': 'false',
             'bisect.bisect(self._lengths, size)': 'false'}
    if search not in known:
        raise TranslateError('Heap._malloc: free-list search is `%s`' % search)
    first_if = _one(list(f.body), lambda s: isinstance(s, ast.If), 'top-level `if` in Heap._malloc')
    if ast.unparse(first_if.test) != 'i == len(self._lengths)':
        raise TranslateError('Heap._malloc: new-arena test is `%s`' % ast.unparse(first_if.test))

    # ---- the lock: its kind, and how free() takes it
    ini = pykernel.find_func(tree, 'Heap.__init__')
    lk = _one(_walk_no_nested(ini), lambda s: isinstance(s, ast.Assign) and len(s.targets) == 1
              and ast.unparse(s.targets[0]) == 'self._lock', 'assignment to self._lock in Heap.__init__')
    lock_src = ast.unparse(lk.value)
    lock_kinds = {'threading.Lock()': 'false', 'threading.RLock()': 'true'}
    if lock_src not in lock_kinds:
        raise TranslateError('Heap.__init__: self._lock is `%s`' % lock_src)
    others = [ast.unparse(s) for fn in cls.body if isinstance(fn, ast.FunctionDef) and fn.name != '__init__'
              for s in _walk_no_nested(fn)
              if isinstance(s, (ast.Assign, ast.AugAssign, ast.AnnAssign)) and 'self._lock' in
              [ast.unparse(t) for t in (s.targets if isinstance(s, ast.Assign) else [s.target])]]
    if others:
        raise TranslateError('Heap: self._lock is reassigned outside __init__: %s' % others[0])
    fr = pykernel.find_func(tree, 'Heap.free')
    if [a.arg for a in fr.args.args] != ['self', 'block']:
        raise TranslateError('Heap.free signature changed')
    acq = _one(list(fr.body), lambda s: isinstance(s, ast.If) and '_lock' in ast.unparse(s.test),
               'top-level `if` on self._lock in Heap.free')
    acq_src = ast.unparse(acq.test)
    trylocks = {'not self._lock.acquire(False)': 'true', 'not self._lock.acquire(blocking=False)': 'true',
                'not self._lock.acquire(0)': 'true',
                'not self._lock.acquire()': 'false', 'not self._lock.acquire(True)': 'false',
                'not self._lock.acquire(blocking=True)': 'false', 'not self._lock.acquire(1)': 'false'}
    if acq_src not in trylocks:
        raise TranslateError('Heap.free: the lock is taken with `%s`' % acq_src)
    if [ast.unparse(x) for x in acq.body] != ['self._pending_free_blocks.append(block)']:
        raise TranslateError('Heap.free: the lock-taken branch is no longer '
                             '`self._pending_free_blocks.append(block)`')

    # ---- which statements of malloc / free run under `self._lock` (the critical sections of the
    #      interleaving model, Model/HeapConc.v); every statement must be a known one
    def classify(fn, st):
        src = ast.unparse(st)
        table = {
            'self._free_pending_blocks()': 'drain',
            ast.unparse(size_as): 'size',
            'arena, start, stop = self._malloc(size)': 'search',
            ast.unparse(ns): 'new_stop',
            'block = (arena, start, new_stop)': 'block',
            'self._allocated_blocks.add(block)': 'add',
            'return block': 'return',
            'self._allocated_blocks.remove(block)': 'remove',
            'self._free(block)': 'free',
            'self._pending_free_blocks.append(block)': 'append',
            'self._lock.release()': 'release',
            'assert os.getpid() == self._lastpid': 'assertpid',
        }
        if st is asr:
            return 'assert'
        if st is split:
            return 'split'
        if st is acq:
            return 'trylock'
        if isinstance(st, ast.If) and ast.unparse(st.test) == 'os.getpid() != self._lastpid' \
                and [ast.unparse(x) for x in st.body] == ['self.__init__()'] and not st.orelse:
            return 'pidcheck'
        if src in table:
            return table[src]
        raise TranslateError('Heap.%s: unexpected statement `%s`' % (fn, src.splitlines()[0]))

    m_out, m_in = [], []
    withs = [s for s in m.body if isinstance(s, ast.With)]
    if len(withs) != 1 or m.body[-1] is not withs[0]:
        raise TranslateError('Heap.malloc: expected exactly one `with` statement, as the last statement')
    w = withs[0]
    if len(w.items) != 1 or ast.unparse(w.items[0].context_expr) != 'self._lock' or w.items[0].optional_vars:
        raise TranslateError('Heap.malloc: the `with` statement is no longer `with self._lock:`')
    for st in m.body[:-1]:
        if isinstance(st, ast.Expr) and isinstance(st.value, ast.Constant):
            continue        # docstring
        m_out.append(classify('malloc', st))
    for st in w.body:
        m_in.append(classify('malloc', st))
    f_out, f_fail, f_in, f_fin = [], [], [], []
    fbody = [st for st in fr.body if not (isinstance(st, ast.Expr) and isinstance(st.value, ast.Constant))]
    if not fbody or fbody[-1] is not acq:
        raise TranslateError('Heap.free: the try-lock `if` is not the last statement')
    for st in fbody:
        f_out.append(classify('free', st))
    f_fail = [classify('free', st) for st in acq.body]
    if len(acq.orelse) != 1 or not isinstance(acq.orelse[0], ast.Try):
        raise TranslateError('Heap.free: the lock-acquired branch is not a single try/finally')
    tr_ = acq.orelse[0]
    if tr_.handlers or tr_.orelse:
        raise TranslateError('Heap.free: the try statement has handlers / else')
    f_in = [classify('free', st) for st in tr_.body]
    f_fin = [classify('free', st) for st in tr_.finalbody]
    dr = pykernel.find_func(tree, 'Heap._free_pending_blocks')
    drain_src = '\n'.join(ast.unparse(st) for st in dr.body
                          if not (isinstance(st, ast.Expr) and isinstance(st.value, ast.Constant)))
    drain_want = ('while 1:\n    try:\n        block = self._pending_free_blocks.pop()\n'
                  '    except IndexError:\n        break\n'
                  '    self._allocated_blocks.remove(block)\n    self._free(block)')
    if drain_src != drain_want:
        raise TranslateError('Heap._free_pending_blocks is no longer the pop/remove/_free loop:\n' + drain_src)

    def cstrs(xs):
        return '[' + '; '.join('"%s"%%string' % x for x in xs) + ']'
    regions = '''
(* which statements of Heap.malloc / Heap.free are executed outside and inside `with self._lock` /
   after a successful try-lock (statement by statement, in source order) *)
Definition malloc_outside : list string := %s.
Definition malloc_locked : list string := %s.
Definition free_outside : list string := %s.
Definition free_lock_taken : list string := %s.
Definition free_locked : list string := %s.
Definition free_finally : list string := %s.
(* Heap._free_pending_blocks is `while 1: try: pop() except IndexError: break; remove; _free` *)
Definition drain_is_pop_loop : bool := true.
''' % tuple(cstrs(x) for x in (m_out, m_in, f_out, f_fail, f_in, f_fin))

    return '''(* GENERATED by translate/kernels/heap.py (G_heap) from billiard/heap.py -- do not edit *)
From Coq Require Import ZArith List Bool String.
From BV Require Import Lib.PyVal Gen.K_heap.
Import ListNotations.
Open Scope Z_scope.

Definition c__alignment : pv := PInt %(alignment)d.
Definition roundup_val (a b : pv) : pv :=
  match K_heap.roundup tt a b with Ok v _ => v | Exc e _ => PErr e end.

(* Heap.malloc: `%(src_assert)s` *)
Definition malloc_assert (v_size c_maxsize : pv) : pv := %(malloc_assert)s.
(* Heap.malloc: `%(src_size)s` *)
Definition malloc_size (v_size : pv) : pv := %(malloc_size)s.
(* Heap.malloc: `%(src_new_stop)s` *)
Definition malloc_new_stop (v_start v_size : pv) : pv := %(new_stop)s.
(* Heap.malloc: `if %(src_split)s: self._free((arena, new_stop, stop))` *)
Definition malloc_split (v_new_stop v_stop : pv) : pv := %(split_test)s.
(* Heap._malloc: `%(src_length)s` *)
Definition arena_length (self_size v_size pagesize : pv) : pv := %(arena_length)s.
(* Heap._malloc: `%(src_aug)s` *)
Definition next_size (self_size : pv) : pv := %(next_size)s.
(* Heap._malloc searches the sorted free lengths with bisect_left *)
Definition search_is_bisect_left : bool := %(bl)s.
(* Heap.__init__: `%(src_lock)s` -- can the thread that holds the lock acquire it again? *)
Definition lock_reentrant : bool := %(lock_re)s.
(* Heap.free: `if %(src_acq)s: self._pending_free_blocks.append(block)` -- non-blocking acquire? *)
Definition free_trylock : bool := %(trylock)s.
''' % dict(src_lock=ast.unparse(lk), lock_re=lock_kinds[lock_src], src_acq=acq_src, trylock=trylocks[acq_src],
           alignment=alignment, malloc_assert=malloc_assert, malloc_size=malloc_size,
           new_stop=new_stop, split_test=split_test, arena_length=arena_length,
           next_size=next_size, bl=known[search],
           src_assert=ast.unparse(asr), src_size=ast.unparse(size_as),
           src_new_stop=ast.unparse(ns), src_split=ast.unparse(split.test),
           src_length=ast.unparse(la), src_aug=ast.unparse(aug)) + regions


EXTRA_GENERATORS = {'G_heap': gen_heap}
