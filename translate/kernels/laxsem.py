"""K2: pool.LaxBoundedSemaphore"""

K_laxsem = dict(
    name='K_laxsem',
    file='billiard/pool.py',
    state=['self._value', 'self._initial_value'],
    atomic_with=['self._cond', 'cond'],
    prelude='''\
(* modelled stdlib: threading.Semaphore.acquire (blocking) / release, Condition.notify *)
Definition sem_acquire (s : st) (_ : list pv) : outcome st pv :=
  if_truth (py_gt (f_self__value s) (PInt 0)) s
    (bindv (py_sub (f_self__value s) (PInt 1)) s (fun v => Ok (PBool true) (set_self__value s v)))
    (Exc Blocked s).
Definition sem_release (s : st) (_ : list pv) : outcome st pv :=
  bindv (py_add (f_self__value s) (PInt 1)) s (fun v => Ok PNone (set_self__value s v)).
Definition noop (s : st) (_ : list pv) : outcome st pv := Ok PNone s.
''',
    calls={'self.acquire': 'sem_acquire', '_Semaphore.release': 'sem_release',
           'self._cond.notify': 'noop', 'cond.notify_all': 'noop'},
    funcs=[
        dict(qual='LaxBoundedSemaphore.shrink', coqname='shrink', params=[]),
        dict(qual='LaxBoundedSemaphore.grow', coqname='grow', params=[]),
        dict(qual='LaxBoundedSemaphore.release', coqname='release', params=[],
             # `cond = self._cond` is only used as the `with` subject
             exprs={'self._cond': 'PNone'}),
        dict(qual='LaxBoundedSemaphore.clear', coqname='clear', params=[],
             while_fuel='fuel_clear s', exprs={'self': 'PNone'}),
    ],
)
K_laxsem['prelude'] += '''\
Definition fuel_clear (s : st) : nat :=
  match f_self__initial_value s, f_self__value s with
  | PInt i, PInt v => Z.to_nat (i - v)
  | _, _ => O
  end.
'''

KERNELS = [K_laxsem]
