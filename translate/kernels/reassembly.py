"""K5/K6: reassembly kernels of billiard/pool.py for C02.

    chunksize_of  <- Pool._map_async          (chunk-size arithmetic; the rest of the body is pinned)
    mr_init       <- MapResult.__init__       (_number_left formula, the `chunksize <= 0` branch)
    mr_set        <- MapResult._set           (slice bounds, countdown, the three branches)
    mr_ack        <- MapResult._ack           (start/stop)
    IM.iset       <- IMapIterator._set        (reorder buffer: deque/dict operations are modelled calls,
    IM.iset_length<- IMapIterator._set_length  the `while self._index in self._unsorted` loop is translated with
    IM.uset       <- IMapUnorderedIterator._set  fuel = len(_unsorted))
    IM.init, IM.fresh_containers_per_instance, IM.class_level_mutable_attrs, IM.unordered_inherits_init
                  <- IMapIterator.__init__ and the class bodies of ApplyResult/MapResult/IMapIterator/
                     IMapUnorderedIterator: per-instance containers and initial scalars (structural facts)
    pins          <- Pool._get_tasks, mapstar, starmapstar, IMapIterator.next, ApplyResult.get, and the
                     task/flattening expressions of Pool.imap / imap_unordered: outside the translatable
                     subset (generators, try/except), so their *text* is pinned; any edit makes the kernel fail to generate (fail closed) and the
                     correspondence run of C02 then looks for a concrete failing input.

The functions are translated by pykernel.FuncTr (the shared, trusted expression/statement translator) after
a small number of source-to-source rewrites done here.  Every rewrite is fail-closed: it applies to one
exact syntactic shape and raises TranslateError on anything else.

    R1  a, b = divmod(x, y)                      ->  a, b = (x // y, x % y)
    R2  success, result = success_result         ->  dropped; the parameter is split into two
    R3  self._value[lo:hi] = result              ->  slice_assign(lo, hi, result)          (modelled call)
    R4  del cache[self._job]                     ->  cache_del(self._job)                  (modelled call)
    R5  for j in range(a, b): <three stores>     ->  mark_range(a, b)                      (modelled call)
    R6  *args in MapResult._ack's signature      ->  removed (must be unused)
    R7  statements listed in DROP (exact text)   ->  removed   (they do not touch the translated state)
    R9  obj = self._unsorted.pop(k); self._items.append(obj)   ->  unsorted_move(k)     (modelled call)
    R10 self._unsorted[i] = obj                  ->  unsorted_set(i, obj)                  (modelled call)
    R11 del self._cache[self._job]               ->  cache_del(self._job)                  (as R4)
    R8  the tail of _map_async (exact text: _get_tasks(func, iterable, chunksize); MapResult(self._cache,
        chunksize, len(iterable), ...); the task generator; return result)  ->  return chunksize

Lists are abstracted by their length (`[None] * length` -> max(0, length)): the generated kernel is the
control skeleton (arithmetic, branches, call order); the list contents are the hand-written model's,
with exactly the slice bounds the kernel computes (lemma gen_set_eq in Proofs/ReassemblyProofs.v).
"""
import ast
import os

import pykernel
from pykernel import TranslateError, FuncTr, Kernel, find_func, module_consts, fld, zlit

FILE = 'billiard/pool.py'

STATE = [
    'self._state',
    'self._success', 'self._length', 'self._value', 'self._accepted', 'self._worker_pid',
    'self._time_accepted', 'self._chunksize', 'self._number_left', 'self._callback',
    'self._error_callback', 'self._job',
    # ghosts written only by the modelled calls below
    'ghost.event', 'ghost.incache', 'ghost.cb_calls', 'ghost.ecb_calls',
    'ghost.slice_lo', 'ghost.slice_hi', 'ghost.slice_src', 'ghost.ack_lo', 'ghost.ack_hi',
]

PRELUDE = '''\
(* modelled calls: threading.Event.set, dict del/pop, the user callbacks, list slice
   assignment (bounds and source length recorded, the new length computed as CPython does;
   TypeError unless _value is a list, i.e. an int here),
   the marking loop of _ack (bounds recorded) *)
Definition event_set (s : st) (_ : list pv) : outcome st pv :=
  Ok PNone (set_ghost_event s (PBool true)).
Definition cache_del (s : st) (_ : list pv) : outcome st pv :=
  if truth (f_ghost_incache s) then Ok PNone (set_ghost_incache s (PBool false))
  else Exc KeyError s.
Definition cache_pop (s : st) (_ : list pv) : outcome st pv :=
  Ok PNone (set_ghost_incache s (PBool false)).
Definition call_cb (s : st) (_ : list pv) : outcome st pv :=
  bindv (py_add (f_ghost_cb_calls s) (PInt 1)) s (fun v => Ok PNone (set_ghost_cb_calls s v)).
Definition call_ecb (s : st) (_ : list pv) : outcome st pv :=
  bindv (py_add (f_ghost_ecb_calls s) (PInt 1)) s (fun v => Ok PNone (set_ghost_ecb_calls s v)).
Definition clamp (len x : Z) : Z := if x <? 0 then Z.max 0 (x + len) else Z.min x len.
Definition slice_assign (s : st) (a : list pv) : outcome st pv :=
  match f_self__value s, a with
  | PInt len, [PInt lo; PInt hi; PInt n] =>
      let a' := clamp len lo in
      let b' := Z.max a' (clamp len hi) in
      Ok PNone (set_self__value
                  (set_ghost_slice_src (set_ghost_slice_hi (set_ghost_slice_lo s (PInt lo)) (PInt hi))
                                       (PInt n))
                  (PInt (a' + n + (len - b'))))
  | _, _ => Exc TypeError s
  end.
Definition mark_range (s : st) (a : list pv) : outcome st pv :=
  match a with
  | [lo; hi] => Ok PNone (set_ghost_ack_hi (set_ghost_ack_lo s lo) hi)
  | _ => Exc TypeError s
  end.
'''

CALLS = {
    'self._event.set': 'event_set',
    'cache_del': 'cache_del',
    'self._cache.pop': 'cache_pop',
    'self._callback': 'call_cb',
    'self._error_callback': 'call_ecb',
    'slice_assign': 'slice_assign',
    'mark_range': 'mark_range',
}


def norm(src):
    """canonical text of a statement / expression / function"""
    return ast.unparse(ast.parse(src.strip()))


def expect(cond, where, msg):
    if not cond:
        raise TranslateError('%s: %s: %s' % (FILE, where, msg))


def strip_doc(body):
    if body and isinstance(body[0], ast.Expr) and isinstance(body[0].value, ast.Constant) \
            and isinstance(body[0].value.value, str):
        return body[1:]
    return body


# ------------------------------------------------------------------ rewrites
class Rewriter(ast.NodeTransformer):
    """R1 R3 R4 R5 (statement level, anywhere in the body)"""

    def __init__(self, where):
        self.where = where

    def visit_Assign(self, st):
        # R1
        if isinstance(st.value, ast.Call) and isinstance(st.value.func, ast.Name) \
                and st.value.func.id == 'divmod':
            expect(len(st.value.args) == 2 and not st.value.keywords, self.where, 'divmod shape')
            x, y = st.value.args
            new = ast.Assign(targets=st.targets, value=ast.Tuple(
                elts=[ast.BinOp(left=x, op=ast.FloorDiv(), right=y),
                      ast.BinOp(left=x, op=ast.Mod(), right=y)], ctx=ast.Load()), lineno=st.lineno)
            return ast.fix_missing_locations(new)
        # R3
        if len(st.targets) == 1 and isinstance(st.targets[0], ast.Subscript):
            tgt = st.targets[0]
            expect(ast.unparse(tgt.value) == 'self._value' and isinstance(tgt.slice, ast.Slice)
                   and tgt.slice.step is None and tgt.slice.lower is not None
                   and tgt.slice.upper is not None and isinstance(st.value, ast.Name),
                   self.where, 'unsupported subscript store `%s`' % ast.unparse(st))
            new = ast.Expr(value=ast.Call(func=ast.Name(id='slice_assign', ctx=ast.Load()),
                                          args=[tgt.slice.lower, tgt.slice.upper, st.value], keywords=[]),
                           lineno=st.lineno)
            return ast.fix_missing_locations(new)
        return st

    def visit_Delete(self, st):
        # R4
        expect(ast.unparse(st) == 'del cache[self._job]', self.where,
               'unsupported del `%s`' % ast.unparse(st))
        new = ast.Expr(value=ast.Call(func=ast.Name(id='cache_del', ctx=ast.Load()),
                                      args=[ast.parse('self._job', mode='eval').body], keywords=[]),
                       lineno=st.lineno)
        return ast.fix_missing_locations(new)

    def visit_For(self, st):
        # R5
        want_body = norm('self._accepted[j] = True\nself._worker_pid[j] = pid\n'
                         'self._time_accepted[j] = time_accepted')
        got_body = '\n'.join(ast.unparse(b) for b in st.body)
        expect(ast.unparse(st.target) == 'j' and not st.orelse and got_body == want_body
               and isinstance(st.iter, ast.Call) and ast.unparse(st.iter.func) == 'range'
               and len(st.iter.args) == 2 and not st.iter.keywords,
               self.where, 'unsupported for loop `%s`' % ast.unparse(st)[:80])
        new = ast.Expr(value=ast.Call(func=ast.Name(id='mark_range', ctx=ast.Load()),
                                      args=list(st.iter.args), keywords=[]), lineno=st.lineno)
        return ast.fix_missing_locations(new)


def drop_exact(body, texts, where):
    """R7: remove the statements whose canonical text is listed; each must occur exactly once"""
    want = [norm(t) for t in texts]
    out = []
    seen = []
    for st in body:
        t = ast.unparse(st)
        if t in want:
            seen.append(t)
        else:
            out.append(st)
    expect(sorted(seen) == sorted(want), where,
           'pinned statements changed; expected to find exactly: %r, found %r' % (want, seen))
    return out


def translate_fn(kernel, fn, fspec, consts, where):
    fn.body = [Rewriter(where).visit(st) for st in fn.body]
    ast.fix_missing_locations(fn)
    return FuncTr(kernel, fspec, fn, consts).translate()


# -------------------------------------------------------------- the functions
def gen_chunksize_of(kernel, tree, consts):
    where = 'Pool._map_async'
    fn = find_func(tree, where)
    body = strip_doc(fn.body)
    tail = [norm(t) for t in (
        'task_batches = Pool._get_tasks(func, iterable, chunksize)',
        'result = MapResult(self._cache, chunksize, len(iterable), callback, error_callback=error_callback)',
        'self._taskqueue.put((((TASK, (result._job, i, mapper, (x,), {})) for i, x in enumerate(task_batches)), None))',
        'return result')]
    got_tail = [ast.unparse(st) for st in body[-4:]]
    expect(got_tail == tail, where, 'R8: tail of the body changed: %r' % (got_tail,))
    body = body[:-4]
    body = drop_exact(body, ["if not hasattr(iterable, '__len__'):\n    iterable = list(iterable)"], where)
    body.append(ast.parse('return chunksize').body[0])
    fn.body = body
    fs = dict(qual=where, coqname='chunksize_of',
              params=['func', 'iterable', 'mapper', 'chunksize', 'callback', 'error_callback'],
              exprs={'len(iterable)': 'v_n', 'len(self._pool)': 'v_p'}, extra_params=['v_n', 'v_p'])
    return translate_fn(kernel, fn, fs, consts, where)


def gen_mr_init(kernel, tree, consts):
    where = 'MapResult.__init__'
    fn = find_func(tree, where)
    body = strip_doc(fn.body)
    body = drop_exact(body, ['ApplyResult.__init__(self, cache, callback, error_callback=error_callback)'], where)
    fn.body = body
    lst = '(py_max (PInt 0) v_length)'
    fs = dict(qual=where, coqname='mr_init',
              params=['cache', 'chunksize', 'length', 'callback', 'error_callback'],
              exprs={'[None] * length': lst, '[False] * length': lst})
    return translate_fn(kernel, fn, fs, consts, where)


def gen_mr_set(kernel, tree, consts):
    where = 'MapResult._set'
    fn = find_func(tree, where)
    body = strip_doc(fn.body)
    expect([a.arg for a in fn.args.args] == ['self', 'i', 'success_result'], where, 'signature changed')
    # R2
    expect(body and ast.unparse(body[0]) == norm('success, result = success_result'), where,
           'R2: first statement is not `success, result = success_result`')
    for node in ast.walk(ast.Module(body=body[1:], type_ignores=[])):
        expect(not (isinstance(node, ast.Name) and node.id == 'success_result'), where,
               'R2: success_result used after unpacking')
    fn.body = body[1:]
    fn.args.args = fn.args.args[:2] + [ast.arg(arg='success'), ast.arg(arg='result')]
    fs = dict(qual=where, coqname='mr_set', params=['i', 'success', 'result'])
    return translate_fn(kernel, fn, fs, consts, where)


def gen_mr_ack(kernel, tree, consts):
    where = 'MapResult._ack'
    fn = find_func(tree, where)
    # R6
    expect(fn.args.vararg is not None and fn.args.vararg.arg == 'args', where, 'R6: *args expected')
    for node in ast.walk(ast.Module(body=fn.body, type_ignores=[])):
        expect(not (isinstance(node, ast.Name) and node.id == 'args'), where, 'R6: *args is used')
    fn.args.vararg = None
    fn.body = strip_doc(fn.body)
    fs = dict(qual=where, coqname='mr_ack', params=['i', 'time_accepted', 'pid'],
              exprs={'self.ready()': '(f_ghost_event s)'})
    return translate_fn(kernel, fn, fs, consts, where)


# --------------------------------------------------- IMapIterator (module IM)
IM_STATE = ['self._index', 'self._length', 'self._ready', 'self._job']

IM_PRELUDE = '''\
Record st := mk_st { f_self__index : pv; f_self__length : pv; f_self__ready : pv; f_self__job : pv;
                     g_items : list pv;            (* _items (deque), objects are opaque tokens *)
                     g_unsorted : list (Z * pv);   (* _unsorted (dict) *)
                     g_incache : bool }.           (* self._job in self._cache *)
Definition set_self__index (s : st) (v : pv) : st :=
  mk_st v (f_self__length s) (f_self__ready s) (f_self__job s) (g_items s) (g_unsorted s) (g_incache s).
Definition set_self__length (s : st) (v : pv) : st :=
  mk_st (f_self__index s) v (f_self__ready s) (f_self__job s) (g_items s) (g_unsorted s) (g_incache s).
Definition set_self__ready (s : st) (v : pv) : st :=
  mk_st (f_self__index s) (f_self__length s) v (f_self__job s) (g_items s) (g_unsorted s) (g_incache s).
Definition set_self__job (s : st) (v : pv) : st :=
  mk_st (f_self__index s) (f_self__length s) (f_self__ready s) v (g_items s) (g_unsorted s) (g_incache s).

(* modelled containers: dict get / remove by key, deque append *)
Fixpoint dget (d : list (Z * pv)) (k : Z) : option pv :=
  match d with [] => None | (k', v) :: r => if k' =? k then Some v else dget r k end.
Fixpoint dremove (d : list (Z * pv)) (k : Z) : list (Z * pv) :=
  match d with
  | [] => []
  | (k', v) :: r => if k' =? k then dremove r k else (k', v) :: dremove r k
  end.
(* `self._index in self._unsorted` *)
Definition unsorted_has (s : st) : pv :=
  match f_self__index s with
  | PInt i => PBool (match dget (g_unsorted s) i with Some _ => true | None => false end)
  | PErr e => PErr e
  | _ => PBool false
  end.
Definition items_append (s : st) (a : list pv) : outcome st pv :=
  match a with
  | [x] => Ok PNone (mk_st (f_self__index s) (f_self__length s) (f_self__ready s) (f_self__job s)
                           (g_items s ++ [x]) (g_unsorted s) (g_incache s))
  | _ => Exc TypeError s
  end.
(* obj = self._unsorted.pop(k); self._items.append(obj) *)
Definition unsorted_move (s : st) (a : list pv) : outcome st pv :=
  match a with
  | [PInt k] =>
      match dget (g_unsorted s) k with
      | Some o => Ok PNone (mk_st (f_self__index s) (f_self__length s) (f_self__ready s) (f_self__job s)
                                  (g_items s ++ [o]) (dremove (g_unsorted s) k) (g_incache s))
      | None => Exc KeyError s
      end
  | _ => Exc TypeError s
  end.
(* self._unsorted[i] = obj *)
Definition unsorted_set (s : st) (a : list pv) : outcome st pv :=
  match a with
  | [PInt k; o] => Ok PNone (mk_st (f_self__index s) (f_self__length s) (f_self__ready s) (f_self__job s)
                                   (g_items s) ((k, o) :: dremove (g_unsorted s) k) (g_incache s))
  | _ => Exc TypeError s
  end.
Definition cache_del (s : st) (_ : list pv) : outcome st pv :=
  if g_incache s
  then Ok PNone (mk_st (f_self__index s) (f_self__length s) (f_self__ready s) (f_self__job s)
                       (g_items s) (g_unsorted s) false)
  else Exc KeyError s.
Definition noop (s : st) (_ : list pv) : outcome st pv := Ok PNone s.
'''

IM_CALLS = {
    'self._items.append': 'items_append',
    'unsorted_move': 'unsorted_move',
    'unsorted_set': 'unsorted_set',
    'cache_del': 'cache_del',
    'self._cond.notify': 'noop',
}


class IMRewriter(ast.NodeTransformer):
    """R9 R10 R11"""

    def __init__(self, where):
        self.where = where

    def rewrite_body(self, body):
        out = []
        i = 0
        while i < len(body):
            st = body[i]
            # R9: two consecutive statements
            if ast.unparse(st) == 'obj = self._unsorted.pop(self._index)':
                expect(i + 1 < len(body) and ast.unparse(body[i + 1]) == 'self._items.append(obj)',
                       self.where, 'R9: pop not followed by append(obj)')
                new = ast.parse('unsorted_move(self._index)').body[0]
                out.append(ast.copy_location(new, st))
                i += 2
                continue
            out.append(self.visit(st))
            i += 1
        return out

    def generic_visit(self, node):
        for field in ('body', 'orelse'):
            val = getattr(node, field, None)
            if isinstance(val, list) and val and isinstance(val[0], ast.stmt):
                setattr(node, field, self.rewrite_body(val))
        return node

    def visit_Assign(self, st):
        if len(st.targets) == 1 and isinstance(st.targets[0], ast.Subscript):
            # R10
            expect(ast.unparse(st) == 'self._unsorted[i] = obj', self.where,
                   'unsupported subscript store `%s`' % ast.unparse(st))
            return ast.copy_location(ast.parse('unsorted_set(i, obj)').body[0], st)
        return st

    def visit_Delete(self, st):
        # R11
        expect(ast.unparse(st) == 'del self._cache[self._job]', self.where,
               'unsupported del `%s`' % ast.unparse(st))
        return ast.copy_location(ast.parse('cache_del(self._job)').body[0], st)


def find_class(tree, name):
    for node in ast.walk(tree):
        if isinstance(node, ast.ClassDef) and node.name == name:
            return node
    raise TranslateError('%s: class %s not found' % (FILE, name))


MUTABLE_VALUES = (ast.Dict, ast.List, ast.Set, ast.ListComp, ast.DictComp, ast.SetComp, ast.Call)


def gen_im_init(tree):
    """structural facts about how a result handle gets its state: no mutable class attributes on the
    result classes (a class-level `{}` / `[]` / `deque()` would be ONE object shared by every handle of
    the process), IMapIterator.__init__ creates fresh containers and the initial scalars per instance.
    Facts that do not hold are emitted as `false` / a poison value, so the theorem C02_code_imap_init
    (closed by reflexivity) names what broke; nothing is skipped."""
    mutable = []
    for cname in ('ApplyResult', 'MapResult', 'IMapIterator', 'IMapUnorderedIterator'):
        for st in find_class(tree, cname).body:
            val = None
            if isinstance(st, ast.Assign):
                val = st.value
            elif isinstance(st, ast.AnnAssign):
                val = st.value
            if val is not None and isinstance(val, MUTABLE_VALUES):
                mutable.append('%s.%s' % (cname, ast.unparse(st).split('=')[0].strip()))
    init = find_func(tree, 'IMapIterator.__init__')
    assigned = {}
    registers = False
    for st in strip_doc(init.body):
        if isinstance(st, ast.Assign) and len(st.targets) == 1:
            t = ast.unparse(st.targets[0])
            if t.startswith('self.'):
                assigned[t[5:]] = st.value
            if ast.unparse(st) == 'cache[self._job] = self':
                registers = True
    fresh_want = {'_items': 'deque()', '_unsorted': '{}', '_worker_pids': '[]'}
    fresh = all(k in assigned and ast.unparse(assigned[k]) == v for k, v in fresh_want.items())

    def scalar(name):
        v = assigned.get(name)
        if isinstance(v, ast.Constant):
            if v.value is None:
                return 'PNone'
            if isinstance(v.value, bool):
                return 'PBool %s' % ('true' if v.value else 'false')
            if isinstance(v.value, int):
                return 'PInt %s' % zlit(v.value)
        return 'PErr TypeError   (* IMapIterator.__init__ does not assign a constant to self.%s *)' % name

    unordered = find_class(tree, 'IMapUnorderedIterator')
    inherits = not any(isinstance(st, ast.FunctionDef) and st.name == '__init__' for st in unordered.body) \
        and [ast.unparse(b) for b in unordered.bases] == ['IMapIterator']
    return '\n'.join([
        '(* how a handle gets its state (see gen_im_init in translate/kernels/reassembly.py) *)',
        '(* mutable class attributes found on the result classes: %s *)' % (', '.join(mutable) or 'none'),
        'Definition class_level_mutable_attrs : nat := %d%%nat.' % len(mutable),
        'Definition fresh_containers_per_instance : bool := %s.' % ('true' if fresh else 'false'),
        'Definition unordered_inherits_init : bool := %s.' % ('true' if inherits else 'false'),
        'Definition init_index : pv := %s.' % scalar('_index'),
        'Definition init_length : pv := %s.' % scalar('_length'),
        'Definition init_ready : pv := %s.' % scalar('_ready'),
        'Definition init_incache : bool := %s.' % ('true' if registers else 'false'),
        'Definition init (job : pv) : st := mk_st init_index init_length init_ready job [] [] init_incache.',
        ''])


def gen_im(tree_src, consts, repo):
    kernel = Kernel(dict(name='K_reassembly.IM', file=FILE, state=IM_STATE, calls=IM_CALLS,
                         atomic_with=['self._cond']), repo)
    defs = []
    for qual, coqname, params in (('IMapIterator._set', 'iset', ['i', 'obj']),
                                  ('IMapIterator._set_length', 'iset_length', ['length']),
                                  ('IMapUnorderedIterator._set', 'uset', ['i', 'obj'])):
        fn = find_func(ast.parse(tree_src), qual)
        fn.body = IMRewriter(qual).rewrite_body(strip_doc(fn.body))
        ast.fix_missing_locations(fn)
        fs = dict(qual=qual, coqname=coqname, params=params,
                  exprs={'self._index in self._unsorted': 'unsorted_has s'},
                  while_fuel='length (g_unsorted s)')
        defs.append(FuncTr(kernel, fs, fn, consts).translate())
    return ('Module IM.\n' + IM_PRELUDE + '\n' + gen_im_init(ast.parse(tree_src)) + '\n'
            + '\n'.join(defs) + 'End IM.\n')


# ------------------------------------------------------------------ text pins
PINS = {
    'Pool._get_tasks': '''
@staticmethod
def _get_tasks(func, it, size):
    it = iter(it)
    while 1:
        x = tuple(itertools.islice(it, size))
        if not x:
            return
        yield (func, x)
''',
    'mapstar': '''
def mapstar(args):
    return list(map(*args))
''',
    'starmapstar': '''
def starmapstar(args):
    return list(itertools.starmap(args[0], args[1]))
''',
    'IMapIterator.next': '''
def next(self, timeout=None):
    with self._cond:
        try:
            item = self._items.popleft()
        except IndexError:
            if self._index == self._length:
                self._ready = True
                raise StopIteration
            self._cond.wait(timeout)
            try:
                item = self._items.popleft()
            except IndexError:
                if self._index == self._length:
                    self._ready = True
                    raise StopIteration
                raise TimeoutError

    success, value = item
    if success:
        return value
    raise Exception(value)
''',
    'ApplyResult.get': '''
def get(self, timeout=None):
    self.wait(timeout)
    if not self.ready():
        raise TimeoutError
    if self._success:
        return self._value
    else:
        raise self._value.exception
''',
}

# expressions that must occur (this many times) inside a function
FRAGMENTS = {
    'Pool.imap': [('(item for chunk in result for item in chunk)', 1),
                  ('Pool._get_tasks(func, iterable, chunksize)', 1),
                  ('((TASK, (result._job, i, func, (x,), {})) for i, x in enumerate(iterable))', 1),
                  ('((TASK, (result._job, i, mapstar, (x,), {})) for i, x in enumerate(task_batches))', 1),
                  ('result._set_length', 2)],
    'Pool.imap_unordered': [('(item for chunk in result for item in chunk)', 1),
                            ('Pool._get_tasks(func, iterable, chunksize)', 1),
                            ('((TASK, (result._job, i, func, (x,), {})) for i, x in enumerate(iterable))', 1),
                            ('((TASK, (result._job, i, mapstar, (x,), {})) for i, x in enumerate(task_batches))', 1),
                            ('result._set_length', 2)],
}


def check_pins(tree):
    for qual, text in PINS.items():
        fn = find_func(tree, qual)
        want = ast.parse(text.strip()).body[0]
        a = ast.unparse(ast.Module(body=strip_doc(fn.body), type_ignores=[]))
        b = ast.unparse(ast.Module(body=strip_doc(want.body), type_ignores=[]))
        expect(a == b and ast.unparse(fn.args) == ast.unparse(want.args), qual,
               'pinned function changed (it is outside the translated subset; C02 models it by hand)')
    for qual, frags in FRAGMENTS.items():
        fn = find_func(tree, qual)
        count = {}
        for node in ast.walk(fn):
            if isinstance(node, ast.expr):
                t = ast.unparse(node)
                count[t] = count.get(t, 0) + 1
        for frag, n in frags:
            key = ast.unparse(ast.parse(frag, mode='eval').body)
            expect(count.get(key, 0) == n, qual, 'pinned expression `%s` occurs %d times, expected %d'
                   % (frag, count.get(key, 0), n))


# -------------------------------------------------------------------- output
def generate(repo):
    path = os.path.join(repo, FILE)
    with open(path) as fh:
        src = fh.read()
    tree = ast.parse(src)
    consts = module_consts(tree)
    check_pins(tree)
    kernel = Kernel(dict(name='K_reassembly', file=FILE, state=STATE, calls=CALLS), repo)
    defs = []
    for g in (gen_chunksize_of, gen_mr_init, gen_mr_set, gen_mr_ack):
        # each generator re-parses: the rewrites mutate the tree
        defs.append(g(kernel, ast.parse(src), consts))
    out = ['(* GENERATED by translate/kernels/reassembly.py from %s -- do not edit *)' % FILE,
           'From Coq Require Import ZArith List Bool.',
           'From BV Require Import Lib.PyVal.',
           'Import ListNotations.', 'Open Scope Z_scope.', '']
    for c in sorted(kernel.used_consts):
        v = consts[c]
        if v is None:
            t = 'PNone'
        elif isinstance(v, bool):
            t = 'PBool %s' % ('true' if v else 'false')
        else:
            t = 'PInt %s' % zlit(v)
        out.append('Definition c_%s : pv := %s.' % (c, t))
    out.append('')
    fields = [fld(a) for a in STATE]
    out.append('Record st := mk_st { %s }.' % '; '.join('%s : pv' % f for f in fields))
    for f in fields:
        out.append('Definition set_%s (s : st) (v : pv) : st :=\n  mk_st %s.' % (
            f[2:], ' '.join('v' if g == f else '(%s s)' % g for g in fields)))
    out.append('')
    out.append(PRELUDE)
    out.extend(defs)
    out.append(gen_im(src, consts, repo))
    out.append('(* pinned (text-compared) on this run: %s; fragments of %s *)' % (
        ', '.join(sorted(PINS)), ', '.join(sorted(FRAGMENTS))))
    out.append('Definition pins_checked : nat := %d.' % (len(PINS) + sum(len(v) for v in FRAGMENTS.values())))
    return '\n'.join(out) + '\n'


KERNELS = []
EXTRA_GENERATORS = {'K_reassembly': generate}
