"""Pool family: one translated kernel (`_timed_out`) and fail-closed *shape facts* about the
decision points of billiard/pool.py that the hand-written pool model (coq/Model/Pool.v) copies.

The pool model is tied to the code by differential correspondence; these facts add a
syntactic tie: each fact is a boolean computed from the AST of /repo on every run and the
property files prove `fact = true` by reflexivity, so an edit of one of these decision points
breaks a proof obligation even if no generated history happens to exercise it.  A missing
anchor function is an error (fail closed); a statement that merely looks different yields
`false` (reported as a broken obligation, then searched for a failing input)."""
import ast
import os

K_timedout = dict(
    name='K_timedout',
    file='billiard/pool.py',
    state=[],
    funcs=[dict(qual='TimeoutHandler.handle_timeouts._timed_out', coqname='timed_out',
                params=['start', 'timeout'], exprs={'monotonic()': 'mono'}, extra_params=['mono'])],
)

KERNELS = [K_timedout]


def _norm(node):
    return ' '.join(ast.unparse(node).split())


def _has(stmts, pred):
    return any(pred(st) for st in stmts)


def _walk_stmts(fn):
    for node in ast.walk(fn):
        if isinstance(node, ast.stmt):
            yield node


def _gen_shape(repo):
    from pykernel import find_func
    tree = ast.parse(open(os.path.join(repo, 'billiard/pool.py')).read())
    facts = {}

    # ---- apply_async: per-job limits default to the pool's with Python `or`
    f = find_func(tree, 'Pool.apply_async')
    texts = {_norm(st) for st in _walk_stmts(f)}
    facts['apply_soft_defaults_to_pool'] = 'soft_timeout = soft_timeout or self.soft_timeout' in texts
    facts['apply_hard_defaults_to_pool'] = 'timeout = timeout or self.timeout' in texts
    facts['apply_lost_defaults_to_pool'] = 'lost_worker_timeout = lost_worker_timeout or self.lost_worker_timeout' in texts
    facts['apply_refuses_unless_run'] = isinstance(f.body[1] if isinstance(f.body[0], ast.Expr) else f.body[0], ast.If) and \
        _norm((f.body[1] if isinstance(f.body[0], ast.Expr) else f.body[0]).test) == 'self._state != RUN'

    # ---- the other submit methods refuse unless RUN
    for name, key in (('Pool._map_async', 'map_refuses_unless_run'), ('Pool.imap', 'imap_refuses_unless_run'),
                      ('Pool.imap_unordered', 'imapu_refuses_unless_run')):
        g = find_func(tree, name)
        body = [st for st in g.body if not (isinstance(st, ast.Expr) and isinstance(st.value, ast.Constant))]
        facts[key] = isinstance(body[0], ast.If) and _norm(body[0].test) == 'self._state != RUN' and \
            isinstance(body[0].body[0], ast.Return) and body[0].body[0].value is None

    # ---- the timeout scan
    f = find_func(tree, 'TimeoutHandler.handle_timeouts')
    loop = next((n for n in ast.walk(f) if isinstance(n, ast.For) and _norm(n.iter) == 'cache.items()'), None)
    if loop is None:
        raise ValueError('handle_timeouts: the loop over the cache snapshot was not found')
    disp = loop.body[-1]
    ok = isinstance(disp, ast.If)
    facts['scan_hard_checked_first'] = ok and _norm(disp.test) == '_timed_out(ack_time, hard_timeout)' and \
        [_norm(s) for s in disp.body] == ['on_hard_timeout(job)']
    soft = disp.orelse[0] if ok and len(disp.orelse) == 1 and isinstance(disp.orelse[0], ast.If) else None
    facts['scan_soft_guarded_by_dirty'] = soft is not None and \
        _norm(soft.test) == 'i not in dirty and _timed_out(ack_time, soft_timeout)' and not soft.orelse
    facts['scan_soft_marks_dirty'] = soft is not None and \
        [_norm(s) for s in soft.body] == ['on_soft_timeout(job)', 'dirty.add(i)']
    ltexts = [_norm(s) for s in loop.body]
    facts['scan_job_limit_precedence'] = all(t in ' ; '.join(ltexts) for t in (
        'soft_timeout = job._soft_timeout', 'if soft_timeout is None: soft_timeout = t_soft',
        'hard_timeout = job._timeout', 'if hard_timeout is None: hard_timeout = t_hard'))
    facts['scan_no_early_exit'] = not any(isinstance(n, (ast.Break, ast.Return)) for n in ast.walk(loop)) and \
        sum(isinstance(n, ast.Continue) for n in ast.walk(loop)) == 1
    ftexts = {_norm(st) for st in _walk_stmts(f)}
    facts['scan_dirty_keeps_cached'] = 'dirty = set((k for k in dirty if k in cache))' in ftexts
    facts['scan_iterates_snapshot'] = 'cache = copy.copy(self.cache)' in ftexts

    for name, key in (('TimeoutHandler.on_hard_timeout', 'hard_handler_checks_ready_first'),
                      ('TimeoutHandler.on_soft_timeout', 'soft_handler_checks_ready_first')):
        g = find_func(tree, name)
        st = g.body[0]
        facts[key] = isinstance(st, ast.If) and _norm(st.test) == 'job.ready()' and \
            isinstance(st.body[0], ast.Return) and st.body[0].value is None
    g = find_func(tree, 'TimeoutHandler.on_hard_timeout')
    facts['hard_handler_kills_owner'] = 'process, _index = self._process_by_pid(job._worker_pid)' in {_norm(s) for s in _walk_stmts(g)}
    g = find_func(tree, 'TimeoutHandler.on_soft_timeout')
    facts['soft_handler_signals_owner'] = '_kill(job._worker_pid, SIG_SOFT_TIMEOUT)' in ' '.join(_norm(s) for s in _walk_stmts(g))

    # ---- supervision
    f = find_func(tree, 'Pool._join_exited_workers')
    first = next((n for n in f.body if isinstance(n, ast.For)), None)
    facts['lost_test_strictly_greater'] = first is not None and any(
        isinstance(n, ast.If) and _norm(n.test) == 'now - lost_time > job._lost_worker_timeout' and
        [_norm(s) for s in n.body] == ['self.mark_as_worker_lost(job, lost_ret)'] for n in ast.walk(first))
    facts['lost_loop_visits_every_job'] = first is not None and not any(
        isinstance(n, (ast.Break, ast.Continue, ast.Return)) for n in ast.walk(first))
    facts['lost_loop_selects_unready_marked'] = first is not None and \
        'if not job.ready() and job._worker_lost' in _norm(first.iter)
    jtexts = ' ; '.join(_norm(s) for s in _walk_stmts(f))
    facts['terminated_only_for_terminate_job'] = "if proc and getattr(proc, '_job_terminated', False): job._set_terminated(exitcode)" in jtexts
    facts['gone_owner_test'] = 'pid in cleaned or pid not in all_pids' in jtexts
    g = find_func(tree, 'Pool.on_job_process_lost')
    st = g.body[0]
    facts['marker_written_once'] = isinstance(st, ast.If) and _norm(st.test) == 'job._worker_lost is None' and len(g.body) == 1
    g = find_func(tree, 'Pool._repopulate_pool')
    facts['clean_exits_not_charged'] = 'if exitcodes and exitcodes[i] not in (EX_OK, EX_RECYCLE): self.restart_state.step()' in \
        ' ; '.join(_norm(s) for s in _walk_stmts(g))
    facts['limiter_consulted_before_fork'] = False
    for n in ast.walk(g):
        if isinstance(n, ast.For):
            names = [_norm(s) for s in n.body]
            step_i = next((k for k, t in enumerate(names) if 'self.restart_state.step()' in t), None)
            fork_i = next((k for k, t in enumerate(names) if 'self._create_worker_process(' in t), None)
            facts['limiter_consulted_before_fork'] = step_i is not None and fork_i is not None and step_i < fork_i
    g = find_func(tree, 'Pool._maintain_pool')
    facts['one_slot_per_reaped_worker'] = 'for i in range(len(joined)): if self._putlock is not None: self._putlock.release()' in \
        ' ; '.join(_norm(s) for s in g.body)
    g = find_func(tree, 'Pool.terminate_job')
    facts['terminate_job_flags_worker'] = all(t in {_norm(s) for s in _walk_stmts(g)} for t in (
        'proc._controlled_termination = True', 'proc._job_terminated = True'))
    g = find_func(tree, 'Pool._iterinactive')
    facts['shrink_skips_stopping_workers'] = "getattr(worker, '_controlled_termination', False)" in ' '.join(_norm(s) for s in _walk_stmts(g))
    g = find_func(tree, 'Pool.shrink')
    facts['shrink_always_flags_victim'] = any(_norm(s) == 'worker.terminate_controlled()' and s in n.body
                                              for n in ast.walk(g) if isinstance(n, ast.For) for s in n.body)

    g = find_func(tree, 'Pool._terminate_pool')
    gt = ' ; '.join(_norm(s) for s in _walk_stmts(g))
    facts['terminate_signals_every_live_worker'] = 'for p in pool: if p._is_alive(): p.terminate()' in gt
    facts['terminate_joins_every_live_worker'] = 'for p in pool: if p.is_alive(): debug(' in gt and 'p.join()' in gt

    # ---- result handling
    g = find_func(tree, 'ApplyResult._set')
    w = g.body[0]
    facts['apply_set_first_writer_wins'] = isinstance(w, ast.With) and isinstance(w.body[0], ast.If) and \
        _norm(w.body[0].test) == 'self._event.is_set()' and isinstance(w.body[0].body[-1], ast.Return)
    g = find_func(tree, 'ResultHandler._make_methods')
    rt = ' ; '.join(_norm(s) for s in _walk_stmts(g))
    facts['slot_released_only_for_unresolved'] = 'if not item.ready(): if putlock is not None: putlock.release()' in rt
    facts['ack_resets_restart_counter'] = 'restart_state.R = 0' in rt
    g = find_func(tree, 'TaskHandler.body')
    bt = ' ; '.join(_norm(s) for s in _walk_stmts(g))
    facts['put_failure_fails_own_job'] = 'job, ind = task[1][:2]' in bt
    inner = None
    for n in ast.walk(g):
        if isinstance(n, ast.ExceptHandler) and n.type is not None and _norm(n.type) == 'Exception' and \
                any('job, ind = task[1][:2]' == _norm(s) for s in n.body) and \
                any('item._set(ind' in _norm(s) for s in ast.walk(n) if isinstance(s, ast.stmt)):
            inner = n
    facts['put_failure_goes_on_with_next_task'] = inner is not None and \
        not any(isinstance(x, (ast.Break, ast.Return, ast.Raise)) for x in ast.walk(inner))
    # an apply task that could not be sent: slot given back (once, if unresolved), job failed, entry dropped
    single = None
    if inner is not None:
        single = next((x for x in ast.walk(inner) if isinstance(x, ast.If) and _norm(x.test) == 'ind is None'), None)
    facts['unsent_apply_gives_slot_back_and_leaves_cache'] = single is not None and \
        [_norm(x) for x in single.body] == [
            'if not item.ready() and self.putlock is not None: self.putlock.release()',
            'item._set(ind, (False, ExceptionInfo()))', 'cache.pop(job, None)'] and \
        [_norm(x) for x in single.orelse] == ['item._set(ind, (False, ExceptionInfo()))']
    g = find_func(tree, 'Pool.apply_async')
    at = ' ; '.join(_norm(s) for s in _walk_stmts(g))
    facts['unsendable_apply_without_threads_leaves_nothing'] = \
        any(_norm(h) == 'except Exception: self._cache.pop(result._job, None) if waitforslot and self._putlock is not None: self._putlock.release() raise'
            for n in ast.walk(g) if isinstance(n, ast.Try) for h in n.handlers)

    # ---- Worker.after_fork: the user's initializer runs BEFORE the worker's own signal set-up
    # (termination handlers, the soft-timeout handler), so nothing it does to signal dispositions
    # survives; the soft-timeout handler is installed unconditionally when the signal exists
    g = find_func(tree, 'Worker.after_fork')
    order = [_norm(st) for st in g.body]
    def _idx(prefix):
        return next((i for i, t in enumerate(order) if t.startswith(prefix)), None)
    i_init = _idx('if self.initializer is not None: self.initializer(*self.initargs)')
    i_reset = _idx('reset_signals(full=self.sigprotection)')
    i_soft = _idx('if SIG_SOFT_TIMEOUT is not None: signal.signal(SIG_SOFT_TIMEOUT, soft_timeout_sighandler)')
    facts['initializer_runs_before_signal_setup'] = None not in (i_init, i_reset, i_soft) and i_init < i_reset and i_init < i_soft
    facts['soft_handler_installed_in_every_worker'] = i_soft is not None
    # ---- Worker.workloop: once the termination handler has run, ANY exception of the task is re-raised
    g = find_func(tree, 'Worker.workloop')
    facts['interrupted_task_always_reraised'] = any(
        isinstance(n, ast.ExceptHandler) and n.type is not None and _norm(n.type) == 'BaseException'
        and len(n.body) >= 1 and isinstance(n.body[0], ast.If) and _norm(n.body[0].test) == '_should_have_exited[0]'
        and any(isinstance(x, ast.Raise) and x.exc is None for x in n.body[0].body)
        for n in ast.walk(g))

    # ---- Supervisor.body: the start-up burst
    g = find_func(tree, 'Supervisor.body')
    gt = [_norm(st) for st in _walk_stmts(g)]
    facts['burst_budget_is_ten_per_slot_per_second'] = 'pool.restart_state = restart_state(10 * pool._processes, 1)' in gt
    loop = next((st for st in ast.walk(g) if isinstance(st, ast.For) and _norm(st.iter) == 'range(10)'), None)
    facts['burst_is_ten_passes_then_own_limiter_restored'] = loop is not None and \
        _norm(loop).startswith('for _ in range(10): if self._state == RUN and pool._state == RUN: pool._maintain_pool() time.sleep(0.1)') and \
        facts['burst_budget_is_ten_per_slot_per_second'] and 'prev_state = pool.restart_state' in gt and 'pool.restart_state = prev_state' in gt and \
        gt.index('prev_state = pool.restart_state') < gt.index('pool.restart_state = restart_state(10 * pool._processes, 1)') \
        < gt.index('pool.restart_state = prev_state')

    out = ['(* GENERATED by translate/kernels/poolshape.py from billiard/pool.py -- do not edit *)']
    for k in sorted(facts):
        out.append('Definition %s : bool := %s.' % (k, 'true' if facts[k] else 'false'))
    return '\n'.join(out) + '\n'


EXTRA_GENERATORS = {'G_pool_shape': _gen_shape}
