"""K13 (C18): the authentication handshake of billiard/connection.py.

Bespoke fail-closed generator (EXTRA_GENERATORS['K_auth']).  On every run it
re-reads /repo/billiard/connection.py and emits coq/Gen/K_auth.v containing

  * the constants MESSAGE_LENGTH, CHALLENGE, WELCOME, FAILURE (bytes as list Z);
  * deliver_challenge / answer_challenge translated statement by statement into
    process terms over Lib/AuthBase.v (Send / Recv maxlen / Raise, the MAC a
    Section variable, os.urandom an argument);
  * for Listener.__init__/accept and Client: the position of the key type
    check, the guard that decides whether to authenticate, the order of the
    handshake steps;
  * the digest algorithm each function names.

Anything that does not have exactly the expected shape raises (=> the caller
writes a Gen file that does not compile and records a broken obligation).

Subset for the two handshake functions
  statements:  import hmac | assert isinstance(authkey, bytes)
               | connection.send_bytes(E) | x = connection.recv_bytes(INT) | x = E
               | assert COND[, msg] | if COND: S* [else: S*] | raise AuthenticationError(...)
  expressions: names (parameter authkey, locals, the four module constants),
               E + E (bytes concatenation), os.urandom(E),
               hmac.new(K, M, '<alg>').digest(), E[:len(C)], E[len(C):], int literals
  conditions:  E == E | E != E | hmac.compare_digest(E, E) | not COND

Exceptions: try/except/finally/with are NOT in the subset (block() refuses them, and the
shapes demanded of Listener.accept / Client leave no room for a handler around the two
calls), so an exception raised by connection.send_bytes / connection.recv_bytes leaves the
handshake function and accept()/Client().  That is the meaning Lib/AuthBase.run1f/run2f give
to a process term over a channel whose calls may fail, and what the fault theorems of
Props/C18.v rely on.  A function that handles exceptions makes the generation fail closed;
props/C18.py then still drives the fault-injection histories against the real code and
judges them with the trace-only monitor (accepted => right digest received).
"""
import ast
import os


class AuthTranslateError(Exception):
    pass


CONSTS = ('MESSAGE_LENGTH', 'CHALLENGE', 'WELCOME', 'FAILURE')
FUNCS = ('deliver_challenge', 'answer_challenge')


def zbytes(b):
    return '[' + '; '.join(str(x) for x in b) + ']'


def cmt(v):
    """text safe inside a Coq comment"""
    return ''.join(ch if (ch.isalnum() or ch in " #_-'.,:") else '?' for ch in repr(v))


def fail(node, msg):
    raise AuthTranslateError('connection.py:%s: %s' % (getattr(node, 'lineno', '?'), msg))


class Fn:
    def __init__(self, fnode):
        self.fn = fnode
        self.locals = set()
        self.algs = []
        self.uses_urandom = False
        a = fnode.args
        if [x.arg for x in a.args] != ['connection', 'authkey'] or a.vararg or a.kwarg or a.kwonlyargs or a.defaults:
            fail(fnode, 'signature of %s is not (connection, authkey)' % fnode.name)
        if fnode.decorator_list:
            fail(fnode, 'decorated handshake function')

    # ---------------------------------------------------------- expressions
    def expr(self, e):
        if isinstance(e, ast.Name):
            if e.id == 'authkey' or e.id in self.locals:
                return 'v_' + e.id
            if e.id in CONSTS:
                return e.id
            fail(e, 'unknown name %s' % e.id)
        if isinstance(e, ast.Constant) and isinstance(e.value, int) and not isinstance(e.value, bool):
            return '(%d)' % e.value
        if isinstance(e, ast.BinOp) and isinstance(e.op, ast.Add):
            return '(%s ++ %s)' % (self.expr(e.left), self.expr(e.right))
        if isinstance(e, ast.Call):
            txt = ast.unparse(e.func)
            if txt == 'os.urandom' and len(e.args) == 1 and not e.keywords:
                self.uses_urandom = True
                return '(urandom %s)' % self.expr(e.args[0])
            # hmac.new(K, M, 'alg').digest()
            if (isinstance(e.func, ast.Attribute) and e.func.attr == 'digest' and not e.args
                    and not e.keywords and isinstance(e.func.value, ast.Call)
                    and ast.unparse(e.func.value.func) == 'hmac.new'):
                c = e.func.value
                if len(c.args) != 3 or c.keywords:
                    fail(e, 'hmac.new must be called as hmac.new(key, msg, "alg")')
                alg = c.args[2]
                if not (isinstance(alg, ast.Constant) and isinstance(alg.value, str)):
                    fail(e, 'digest algorithm is not a string literal')
                self.algs.append(alg.value)
                return '(mac %s %s)' % (self.expr(c.args[0]), self.expr(c.args[1]))
            fail(e, 'unsupported call %s' % txt)
        if isinstance(e, ast.Subscript) and isinstance(e.slice, ast.Slice) and e.slice.step is None:
            lo, hi = e.slice.lower, e.slice.upper

            def lenof(x):
                if (isinstance(x, ast.Call) and ast.unparse(x.func) == 'len' and len(x.args) == 1
                        and isinstance(x.args[0], ast.Name) and x.args[0].id in CONSTS[1:]):
                    return '(length %s)' % x.args[0].id
                fail(x, 'slice bound is not len(<constant>)')
            if lo is None and hi is not None:
                return '(firstn %s %s)' % (lenof(hi), self.expr(e.value))
            if hi is None and lo is not None:
                return '(skipn %s %s)' % (lenof(lo), self.expr(e.value))
        fail(e, 'unsupported expression %s' % ast.unparse(e))

    def cond(self, e):
        """-> (positive test, negated?)  Negations are not emitted: the caller swaps
        the branches, so `if a != b: X else: Y` and `if a == b: Y else: X` give the
        same term."""
        if isinstance(e, ast.Compare) and len(e.ops) == 1:
            a, b = self.expr(e.left), self.expr(e.comparators[0])
            if isinstance(e.ops[0], ast.Eq):
                return '(bytes_eqb %s %s)' % (a, b), False
            if isinstance(e.ops[0], ast.NotEq):
                return '(bytes_eqb %s %s)' % (a, b), True
        if isinstance(e, ast.UnaryOp) and isinstance(e.op, ast.Not):
            t, n = self.cond(e.operand)
            return t, not n
        if (isinstance(e, ast.Call) and ast.unparse(e.func) == 'hmac.compare_digest'
                and len(e.args) == 2 and not e.keywords):
            return '(bytes_eqb %s %s)' % (self.expr(e.args[0]), self.expr(e.args[1])), False
        fail(e, 'unsupported condition %s' % ast.unparse(e))

    def ite(self, test, a, b):
        t, neg = self.cond(test)
        if neg:
            a, b = b, a
        return '(if %s then\n%s\nelse\n%s)' % (t, a, b)

    # ----------------------------------------------------------- statements
    def block(self, stmts, rest):
        """translate stmts; `rest` = Coq term for what follows the block"""
        if not stmts:
            return rest
        s, tail = stmts[0], stmts[1:]
        if isinstance(s, ast.Expr) and isinstance(s.value, ast.Constant) and isinstance(s.value.value, str):
            return self.block(tail, rest)                      # docstring
        if isinstance(s, ast.Pass):
            return self.block(tail, rest)
        if isinstance(s, ast.Import):
            if [a.name for a in s.names] != ['hmac'] or s.names[0].asname:
                fail(s, 'unexpected import')
            return self.block(tail, rest)
        if isinstance(s, ast.Assert):
            if ast.unparse(s.test) == 'isinstance(authkey, bytes)':
                return self.block(tail, rest)                  # authkey : bytes in the model
            return self.ite(s.test, self.block(tail, rest), '(Raise AssertionError)')
        if isinstance(s, ast.Expr) and isinstance(s.value, ast.Call):
            c = s.value
            if ast.unparse(c.func) == 'connection.send_bytes' and len(c.args) == 1 and not c.keywords:
                return '(Send %s\n%s)' % (self.expr(c.args[0]), self.block(tail, rest))
            fail(s, 'unsupported call statement %s' % ast.unparse(s))
        if isinstance(s, ast.Assign):
            if len(s.targets) != 1 or not isinstance(s.targets[0], ast.Name):
                fail(s, 'unsupported assignment target')
            name = s.targets[0].id
            if name in ('authkey', 'connection') or name in CONSTS:
                fail(s, 'assignment to %s' % name)
            v = s.value
            if isinstance(v, ast.Call) and ast.unparse(v.func) == 'connection.recv_bytes':
                if len(v.args) != 1 or v.keywords or not (
                        isinstance(v.args[0], ast.Constant) and type(v.args[0].value) is int):
                    fail(s, 'recv_bytes must be called with one integer literal (the size limit)')
                self.locals.add(name)
                return '(Recv %d (fun v_%s =>\n%s))' % (v.args[0].value, name, self.block(tail, rest))
            val = self.expr(v)
            self.locals.add(name)
            return '(let v_%s := %s in\n%s)' % (name, val, self.block(tail, rest))
        if isinstance(s, ast.If):
            saved = set(self.locals)
            a = self.block(s.body + tail, rest)
            self.locals = set(saved)
            b = self.block(s.orelse + tail, rest)
            self.locals = saved
            return self.ite(s.test, a, b)
        if isinstance(s, ast.Raise):
            exc = s.exc
            if isinstance(exc, ast.Call):
                exc = exc.func
            if isinstance(exc, ast.Name) and exc.id == 'AuthenticationError' and s.cause is None:
                return '(Raise AuthenticationError)'          # statements after a raise are dead
            fail(s, 'unsupported raise')
        if isinstance(s, ast.Return) and s.value is None:
            return rest
        fail(s, 'unsupported statement %s' % type(s).__name__)


def find_def(tree, name, kind=ast.FunctionDef):
    found = [n for n in tree.body if isinstance(n, kind) and n.name == name]
    # definitions nested in a top-level `if` (platform switches) are not accepted
    if len(found) != 1:
        raise AuthTranslateError('expected exactly one top-level %s, found %d' % (name, len(found)))
    return found[0]


def module_consts(tree):
    vals = {}
    for n in tree.body:
        if isinstance(n, ast.Assign):
            for t in n.targets:
                if isinstance(t, ast.Name) and t.id in CONSTS:
                    if t.id in vals:
                        fail(n, '%s assigned twice' % t.id)
                    if not isinstance(n.value, ast.Constant):
                        fail(n, '%s is not a literal' % t.id)
                    vals[t.id] = n.value.value
        elif isinstance(n, (ast.AugAssign, ast.AnnAssign)):
            t = n.target
            if isinstance(t, ast.Name) and t.id in CONSTS:
                fail(n, 'unsupported assignment to %s' % t.id)
    for c in CONSTS:
        if c not in vals:
            raise AuthTranslateError('module constant %s not found' % c)
    if type(vals['MESSAGE_LENGTH']) is not int:
        raise AuthTranslateError('MESSAGE_LENGTH is not an int literal')
    for c in CONSTS[1:]:
        if type(vals[c]) is not bytes:
            raise AuthTranslateError('%s is not a bytes literal' % c)
    # nobody else in the module may rebind them (global statements / attribute stores)
    for n in ast.walk(tree):
        if isinstance(n, ast.Global) and set(n.names) & set(CONSTS):
            fail(n, 'global rebinding of a handshake constant')
    return vals


TYPECHECK = 'authkey is not None and (not isinstance(authkey, bytes))'


def is_typecheck(s):
    return (isinstance(s, ast.If) and ast.unparse(s.test) == TYPECHECK and not s.orelse
            and len(s.body) == 1 and isinstance(s.body[0], ast.Raise)
            and isinstance(s.body[0].exc, (ast.Call, ast.Name))
            and ast.unparse(s.body[0].exc.func if isinstance(s.body[0].exc, ast.Call) else s.body[0].exc) == 'TypeError')


def guard_and_order(s, conn, keyexpr):
    """`if <key>:` / `if <key> is not None:` with a body of handshake calls on (conn, key)"""
    if not isinstance(s, ast.If) or s.orelse:
        fail(s, 'expected the authentication `if` without else')
    t = ast.unparse(s.test)
    if t == keyexpr:
        g = 'GTruthy'
    elif t == keyexpr + ' is not None':
        g = 'GNotNone'
    else:
        fail(s, 'unrecognised authentication guard `%s`' % t)
    order = []
    for b in s.body:
        if not (isinstance(b, ast.Expr) and isinstance(b.value, ast.Call)
                and isinstance(b.value.func, ast.Name) and b.value.func.id in FUNCS
                and [ast.unparse(a) for a in b.value.args] == [conn, keyexpr] and not b.value.keywords):
            fail(b, 'unexpected statement in the authentication block: %s' % ast.unparse(b))
        order.append('Deliver' if b.value.func.id == 'deliver_challenge' else 'Answer')
    return g, order


def no_auth_mention(stmts, what):
    for s in stmts:
        for n in ast.walk(s):
            if isinstance(n, ast.Name) and n.id in FUNCS + ('authkey',):
                fail(n, '%s: unexpected use of %s outside the recognised statements' % (what, n.id))
            if isinstance(n, ast.Attribute) and n.attr == '_authkey':
                fail(n, '%s: unexpected use of _authkey outside the recognised statements' % what)
            if isinstance(n, (ast.Try, ast.With)):
                pass


def strip_doc(body):
    if body and isinstance(body[0], ast.Expr) and isinstance(body[0].value, ast.Constant) \
            and isinstance(body[0].value.value, str):
        return body[1:]
    return body


def listener_shape(tree):
    cls = find_def(tree, 'Listener', ast.ClassDef)
    meths = {n.name: n for n in cls.body if isinstance(n, ast.FunctionDef)}
    for m in ('__init__', 'accept'):
        if m not in meths:
            fail(cls, 'Listener.%s not found' % m)
    # ---- __init__: type check, then the only store to self._authkey
    init = strip_doc(meths['__init__'].body)
    if 'authkey' not in [a.arg for a in meths['__init__'].args.args]:
        fail(meths['__init__'], 'Listener.__init__ has no authkey parameter')
    idx = [i for i, s in enumerate(init) if is_typecheck(s)]
    if len(idx) != 1:
        fail(meths['__init__'], 'Listener.__init__: key type check not found (exactly once, top level)')
    store = [i for i, s in enumerate(init) if ast.unparse(s) == 'self._authkey = authkey']
    if len(store) != 1 or store[0] < idx[0]:
        fail(meths['__init__'], 'Listener.__init__: `self._authkey = authkey` must follow the type check')
    no_auth_mention([s for i, s in enumerate(init) if i not in (idx[0], store[0])], 'Listener.__init__')
    # no other method stores _authkey
    for name, m in meths.items():
        for n in ast.walk(m):
            if isinstance(n, ast.Attribute) and n.attr == '_authkey' and isinstance(n.ctx, ast.Store) \
                    and name != '__init__':
                fail(n, 'Listener.%s stores _authkey' % name)
    # ---- accept: [closed check]; c = self._listener.accept(); if key: ...; return c
    acc = strip_doc(meths['accept'].body)
    ai = [i for i, s in enumerate(acc) if isinstance(s, ast.Assign) and len(s.targets) == 1
          and isinstance(s.targets[0], ast.Name) and ast.unparse(s.value) == 'self._listener.accept()']
    if len(ai) != 1:
        fail(meths['accept'], 'accept: `c = self._listener.accept()` not found')
    conn = acc[ai[0]].targets[0].id
    rest = acc[ai[0] + 1:]
    if len(rest) != 2 or ast.unparse(rest[1]) != 'return ' + conn:
        fail(meths['accept'], 'accept: expected `if <key>: <handshake>` then `return %s`' % conn)
    g, order = guard_and_order(rest[0], conn, 'self._authkey')
    no_auth_mention(acc[:ai[0]], 'Listener.accept')
    for s in acc[:ai[0]]:
        if not isinstance(s, ast.If):
            fail(s, 'accept: unexpected statement before the transport accept')
    return g, order


def client_shape(tree):
    fn = find_def(tree, 'Client')
    if 'authkey' not in [a.arg for a in fn.args.args]:
        fail(fn, 'Client has no authkey parameter')
    body = strip_doc(fn.body)
    idx = [i for i, s in enumerate(body) if is_typecheck(s)]
    if len(idx) != 1:
        fail(fn, 'Client: key type check not found (exactly once, top level)')
    rest = body[idx[0] + 1:]
    if len(rest) != 2 or not isinstance(rest[1], ast.Return) or not isinstance(rest[1].value, ast.Name):
        fail(fn, 'Client: expected type check, `if <key>: <handshake>`, `return c`')
    conn = rest[1].value.id
    g, order = guard_and_order(rest[0], conn, 'authkey')
    no_auth_mention(body[:idx[0]], 'Client')
    return g, order


def generate(repo):
    path = os.path.join(repo, 'billiard', 'connection.py')
    tree = ast.parse(open(path).read(), path)
    consts = module_consts(tree)
    out = []
    w = out.append
    w('(* GENERATED by translate/kernels/auth.py from billiard/connection.py -- do not edit *)')
    w('From Coq Require Import ZArith List Bool.')
    w('From BV Require Import Lib.AuthBase.')
    w('Import ListNotations.')
    w('Open Scope Z_scope.')
    w('')
    w('Definition MESSAGE_LENGTH : Z := %d.' % consts['MESSAGE_LENGTH'])
    for c in CONSTS[1:]:
        w('Definition %s : bytes := %s.   (* %s *)' % (c, zbytes(consts[c]), cmt(consts[c])))
    w('')
    w('Section WithMac.')
    w('Variable mac : bytes -> bytes -> bytes.')
    algs = {}
    for name in FUNCS:
        f = Fn(find_def(tree, name))
        term = f.block(f.fn.body, 'k')
        if name == 'deliver_challenge':
            # structural: the challenge is os.urandom(MESSAGE_LENGTH), bound once, sent after CHALLENGE
            first = [s for s in f.fn.body if isinstance(s, ast.Assign)
                     and ast.unparse(s.value) == 'os.urandom(MESSAGE_LENGTH)']
            if len(first) != 1 or not f.uses_urandom:
                fail(f.fn, 'deliver_challenge: challenge is not `os.urandom(MESSAGE_LENGTH)`')
            w('Definition deliver_challenge (v_authkey : bytes) (urandom : Z -> bytes) (k : proc) : proc :=')
        else:
            if f.uses_urandom:
                fail(f.fn, 'answer_challenge draws random bytes')
            w('Definition answer_challenge (v_authkey : bytes) (k : proc) : proc :=')
        w(term + '.')
        w('')
        if len(set(f.algs)) != 1:
            fail(f.fn, '%s: expected exactly one digest algorithm, got %r' % (name, f.algs))
        algs[name] = f.algs[0]
    w('End WithMac.')
    w('')
    for name in FUNCS:
        w('Definition digestmod_%s : bytes := %s.   (* %s *)' % (
            name.split('_')[0], zbytes(algs[name].encode()), cmt(algs[name])))
    # `os` must be the stdlib module in connection.py
    if not any(isinstance(n, ast.Import) and any(a.name == 'os' and a.asname is None for a in n.names)
               for n in tree.body):
        raise AuthTranslateError('connection.py does not `import os` at top level')
    for n in ast.walk(tree):
        if isinstance(n, (ast.Assign, ast.AugAssign)):
            tg = n.targets if isinstance(n, ast.Assign) else [n.target]
            for t in tg:
                if isinstance(t, ast.Name) and t.id in ('os', 'hmac') + FUNCS:
                    fail(n, 'rebinding of %s' % t.id)
    lg, lo = listener_shape(tree)
    cg, co = client_shape(tree)
    w('')
    w('(* Listener.__init__: type check precedes the only store of _authkey; accept(): *)')
    w('Definition listener_guard : guard := %s.' % lg)
    w('Definition accept_order : list hstep := [%s].' % '; '.join(lo))
    w('(* Client(): type check, then *)')
    w('Definition client_guard : guard := %s.' % cg)
    w('Definition client_order : list hstep := [%s].' % '; '.join(co))
    return '\n'.join(out) + '\n'


EXTRA_GENERATORS = {'K_auth': generate}
KERNELS = []
