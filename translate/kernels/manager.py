"""K16 / C20: billiard.managers.Server -- bespoke fail-closed generator `G_manager`.

Regenerated into coq/Gen/G_manager.v on every run, over coq/Lib/ManagerLib.v:

 1. `incref`, `decref`, `create_tail` : a shallow translation of the reference-count
    arithmetic of Server.incref / Server.decref / the tail of Server.create (from the store
    into id_to_obj to the return).  The head of create (registry lookup, construction of
    the referent, computation of `exposed`, ident) is pinned statement by statement.
 1b. `incref_under_mutex`, `decref_under_mutex`, `create_under_mutex`, `mutex_is_rlock`,
    `table_writers` : every access to the two tables in those three functions lies inside a
    `with self.mutex:` block, the mutex is a threading.RLock made once in __init__, and no other
    method of Server stores into the tables (the translation of part 1 flattens the `with`).
 2. `serve_body`, `hr_body` : the control skeleton (try / except / else nesting and order,
    handler classes, if-tests, raise, assert, statement order) of the loop body of
    Server.serve_client and of Server.handle_request as statement trees.  Simple statements
    are mapped to the primitives of ManagerLib.prim by their exact (ast-normalised) text.
 3. who references serve_client / handle_request, Server.public, fallback names.
 4. what the real Server.create returns as `exposed` for the typeids list, dict, Value,
    Iterator of SyncManager._registry, and which methods their proxy classes define
    (obtained by importing the working tree in a subprocess); the same for a typeid registered
    the way SyncManager registers Queue (`register('AList', list)`: no proxy type, no exposed
    tuple -> AutoProxy, public_methods) -- what the registry stores for it, what create
    exposes, and which methods MakeProxyType gives the proxy class built for that set.

Everything outside the expected shapes raises GenError (=> broken obligation)."""
import ast
import json
import os
import subprocess

PY = '/venv/bin/python'


class GenError(Exception):
    pass


def norm(src):
    """ast-normalised text of a statement / expression given as source"""
    return ast.unparse(ast.parse(src).body[0])


def find_class(tree, name):
    for n in tree.body:
        if isinstance(n, ast.ClassDef) and n.name == name:
            return n
    raise GenError('class %s not found' % name)


def find_method(cls, name):
    for n in cls.body:
        if isinstance(n, ast.FunctionDef) and n.name == name:
            return n
    raise GenError('method %s.%s not found' % (cls.name, name))


def params(fn):
    a = fn.args
    if a.kwonlyargs or a.defaults or a.kw_defaults:
        raise GenError('%s: unexpected signature' % fn.name)
    return [x.arg for x in a.args], (a.vararg.arg if a.vararg else None), (a.kwarg.arg if a.kwarg else None)


def strip_doc(body):
    if body and isinstance(body[0], ast.Expr) and isinstance(body[0].value, ast.Constant) \
            and isinstance(body[0].value.value, str):
        return body[1:]
    return body


# ------------------------------------------------------------------ part 1: refcounts
DICTS = {'self.id_to_refcount': 'rcs', 'self.id_to_obj': 'objs'}
CMP = {ast.GtE: '>=?', ast.Gt: '>?', ast.LtE: '<=?', ast.Lt: '<?', ast.Eq: '=?'}
ARITH = {ast.Add: '+', ast.Sub: '-'}


class RcTr:
    """statements over the two tables -> Gallina in continuation-passing style"""

    def __init__(self, fname, intparams, pinned_values, ret_texts):
        self.fname = fname
        self.ints = set(intparams)
        self.pinned_values = pinned_values      # text -> coq term (stored into id_to_obj)
        self.ret_texts = ret_texts              # text -> coq term (returned)
        self.n = 0

    def err(self, node, msg):
        raise GenError('managers.py:%s: Server.%s: %s' % (getattr(node, 'lineno', '?'), self.fname, msg))

    def fresh(self):
        self.n += 1
        return 't%d' % self.n

    def subscript(self, e):
        """self.D[k] -> (coq dict accessor, key term)"""
        if not isinstance(e, ast.Subscript):
            self.err(e, 'expected a subscript')
        d = ast.unparse(e.value)
        if d not in DICTS:
            self.err(e, 'subscript of %s' % d)
        if not (isinstance(e.slice, ast.Name) and e.slice.id in self.ints):
            self.err(e, 'key must be a parameter')
        return DICTS[d], 'v_' + e.slice.id

    def zexpr(self, e, binds):
        if isinstance(e, ast.Constant) and type(e.value) is int:
            return '(%d)' % e.value
        if isinstance(e, ast.Name) and e.id in self.ints:
            return 'v_' + e.id
        if isinstance(e, ast.Subscript):
            d, k = self.subscript(e)
            t = self.fresh()
            binds.append((t, d, k))
            return t
        if isinstance(e, ast.BinOp) and type(e.op) in ARITH:
            return '(%s %s %s)' % (self.zexpr(e.left, binds), ARITH[type(e.op)], self.zexpr(e.right, binds))
        self.err(e, 'unsupported integer expression `%s`' % ast.unparse(e))

    def bexpr(self, e, binds):
        if isinstance(e, ast.Compare) and len(e.ops) == 1:
            op, right = e.ops[0], e.comparators[0]
            if isinstance(op, (ast.In, ast.NotIn)):
                d = ast.unparse(right)
                if d not in DICTS or not (isinstance(e.left, ast.Name) and e.left.id in self.ints):
                    self.err(e, 'unsupported membership test')
                t = 'dmem (%s s) v_%s' % (DICTS[d], e.left.id)
                return '(%s)' % t if isinstance(op, ast.In) else '(negb (%s))' % t
            if type(op) in CMP:
                return '(%s %s %s)' % (self.zexpr(e.left, binds), CMP[type(op)], self.zexpr(right, binds))
            if isinstance(op, ast.NotEq):
                return '(negb (%s =? %s))' % (self.zexpr(e.left, binds), self.zexpr(right, binds))
        self.err(e, 'unsupported test `%s`' % ast.unparse(e))

    @staticmethod
    def wrap(binds, body):
        for t, d, k in reversed(binds):
            body = 'rd (%s s) %s s (fun %s =>\n%s)' % (d, k, t, body)
        return body

    def store(self, target, val, rest):
        d, k = self.subscript(target)
        return 'let s := set_%s s (dset (%s s) %s %s) in\n%s' % (d, d, k, val, rest)

    def block(self, stmts, final):
        if not stmts:
            return final
        st, rest = stmts[0], stmts[1:]
        if isinstance(st, ast.With):
            if len(st.items) != 1 or ast.unparse(st.items[0].context_expr) != 'self.mutex' \
                    or st.items[0].optional_vars is not None:
                self.err(st, 'only `with self.mutex:` is supported')
            return self.block(list(st.body) + rest, final)
        if isinstance(st, ast.Expr) and isinstance(st.value, ast.Call):
            fn = ast.unparse(st.value.func)
            if fn in ('util.debug', 'util.info'):
                return self.block(rest, final)
            if ast.unparse(st) == 'self.incref(c, ident)' and self.fname == 'create':
                return 'bindo (incref s v_ident) (fun _ s =>\n%s)' % self.block(rest, final)
            self.err(st, 'call to %s' % fn)
        if isinstance(st, ast.AugAssign):
            if type(st.op) not in ARITH:
                self.err(st, 'unsupported augmented operator')
            binds = []
            cur = self.zexpr(st.target, binds)
            val = '(%s %s %s)' % (cur, ARITH[type(st.op)], self.zexpr(st.value, binds))
            return self.wrap(binds, self.store(st.target, val, self.block(rest, final)))
        if isinstance(st, ast.Assign) and len(st.targets) == 1:
            txt = ast.unparse(st.value)
            binds = []
            d, _ = self.subscript(st.targets[0])
            if d == 'objs':
                if txt not in self.pinned_values:
                    self.err(st, 'value stored into id_to_obj is not the expected entry: %s' % txt)
                val = self.pinned_values[txt]
            else:
                val = self.zexpr(st.value, binds)
            return self.wrap(binds, self.store(st.targets[0], val, self.block(rest, final)))
        if isinstance(st, ast.Assert):
            binds = []
            c = self.bexpr(st.test, binds)
            return self.wrap(binds, 'if %s then\n%s\nelse Exc E_Assertion s' % (c, self.block(rest, final)))
        if isinstance(st, ast.If):
            binds = []
            c = self.bexpr(st.test, binds)
            a = self.block(list(st.body) + rest, final)
            b = self.block(list(st.orelse) + rest, final)
            return self.wrap(binds, 'if %s then\n%s\nelse\n%s' % (c, a, b))
        if isinstance(st, ast.Delete):
            code = self.block(rest, final)
            for tg in reversed(st.targets):
                d, k = self.subscript(tg)
                code = ('if dmem (%s s) %s then\nlet s := set_%s s (ddel (%s s) %s) in\n%s\nelse Exc E_Key s'
                        % (d, k, d, d, k, code))
            return code
        if isinstance(st, ast.Return):
            txt = ast.unparse(st.value) if st.value is not None else 'None'
            if txt not in self.ret_texts:
                self.err(st, 'unexpected return value %s' % txt)
            if rest:
                self.err(st, 'statements after return')
            return 'Ok %s s' % self.ret_texts[txt]
        self.err(st, 'unsupported statement `%s`' % ast.unparse(st).split('\n')[0])


CREATE_HEAD = [norm(x) for x in [
    'callable, exposed, method_to_typeid, proxytype = self.registry[typeid]',
    '''if callable is None:
    assert len(args) == 1 and not kwds
    obj = args[0]
else:
    obj = callable(*args, **kwds)''',
    '''if exposed is None:
    exposed = public_methods(obj)''',
    '''if method_to_typeid is not None:
    assert type(method_to_typeid) is dict
    exposed = list(exposed) + list(method_to_typeid)''',
    "ident = '%x' % id(obj)",
]]


def gen_refcounts(server):
    out = []
    # incref
    fn = find_method(server, 'incref')
    if params(fn) != (['self', 'c', 'ident'], None, None):
        raise GenError('Server.incref: signature changed')
    tr = RcTr('incref', ['ident'], {}, {})
    out.append('Definition incref {E : Type} (s : sst E) (v_ident : Z) : out (sst E) unit :=\n%s.\n'
               % tr.block(strip_doc(fn.body), 'Ok tt s'))
    # decref
    fn = find_method(server, 'decref')
    if params(fn) != (['self', 'c', 'ident'], None, None):
        raise GenError('Server.decref: signature changed')
    tr = RcTr('decref', ['ident'], {}, {})
    out.append('Definition decref {E : Type} (s : sst E) (v_ident : Z) : out (sst E) unit :=\n%s.\n'
               % tr.block(strip_doc(fn.body), 'Ok tt s'))
    # create
    fn = find_method(server, 'create')
    if params(fn) != (['self', 'c', 'typeid'], 'args', 'kwds'):
        raise GenError('Server.create: signature changed')
    body = strip_doc(fn.body)
    if len(body) != 1 or not isinstance(body[0], ast.With) \
            or ast.unparse(body[0].items[0].context_expr) != 'self.mutex':
        raise GenError('Server.create: body is not one `with self.mutex:` block')
    stmts = [s for s in body[0].body
             if not (isinstance(s, ast.Expr) and isinstance(s.value, ast.Call)
                     and ast.unparse(s.value.func) in ('util.debug', 'util.info'))]
    k = next((i for i, s in enumerate(stmts)
              if isinstance(s, ast.Assign) and ast.unparse(s.targets[0]).startswith('self.id_to_')), None)
    if k is None:
        raise GenError('Server.create: no store into the tables found')
    head = [ast.unparse(s) for s in stmts[:k]]
    if head != CREATE_HEAD:
        raise GenError('Server.create: head differs from the modelled one: %r' % (head,))
    tr = RcTr('create', ['ident'],
              {norm('(obj, set(exposed), method_to_typeid)'): 'v_entry'},
              {norm('(ident, tuple(exposed))'): 'v_ident'})
    out.append('Definition create_tail {E : Type} (s : sst E) (v_ident : Z) (v_entry : E) : out (sst E) Z :=\n%s.\n'
               % tr.block(stmts[k:], 'Exc E_Other s'))
    return '\n'.join(out)


# ------------------------------------------------- part 1b: the lock around the tables
# RcTr.block flattens `with self.mutex:` (the translated functions are sequential), so the lock
# -- the only code-level mechanism that makes one incref / decref / create atomic among the
# server's threads -- would be invisible to the translation.  It is checked here, structurally:
# in each of the three functions EVERY access to self.id_to_obj / self.id_to_refcount (stores,
# augmented stores, deletes, and the reads of the check-then-act tests) and every call of
# self.incref / self.decref lies lexically inside a `with self.mutex:` block; the mutex is created
# once, in Server.__init__, as threading.RLock() (create calls incref while it holds the lock);
# no other method of Server stores into / deletes from the tables.
TABLES = ('id_to_obj', 'id_to_refcount')
MUTEX_WITH = 'self.mutex'


def _is_self_attr(n, names):
    return isinstance(n, ast.Attribute) and n.attr in names and isinstance(n.value, ast.Name) \
        and n.value.id == 'self'


def _table_accesses(fn):
    """[(node, locked)] for every table access / incref / decref call in fn"""
    out = []

    def visit(node, locked):
        if isinstance(node, (ast.FunctionDef, ast.AsyncFunctionDef, ast.Lambda)) and node is not fn:
            raise GenError('managers.py:%s: Server.%s: nested function' % (node.lineno, fn.name))
        if isinstance(node, ast.With):
            exprs = [ast.unparse(i.context_expr) for i in node.items]
            if MUTEX_WITH in exprs:
                if exprs != [MUTEX_WITH] or node.items[0].optional_vars is not None:
                    raise GenError('managers.py:%s: Server.%s: only a plain `with self.mutex:` is supported'
                                   % (node.lineno, fn.name))
                for ch in node.body:
                    visit(ch, True)
                return
        if _is_self_attr(node, TABLES) or _is_self_attr(node, ('incref', 'decref')):
            out.append((node, locked))
        if _is_self_attr(node, ('mutex',)):
            # any use of the mutex other than `with self.mutex:` (acquire/release by hand, aliasing)
            raise GenError('managers.py:%s: Server.%s: self.mutex used outside a `with` header'
                           % (node.lineno, fn.name))
        for ch in ast.iter_child_nodes(node):
            visit(ch, locked)
    for st in fn.body:
        visit(st, False)
    return out


def _stores_tables(fn):
    """does fn store into / delete from / rebind one of the tables"""
    for n in ast.walk(fn):
        tgts = []
        if isinstance(n, ast.Assign):
            tgts = n.targets
        elif isinstance(n, (ast.AugAssign, ast.AnnAssign)):
            tgts = [n.target]
        elif isinstance(n, ast.Delete):
            tgts = n.targets
        flat = []
        for t in tgts:
            flat += list(t.elts) if isinstance(t, (ast.Tuple, ast.List)) else [t]
        for t in flat:
            base = t.value if isinstance(t, ast.Subscript) else t
            if _is_self_attr(base, TABLES):
                return True
        # mutating dict methods called on a table
        if isinstance(n, ast.Call) and isinstance(n.func, ast.Attribute) and _is_self_attr(n.func.value, TABLES) \
                and n.func.attr in ('pop', 'popitem', 'clear', 'update', 'setdefault', '__setitem__', '__delitem__'):
            return True
    return False


def gen_mutex(server):
    out = []
    for name in ('incref', 'decref', 'create'):
        fn = find_method(server, name)
        acc = _table_accesses(fn)
        stores = _stores_tables(fn)
        if not acc or not stores:
            raise GenError('Server.%s: no update of id_to_obj / id_to_refcount found' % name)
        ok = all(locked for _, locked in acc)
        out.append('Definition %s_under_mutex : bool := %s.' % (name, 'true' if ok else 'false'))
    init = find_method(server, '__init__')
    made = [ast.unparse(n.value) for n in ast.walk(init)
            if isinstance(n, ast.Assign) and any(_is_self_attr(t, ('mutex',)) for t in n.targets)]
    elsewhere = [fn.name for fn in server.body if isinstance(fn, ast.FunctionDef) and fn.name != '__init__'
                 and any(isinstance(n, (ast.Assign, ast.AugAssign, ast.Delete)) and
                         any(_is_self_attr(t, ('mutex',)) for t in
                             (n.targets if not isinstance(n, ast.AugAssign) else [n.target]))
                         for n in ast.walk(fn))]
    rlock = made == ['threading.RLock()'] and not elsewhere
    out.append('Definition mutex_is_rlock : bool := %s.' % ('true' if rlock else 'false'))
    writers = sorted(fn.name for fn in server.body if isinstance(fn, ast.FunctionDef) and _stores_tables(fn))
    out.append('Definition table_writers : list string := %s.' % cstrs(writers))
    return '\n'.join(out) + '\n'


# ---------------------------------------------------------------- part 2: skeletons
PRIMS = {norm(k): v for k, v in {
    'methodname = obj = None': 'P_init_names',
    'request = recv()': 'P_recv',
    'ident, methodname, args, kwds = request': 'P_unpack',
    'obj, exposed, gettypeid = id_to_obj[ident]': 'P_lookup',
    'function = getattr(obj, methodname)': 'P_getattr',
    'res = function(*args, **kwds)': 'P_call',
    "msg = ('#ERROR', exc)": 'P_msg_error',
    'typeid = gettypeid and gettypeid.get(methodname, None)': 'P_typeid',
    'rident, rexposed = self.create(conn, typeid, res)': 'P_create_proxy',
    'token = Token(typeid, self.address, rident)': 'P_token',
    "msg = ('#PROXY', (rexposed, token))": 'P_msg_proxy',
    "msg = ('#RETURN', res)": 'P_msg_return',
    "msg = ('#TRACEBACK', format_exc())": 'P_msg_traceback',
    'fallback_func = self.fallback_mapping[methodname]': 'P_fallback_lookup',
    'result = fallback_func(self, conn, ident, obj, *args, **kwds)': 'P_fallback_call',
    "msg = ('#RETURN', result)": 'P_msg_return_result',
    'sys.exit(0)': 'P_exit0',
    'sys.exit(1)': 'P_exit1',
    'send(msg)': 'P_send',
    "send(('#UNSERIALIZABLE', repr(msg)))": 'P_send_unser',
    'conn.close()': 'P_conn_close',
    'funcname = result = request = None': 'P_hr_init',
    'connection.deliver_challenge(c, self.authkey)': 'P_deliver',
    'connection.answer_challenge(c, self.authkey)': 'P_answer',
    'request = c.recv()': 'P_hr_recv',
    'ignore, funcname, args, kwds = request': 'P_hr_unpack',
    'func = getattr(self, funcname)': 'P_hr_getattr',
    'result = func(c, *args, **kwds)': 'P_hr_call',
    'c.send(msg)': 'P_hr_send',
    "c.send(('#TRACEBACK', format_exc()))": 'P_hr_send_tb',
    'pass': 'P_pass',
    'c.close()': 'P_hr_close',
}.items()}
CVARS = {'methodname': 'V_methodname', 'exposed': 'V_exposed', 'typeid': 'V_typeid',
         'funcname': 'V_funcname', 'self.public': 'V_public'}
EXN = {'AttributeError': 'E_Attribute', 'KeyError': 'E_Key', 'ValueError': 'E_Value',
       'TypeError': 'E_Type', 'AssertionError': 'E_Assertion', 'EOFError': 'E_EOF'}
HCLASS = {'Exception': 'H_Exception', 'AttributeError': 'H_AttributeError', 'EOFError': 'H_EOFError'}


class SkelTr:
    def __init__(self, fname):
        self.fname = fname

    def err(self, node, msg):
        raise GenError('managers.py:%s: Server.%s: %s' % (getattr(node, 'lineno', '?'), self.fname, msg))

    def cvar(self, e):
        t = ast.unparse(e)
        if t not in CVARS:
            self.err(e, 'name %s not known to the skeleton language' % t)
        return CVARS[t]

    def cond(self, e):
        if isinstance(e, ast.UnaryOp) and isinstance(e.op, ast.Not):
            return '(CNot %s)' % self.cond(e.operand)
        if isinstance(e, ast.Compare) and len(e.ops) == 1:
            op, r = e.ops[0], e.comparators[0]
            if isinstance(op, ast.In):
                return '(CIn %s %s)' % (self.cvar(e.left), self.cvar(r))
            if isinstance(op, ast.NotIn):
                return '(CNotIn %s %s)' % (self.cvar(e.left), self.cvar(r))
            if isinstance(r, ast.Constant) and r.value is None:
                if isinstance(op, ast.Is):
                    return '(CIsNone %s)' % self.cvar(e.left)
                if isinstance(op, ast.IsNot):
                    return '(CIsNotNone %s)' % self.cvar(e.left)
        if isinstance(e, (ast.Name, ast.Attribute)):
            return '(CTruth %s)' % self.cvar(e)
        self.err(e, 'unsupported test `%s`' % ast.unparse(e))

    def stmts(self, body):
        return '[' + '; '.join(self.stmt(s) for s in strip_doc(body)) + ']'

    def stmt(self, st):
        if isinstance(st, ast.Try):
            if st.finalbody:
                self.err(st, 'try/finally not supported')
            hs = []
            for h in st.handlers:
                if h.type is None or ast.unparse(h.type) not in HCLASS:
                    self.err(h, 'unsupported except clause')
                if h.name not in (None, 'exc'):
                    self.err(h, 'unexpected `as %s`' % h.name)
                hs.append('(%s, %s)' % (HCLASS[ast.unparse(h.type)], self.stmts(h.body)))
            return '(STry %s [%s] %s)' % (self.stmts(st.body), '; '.join(hs), self.stmts(st.orelse))
        if isinstance(st, ast.If):
            return '(SIf %s %s %s)' % (self.cond(st.test), self.stmts(st.body), self.stmts(st.orelse))
        if isinstance(st, ast.Raise):
            if st.exc is None or st.cause is not None:
                self.err(st, 'unsupported raise')
            cls = ast.unparse(st.exc.func if isinstance(st.exc, ast.Call) else st.exc)
            if cls not in EXN:
                self.err(st, 'raise of %s' % cls)
            return '(SRaise %s)' % EXN[cls]
        if isinstance(st, ast.Assert):
            return '(SAssert %s)' % self.cond(st.test)
        if isinstance(st, ast.Expr) and isinstance(st.value, ast.Call) \
                and ast.unparse(st.value.func) in ('util.debug', 'util.info'):
            return '(SPrim P_log)'
        txt = ast.unparse(st)
        if txt in PRIMS:
            return '(SPrim %s)' % PRIMS[txt]
        self.err(st, 'statement not in the modelled set: `%s`' % txt.split('\n')[0])


SERVE_PROLOGUE = [norm(x) for x in ['recv = conn.recv', 'send = conn.send', 'id_to_obj = self.id_to_obj']]


def gen_skeletons(server):
    fn = find_method(server, 'serve_client')
    if params(fn) != (['self', 'conn'], None, None):
        raise GenError('Server.serve_client: signature changed')
    body = [s for s in strip_doc(fn.body)
            if not (isinstance(s, ast.Expr) and isinstance(s.value, ast.Call)
                    and ast.unparse(s.value.func) in ('util.debug', 'util.info'))]
    if [ast.unparse(s) for s in body[:-1]] != SERVE_PROLOGUE or not isinstance(body[-1], ast.While):
        raise GenError('Server.serve_client: prologue/loop shape changed')
    loop = body[-1]
    if ast.unparse(loop.test) != 'not self.stop_event.is_set()' or loop.orelse:
        raise GenError('Server.serve_client: loop test changed')
    serve = SkelTr('serve_client').stmts(loop.body)
    fn = find_method(server, 'handle_request')
    if params(fn) != (['self', 'c'], None, None):
        raise GenError('Server.handle_request: signature changed')
    hr = SkelTr('handle_request').stmts(fn.body)
    return ('Definition serve_body : list stmt :=\n  %s.\n\nDefinition hr_body : list stmt :=\n  %s.\n'
            % (serve, hr))


# --------------------------------------------------------- part 3: entry points
def cstr(s):
    if '"' in s:
        raise GenError('cannot render string %r' % s)
    return '"%s"%%string' % s


def cstrs(xs):
    return '[' + '; '.join(cstr(x) for x in xs) + ']'


def gen_callers(tree, server):
    def referers(attr):
        out = []
        for cls in [n for n in tree.body if isinstance(n, ast.ClassDef)]:
            for fn in [n for n in cls.body if isinstance(n, ast.FunctionDef)]:
                for n in ast.walk(fn):
                    if (isinstance(n, ast.Attribute) and n.attr == attr) or \
                            (isinstance(n, ast.Constant) and n.value == attr):
                        out.append(fn.name if cls.name == 'Server' else cls.name + '.' + fn.name)
                        break
        for n in tree.body:
            if isinstance(n, ast.FunctionDef):
                if any(isinstance(x, ast.Attribute) and x.attr == attr for x in ast.walk(n)):
                    out.append(n.name)
        return sorted(set(out))
    public = None
    for n in server.body:
        if isinstance(n, ast.Assign) and ast.unparse(n.targets[0]) == 'public':
            public = ast.literal_eval(n.value)
    if not isinstance(public, list) or not all(isinstance(x, str) for x in public):
        raise GenError('Server.public is not a list of string literals')
    return ('Definition serve_client_callers : list string := %s.\n'
            'Definition handle_request_callers : list string := %s.\n'
            'Definition server_public : list string := %s.\n'
            % (cstrs(referers('serve_client')), cstrs(referers('handle_request')), cstrs(public)))


# ------------------------------------------- part 3b: BaseProxy.__init__ hook placement
HOOK = norm('util.register_after_fork(self, BaseProxy._after_fork)')
INCREF_IF = norm("""if incref:
    self._incref()""")


def gen_proxy_init(tree):
    """the after-fork hook (a proxy built with incref=False takes its reference through it in a
    spawned child) must be registered unconditionally, after the guarded _incref()"""
    fn = find_method(find_class(tree, 'BaseProxy'), '__init__')
    top = [ast.unparse(x) for x in fn.body]
    everywhere = [ast.unparse(x) for x in ast.walk(fn) if isinstance(x, ast.stmt)]
    if HOOK not in everywhere:
        raise GenError('BaseProxy.__init__: register_after_fork(self, BaseProxy._after_fork) not found')
    if INCREF_IF not in everywhere:
        raise GenError('BaseProxy.__init__: `if incref: self._incref()` not found')
    uncond = HOOK in top
    guarded = INCREF_IF in top and (not uncond or top.index(INCREF_IF) < top.index(HOOK))
    return ('Definition after_fork_hook_unconditional : bool := %s.\n'
            'Definition incref_guarded_then_hook : bool := %s.\n'
            % ('true' if uncond else 'false', 'true' if (uncond and guarded) else 'false'))


# ------------------------------------------------------------- part 4: registry
PROBE = r'''
import json, threading
from billiard import managers
from billiard.managers import Server, SyncManager, BaseProxy, BaseManager, AutoProxy, MakeProxyType
class _M(BaseManager):
    pass
_M.register('AList', list)
reg = dict(SyncManager._registry)
reg['AList'] = _M._registry['AList']
srv = Server.__new__(Server)
srv.registry = reg
srv.id_to_obj = {'0': (None, ())}
srv.id_to_refcount = {}
srv.mutex = threading.RLock()
srv.address = None
args = {'list': ([1],), 'dict': ({1: 2},), 'Value': ('i', 3), 'Iterator': (iter([1]),), 'AList': ([1],)}
out = {}
for t, a in args.items():
    ident, exposed = srv.create(None, t, *a)
    stored = srv.id_to_obj[ident]
    assert set(exposed) == stored[1]
    pt = reg[t][3]
    if pt is AutoProxy:          # the class AutoProxy() builds for this exposed set
        pt = MakeProxyType('AutoProxy[%s]' % t, exposed)
    meths = set()
    for c in pt.__mro__:
        if c not in (BaseProxy, object):
            meths |= {k for k, v in vars(c).items() if callable(v)}
    out[t] = dict(exposed=sorted(set(exposed)), m2t=sorted((stored[2] or {}).items()),
                  proxy_methods=sorted(meths), refcount=srv.id_to_refcount[ident],
                  auto=reg[t][3] is AutoProxy, reg_exposed=reg[t][1])
out['fallback'] = sorted(Server.fallback_mapping)
print(json.dumps(out))
'''


def gen_registry(repo):
    env = dict(os.environ, PYTHONPATH=repo, PYTHONHASHSEED='0', PYTHONDONTWRITEBYTECODE='1')
    p = subprocess.run([PY, '-c', PROBE], env=env, stdout=subprocess.PIPE, stderr=subprocess.PIPE,
                       text=True, timeout=120, cwd='/')
    if p.returncode != 0:
        raise GenError('registry probe failed: ' + p.stderr[-600:])
    d = json.loads(p.stdout.strip().split('\n')[-1])
    out = []
    if not d['AList']['auto'] or d['AList']['reg_exposed'] is not None:
        raise GenError('register(typeid, callable) no longer stores (callable, None, None, AutoProxy)')
    for t, nm in (('list', 'list'), ('dict', 'dict'), ('Value', 'value'), ('Iterator', 'iter'),
                  ('AList', 'autolist')):
        if d[t]['m2t']:
            raise GenError('typeid %s now has a method_to_typeid' % t)
        out.append('Definition exposed_%s : list string := %s.' % (nm, cstrs(d[t]['exposed'])))
        out.append('Definition proxy_methods_%s : list string := %s.' % (nm, cstrs(d[t]['proxy_methods'])))
    out.append('Definition fallback_names : list string := %s.' % cstrs(d['fallback']))
    return '\n'.join(out) + '\n'


def generate(repo):
    path = os.path.join(repo, 'billiard', 'managers.py')
    tree = ast.parse(open(path).read())
    server = find_class(tree, 'Server')
    parts = ['(* GENERATED by translate/kernels/manager.py from billiard/managers.py -- do not edit *)',
             'From Coq Require Import String ZArith List Bool.',
             'From BV Require Import Lib.ManagerLib.',
             'Import ListNotations.', 'Open Scope Z_scope.', '',
             gen_refcounts(server), gen_mutex(server), gen_skeletons(server), gen_callers(tree, server), gen_proxy_init(tree),
             gen_registry(repo)]
    return '\n'.join(parts)


KERNELS = []
EXTRA_GENERATORS = {'G_manager': generate}
