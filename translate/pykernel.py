"""pykernel: fail-closed translator from a small Python subset to Gallina.

Each *kernel* is a group of functions/methods of one source file that share a
state record (the attributes they read and write).  The output is a Coq module
coq/Gen/<name>.v over Lib/PyVal.v.  Anything outside the subset raises
TranslateError -- the caller treats that as a broken proof obligation, never as
"skip".

Supported statements: assignment (names, obj.attr, flat tuple targets),
augmented assignment, if/elif/else, return, raise <mapped class>(...), assert,
`with e:` (body only: treated as one atomic section), pass, docstrings, calls
listed in the spec (`calls`), `while c: body` with spec-provided fuel (body may
not rebind locals or return).
Supported expressions: int/bool/None constants, names (locals, parameters,
module-level constants of the same file), obj.attr listed in `state`,
+ - * // % & | << >>, unary - ~ not, comparisons (chained) incl. is/is not
None, in/not in over tuple displays, and/or (value semantics), conditional
expressions, bool()/min()/max(), and any expression whose `ast.unparse` text is
listed in the spec (`exprs`).
"""
import ast
import os


class TranslateError(Exception):
    pass


BINOPS = {
    ast.Add: 'py_add', ast.Sub: 'py_sub', ast.Mult: 'py_mul',
    ast.FloorDiv: 'py_floordiv', ast.Mod: 'py_mod', ast.BitAnd: 'py_band',
    ast.BitOr: 'py_bor', ast.LShift: 'py_lshift', ast.RShift: 'py_rshift',
}
CMPOPS = {
    ast.Lt: 'py_lt', ast.LtE: 'py_le', ast.Gt: 'py_gt', ast.GtE: 'py_ge',
    ast.Eq: 'py_eq', ast.NotEq: 'py_ne',
}


def zlit(n):
    return '(%d)' % n if n < 0 else '%d' % n


def fld(attr):
    """'self._value' -> 'f_self__value'"""
    return 'f_' + attr.replace('.', '_')


class FuncTr:
    def __init__(self, kernel, fspec, fnode, modconsts):
        self.k = kernel
        self.fs = fspec
        self.fn = fnode
        self.modconsts = modconsts
        self.used_consts = kernel.used_consts
        self.tmp = 0
        self.exprs = dict(kernel.spec.get('exprs', {}))
        self.exprs.update(fspec.get('exprs', {}))
        self.calls = dict(kernel.spec.get('calls', {}))
        self.calls.update(fspec.get('calls', {}))
        self.raises = dict(kernel.spec.get('raises', {}))
        self.raises.update(fspec.get('raises', {}))
        self.locals = set()

    def err(self, node, msg):
        raise TranslateError('%s:%s: %s: %s' % (
            self.k.spec['file'], getattr(node, 'lineno', '?'), self.fs['qual'], msg))

    def fresh(self):
        self.tmp += 1
        return 't%d' % self.tmp

    # ------------------------------------------------------------ expressions
    def expr(self, e):
        txt = ast.unparse(e)
        if txt in self.exprs:
            return '(%s)' % self.exprs[txt]
        if isinstance(e, ast.Constant):
            v = e.value
            if v is None:
                return 'PNone'
            if v is True:
                return '(PBool true)'
            if v is False:
                return '(PBool false)'
            if isinstance(v, int):
                return '(PInt %s)' % zlit(v)
            self.err(e, 'unsupported constant %r' % (v,))
        if isinstance(e, ast.Name):
            if e.id in self.locals:
                return 'v_' + e.id
            if e.id in self.modconsts:
                self.used_consts.add(e.id)
                return 'c_' + e.id
            self.err(e, 'unknown name %s' % e.id)
        if isinstance(e, ast.Attribute):
            if txt in self.k.state:
                return '(%s s)' % fld(txt)
            self.err(e, 'attribute %s not in kernel state' % txt)
        if isinstance(e, ast.BinOp):
            op = BINOPS.get(type(e.op))
            if not op:
                self.err(e, 'unsupported operator %s' % type(e.op).__name__)
            return '(%s %s %s)' % (op, self.expr(e.left), self.expr(e.right))
        if isinstance(e, ast.UnaryOp):
            if isinstance(e.op, ast.Not):
                return '(py_not %s)' % self.expr(e.operand)
            if isinstance(e.op, ast.USub):
                return '(py_neg %s)' % self.expr(e.operand)
            if isinstance(e.op, ast.Invert):
                return '(py_invert %s)' % self.expr(e.operand)
            self.err(e, 'unsupported unary operator')
        if isinstance(e, ast.BoolOp):
            fn = 'py_and' if isinstance(e.op, ast.And) else 'py_or'
            vals = [self.expr(v) for v in e.values]
            out = vals[-1]
            for v in reversed(vals[:-1]):
                out = '(%s %s %s)' % (fn, v, out)
            return out
        if isinstance(e, ast.IfExp):
            return '(py_ifexp %s %s %s)' % (
                self.expr(e.test), self.expr(e.body), self.expr(e.orelse))
        if isinstance(e, ast.Compare):
            parts = []
            left = e.left
            for op, right in zip(e.ops, e.comparators):
                parts.append(self.compare(e, left, op, right))
                left = right
            out = parts[-1]
            for p in reversed(parts[:-1]):
                out = '(py_and %s %s)' % (p, out)
            return out
        if isinstance(e, ast.Call) and isinstance(e.func, ast.Name) \
                and not e.keywords:
            if e.func.id == 'bool' and len(e.args) == 1:
                return '(py_bool %s)' % self.expr(e.args[0])
            if e.func.id in ('min', 'max') and len(e.args) == 2:
                return '(py_%s %s %s)' % (
                    e.func.id, self.expr(e.args[0]), self.expr(e.args[1]))
        self.err(e, 'unsupported expression `%s`' % txt)

    def compare(self, node, left, op, right):
        if isinstance(op, (ast.Is, ast.IsNot)):
            if isinstance(right, ast.Constant) and right.value is None:
                fn = 'py_is_none' if isinstance(op, ast.Is) else 'py_is_not_none'
                return '(%s %s)' % (fn, self.expr(left))
            self.err(node, '`is` only supported against None')
        if isinstance(op, (ast.In, ast.NotIn)):
            if isinstance(right, (ast.Tuple, ast.List)):
                fn = 'py_in' if isinstance(op, ast.In) else 'py_not_in'
                return '(%s %s [%s])' % (
                    fn, self.expr(left), '; '.join(self.expr(x) for x in right.elts))
            self.err(node, '`in` only supported over a tuple display')
        fn = CMPOPS.get(type(op))
        if not fn:
            self.err(node, 'unsupported comparison')
        return '(%s %s %s)' % (fn, self.expr(left), self.expr(right))

    # ------------------------------------------------------------- statements
    def assign_to(self, target, valvar, rest, loopbody):
        """code that stores Coq variable `valvar` (non-poison) into target"""
        if isinstance(target, ast.Name):
            if loopbody:
                self.err(target, 'loop body rebinds local %s' % target.id)
            self.locals.add(target.id)
            return 'let v_%s := %s in\n%s' % (target.id, valvar, rest())
        if isinstance(target, ast.Attribute):
            txt = ast.unparse(target)
            if txt not in self.k.state:
                self.err(target, 'assignment to %s: not in kernel state' % txt)
            return 'let s := set_%s s %s in\n%s' % (fld(txt)[2:], valvar, rest())
        self.err(target, 'unsupported assignment target')

    def call_stmt(self, call, bindname, rest):
        fn = ast.unparse(call.func)
        if fn not in self.calls:
            self.err(call, 'call to %s not listed in the kernel spec' % fn)
        if call.keywords:
            self.err(call, 'keyword arguments unsupported')
        names = []
        code = ''
        closes = ''
        for a in call.args:
            t = self.fresh()
            names.append(t)
            code += 'bindv %s s (fun %s =>\n' % (self.expr(a), t)
            closes += ')'
        code += 'bindo (%s s [%s]) (fun %s s =>\n%s)' % (
            self.calls[fn], '; '.join(names), bindname, rest())
        return code + closes

    def block(self, stmts, loopbody=False):
        """translate a statement list; falls through to Ok PNone / Ok tt"""
        if not stmts:
            return 'Ok tt s' if loopbody else 'Ok PNone s'
        st, rest_stmts = stmts[0], stmts[1:]
        saved = set(self.locals)

        def rest():
            return self.block(rest_stmts, loopbody)

        if isinstance(st, ast.Pass):
            return rest()
        if isinstance(st, ast.Expr):
            if isinstance(st.value, ast.Constant) and isinstance(st.value.value, str):
                return rest()
            if isinstance(st.value, ast.Call):
                return self.call_stmt(st.value, '_', rest)
            self.err(st, 'unsupported expression statement')
        if isinstance(st, ast.Assign):
            if len(st.targets) != 1:
                self.err(st, 'chained assignment unsupported')
            tgt = st.targets[0]
            if isinstance(tgt, ast.Tuple):
                if not (isinstance(st.value, ast.Tuple)
                        and len(st.value.elts) == len(tgt.elts)):
                    self.err(st, 'tuple assignment needs a tuple display of equal length')
                tmps = [self.fresh() for _ in tgt.elts]
                # evaluate right-hand sides first (in the *old* state), then store
                vals = [self.expr(v) for v in st.value.elts]

                def stores(i):
                    if i == len(tmps):
                        return rest()
                    return self.assign_to(tgt.elts[i], tmps[i], lambda: stores(i + 1), loopbody)
                code = ''
                for t, v in zip(tmps, vals):
                    code += 'bindv %s s (fun %s =>\n' % (v, t)
                return code + stores(0) + ')' * len(tmps)
            if isinstance(st.value, ast.Call) and ast.unparse(st.value.func) in self.calls \
                    and ast.unparse(st.value) not in self.exprs:
                if not isinstance(tgt, ast.Name) or loopbody:
                    self.err(st, 'call result must be bound to a local outside loops')
                self.locals.add(tgt.id)
                return self.call_stmt(st.value, 'v_' + tgt.id, rest)
            t = self.fresh()
            val = self.expr(st.value)
            return 'bindv %s s (fun %s =>\n%s)' % (
                val, t, self.assign_to(tgt, t, rest, loopbody))
        if isinstance(st, ast.AugAssign):
            op = BINOPS.get(type(st.op))
            if not op:
                self.err(st, 'unsupported augmented operator')
            t = self.fresh()
            val = '(%s %s %s)' % (op, self.expr(st.target), self.expr(st.value))
            return 'bindv %s s (fun %s =>\n%s)' % (
                val, t, self.assign_to(st.target, t, rest, loopbody))
        if isinstance(st, ast.If):
            c = self.expr(st.test)
            self.locals = set(saved)
            a = self.block(list(st.body) + rest_stmts, loopbody)
            self.locals = set(saved)
            b = self.block(list(st.orelse) + rest_stmts, loopbody)
            self.locals = set(saved)
            return 'if_truth %s s\n(%s)\n(%s)' % (c, a, b)
        if isinstance(st, ast.Return):
            if loopbody:
                self.err(st, 'return inside a loop body unsupported')
            if st.value is None:
                return 'Ok PNone s'
            if isinstance(st.value, ast.Call) and ast.unparse(st.value.func) in self.calls \
                    and ast.unparse(st.value) not in self.exprs:
                return self.call_stmt(st.value, 'r', lambda: 'Ok r s')
            return 'bindv %s s (fun r => Ok r s)' % self.expr(st.value)
        if isinstance(st, ast.Raise):
            if st.exc is None:
                self.err(st, 'bare raise unsupported')
            cls = st.exc.func if isinstance(st.exc, ast.Call) else st.exc
            name = ast.unparse(cls)
            if name not in self.raises:
                self.err(st, 'raise of %s not listed in the kernel spec' % name)
            return 'Exc %s s' % self.raises[name]
        if isinstance(st, ast.Assert):
            return 'if_truth %s s\n(%s)\n(Exc AssertionError s)' % (
                self.expr(st.test), rest())
        if isinstance(st, ast.With):
            # `with lock:` -- the body is one atomic section of the model
            for item in st.items:
                if item.optional_vars is not None:
                    self.err(st, '`with ... as` unsupported')
                txt = ast.unparse(item.context_expr)
                if txt not in self.k.spec.get('atomic_with', ()) \
                        and txt not in self.fs.get('atomic_with', ()):
                    self.err(st, '`with %s` not declared atomic in the kernel spec' % txt)
            return self.block(list(st.body) + rest_stmts, loopbody)
        if isinstance(st, ast.While):
            if st.orelse:
                self.err(st, 'while/else unsupported')
            fuel = self.fs.get('while_fuel')
            if not fuel:
                self.err(st, 'while loop without fuel in the kernel spec')
            c = self.expr(st.test)
            body = self.block(list(st.body), True)
            return ('bindo (while_loop (%s) (fun s => %s)\n(fun s => %s) s)\n'
                    '(fun _ s =>\n%s)' % (fuel, c, body, rest()))
        self.err(st, 'unsupported statement %s' % type(st).__name__)

    def translate(self):
        args = self.fn.args
        if args.vararg or args.kwarg or args.kwonlyargs:
            self.err(self.fn, 'varargs unsupported')
        pnames = [a.arg for a in args.args if a.arg not in ('self', 'cls')]
        want = self.fs.get('params')
        if want is not None and pnames != want:
            self.err(self.fn, 'signature changed: %r, spec says %r' % (pnames, want))
        self.locals = set(pnames)
        extra = self.fs.get('extra_params', [])
        body = self.block(list(self.fn.body))
        ps = ''.join(' (v_%s : pv)' % p for p in pnames)
        ps += ''.join(' (%s : pv)' % p for p in extra)
        return 'Definition %s (s : st)%s : outcome st pv :=\n%s.\n' % (
            self.fs['coqname'], ps, body)


def find_func(tree, qual):
    node = tree
    for part in qual.split('.'):
        found = None
        # search direct and nested bodies (methods may sit under `if PY3:`)
        stack = list(ast.iter_child_nodes(node))
        while stack:
            ch = stack.pop(0)
            if isinstance(ch, (ast.FunctionDef, ast.ClassDef)) and ch.name == part:
                found = ch
                break
            if isinstance(ch, (ast.If, ast.Try, ast.With, ast.For, ast.While)):
                stack = list(ast.iter_child_nodes(ch)) + stack
        if found is None:
            raise TranslateError('anchor %s not found (at %s)' % (qual, part))
        node = found
    if not isinstance(node, ast.FunctionDef):
        raise TranslateError('anchor %s is not a function' % qual)
    return node


def module_consts(tree):
    """module-level NAME = <int/bool/None constant expression>; last one wins"""
    out = {}

    def ev(e):
        if isinstance(e, ast.Constant) and (e.value is None or isinstance(e.value, (int, bool))):
            return e.value
        if isinstance(e, ast.UnaryOp) and isinstance(e.op, ast.USub):
            v = ev(e.operand)
            return -v
        if isinstance(e, ast.BinOp) and type(e.op) in (ast.Add, ast.Sub, ast.Mult, ast.LShift):
            a, b = ev(e.left), ev(e.right)
            return {ast.Add: a + b, ast.Sub: a - b, ast.Mult: a * b,
                    ast.LShift: a << b}[type(e.op)]
        if isinstance(e, ast.Name) and e.id in out:
            return out[e.id]
        raise ValueError

    for st in tree.body:
        if isinstance(st, ast.Assign) and len(st.targets) == 1 \
                and isinstance(st.targets[0], ast.Name):
            try:
                out[st.targets[0].id] = ev(st.value)
            except (ValueError, TypeError):
                out.pop(st.targets[0].id, None)
    return out


class Kernel:
    def __init__(self, spec, repo):
        self.spec = spec
        self.repo = repo
        self.state = list(spec.get('state', []))
        self.used_consts = set()

    def generate(self):
        path = os.path.join(self.repo, self.spec['file'])
        with open(path) as fh:
            src = fh.read()
        tree = ast.parse(src)
        consts = module_consts(tree)
        consts.update(self.spec.get('const_override', {}))
        for c in self.spec.get('consts', []):
            if c not in consts:
                raise TranslateError('%s: module constant %s not found or not a literal'
                                     % (self.spec['file'], c))
            self.used_consts.add(c)
        defs = []
        for fs in self.spec['funcs']:
            fn = find_func(tree, fs['qual'])
            defs.append(FuncTr(self, fs, fn, consts).translate())
        out = ['(* GENERATED by translate/pykernel.py from %s -- do not edit *)' % self.spec['file'],
               'From Coq Require Import ZArith List Bool.',
               'From BV Require Import Lib.PyVal.',
               'Import ListNotations.', 'Open Scope Z_scope.', '']
        for c in sorted(self.used_consts):
            v = consts[c]
            if v is None:
                t = 'PNone'
            elif isinstance(v, bool):
                t = 'PBool %s' % ('true' if v else 'false')
            else:
                t = 'PInt %s' % zlit(v)
            out.append('Definition c_%s : pv := %s.' % (c, t))
        out.append('')
        if self.state:
            fields = [fld(a) for a in self.state]
            out.append('Record st := mk_st { %s }.' % '; '.join('%s : pv' % f for f in fields))
            for f in fields:
                out.append('Definition set_%s (s : st) (v : pv) : st :=\n  mk_st %s.' % (
                    f[2:], ' '.join('v' if g == f else '(%s s)' % g for g in fields)))
            out.append('Definition st_eqb (a b : st) : bool :=\n  %s.' % ' && '.join(
                'pv_eqb (%s a) (%s b)' % (f, f) for f in fields))
        else:
            out.append('Definition st := unit.')
            out.append('Definition st_eqb (a b : st) : bool := true.')
        out.append('')
        if self.spec.get('prelude'):
            out.append(self.spec['prelude'])
            out.append('')
        out.extend(defs)
        return '\n'.join(out) + '\n'


def generate_all(specs, repo, outdir):
    """returns {name: None | error string}; writes files only when changed"""
    os.makedirs(outdir, exist_ok=True)
    res = {}
    for spec in specs:
        path = os.path.join(outdir, spec['name'] + '.v')
        try:
            text = Kernel(spec, repo).generate()
        except (TranslateError, SyntaxError, OSError) as exc:
            res[spec['name']] = str(exc)
            # leave a file that cannot compile, so stale output is never used
            text = '(* translation failed: %s *)\nDefinition translation_failed : False := I.\n' % (
                str(exc).replace('*)', '* )'))
        else:
            res[spec['name']] = None
        old = None
        if os.path.exists(path):
            with open(path) as fh:
                old = fh.read()
        if old != text:
            with open(path, 'w') as fh:
                fh.write(text)
    return res
