"""C20: operations through proxies of thread-affine referents (RLock, Condition, Lock owner checks)
behave like the local objects ACROSS the release of other proxies by the same thread: a real
SyncManager, one client thread that holds a managed RLock / Condition / is inside a managed
Semaphore, drops an unrelated proxy (its last reference), other clients talk to the server in
between, and then the holder goes on.  Each scenario is run on the proxies and on local twins
(threading objects); outcomes are compared.  stdout (last line): JSON list of results."""
import gc
import json
import os
import sys
import threading


KEEP = []      # client threads that stay connected (and their stop events)


def other_clients(m, n=2):
    """n fresh client connections (threads) that do one operation and STAY connected, holding a
    proxy, until the run is over: server-side thread identities move on and are not reused"""
    for _ in range(n):
        ready, stop = threading.Event(), threading.Event()

        def work():
            lst = m.list([1])
            lst.append(2)
            ready.set()
            stop.wait(60)
            del lst
        t = threading.Thread(target=work, daemon=True)
        t.start()
        ready.wait(10)
        KEEP.append((t, stop))


def scenario(kind, mk_lock, mk_cond, mk_tmp, between):
    """returns the list of outcomes of the holder's operations"""
    out = []

    def step(name, fn):
        try:
            out.append([name, 'ok', repr(fn())[:40]])
        except BaseException as exc:      # noqa
            out.append([name, 'raised', type(exc).__name__])
    if kind == 'rlock':
        lk = mk_lock()
        step('acquire', lk.acquire)
        step('acquire-again', lk.acquire)
        tmp = mk_tmp()
        step('tmp-op', lambda: tmp.update({'a': 1}))
        del tmp
        gc.collect()
        between()
        step('release', lk.release)
        step('release-outer', lk.release)
        got = []
        t = threading.Thread(target=lambda: got.append(lk.acquire(True, 3)))
        t.start()
        t.join(10)
        out.append(['other-thread-acquires', 'ok', repr(got)])
    elif kind == 'condition':
        cv = mk_cond()
        step('enter', cv.acquire)
        tmp = mk_tmp()
        step('tmp-op', lambda: tmp.update({'b': 2}))
        del tmp
        gc.collect()
        between()
        step('notify', cv.notify)
        step('notify_all', cv.notify_all)
        step('exit', cv.release)
    elif kind == 'rlock-many':
        lk = mk_lock()
        step('acquire', lk.acquire)
        for k in range(3):
            tmp = mk_tmp()
            step('tmp-op-%d' % k, lambda: tmp.update({k: k}))
            del tmp
            gc.collect()
            between()
        step('release', lk.release)
    return out


def undecodable_after(m, first):
    """one client connection: `first` (a call answered by the server's fallback, or an ordinary one), then
    an operation whose argument the server cannot unpickle (a class the server process does not know).
    The operation either takes effect or raises: it is never dropped with a made-up return value."""
    out = {}
    lst = m.list()
    dct = m.dict()
    Late = type('LateDefinedClass_%d' % os.getpid(), (object,), {'__module__': '__main__'})
    import __main__
    setattr(__main__, Late.__name__, Late)          # picklable here, unknown to the server process
    for name, target, op in (('list.append', lst, lambda: lst.append(Late())),
                             ('dict.__setitem__', dct, lambda: dct.__setitem__('k', Late()))):
        if first == 'str':
            str(target)
        elif first == 'repr':
            repr(target)
        elif first == 'getvalue':
            target._getvalue()
        elif first == 'len':
            len(target)
        try:
            ret = op()
            outcome = ['returned', repr(ret)[:40]]
        except BaseException as exc:      # noqa
            outcome = ['raised', type(exc).__name__]
        out[name] = dict(outcome=outcome, size_after=len(target))
    return out


def main():
    spec = json.load(sys.stdin)
    import billiard
    from billiard.managers import SyncManager
    wd = threading.Timer(120, lambda: os._exit(3))
    wd.daemon = True
    wd.start()
    m = SyncManager(authkey=b'k' * 16)
    m.start()
    res = []
    try:
        for kind in spec.get('kinds', ['rlock', 'condition', 'rlock-many']):
            for others in (0, 2):
                got = scenario(kind, m.RLock, m.Condition, m.dict, (lambda: other_clients(m, others)) if others else (lambda: None))
                want = scenario(kind, threading.RLock, threading.Condition, dict, lambda: None)
                res.append(dict(kind=kind, other_clients=others, proxy=got, local=want))
                for t, stop in KEEP:
                    stop.set()
                for t, stop in KEEP:
                    t.join(10)
                del KEEP[:]
        for first in ('none', 'len', 'str', 'repr', 'getvalue'):
            res.append(dict(kind='undecodable-after', first=first, ops=undecodable_after(m, first)))
    finally:
        sys.stdout.write('\n' + json.dumps(res) + '\n')
        sys.stdout.flush()
        try:
            m.shutdown()
        except BaseException:      # noqa
            pass
        os._exit(0)


if __name__ == '__main__':
    main()
