"""Client functions of the C17 world.  They are executed by harness/c17_driver.py on billiard's
REAL Condition / Event / Lock / RLock / Semaphore / BoundedSemaphore objects (over the fake
_semlock of harness/detsched.py) AND compiled, together with every billiard method they call,
into coq/Gen/P_cond.v by translate/kernels/semprog.py.  Keep them inside the translator's subset.

Parameter names are significant for the translator: cond, ev, usem, ubsem, ulock, urlock are
the objects; `timeout` (None or a number) and `block` are the flag arguments.
"""


def c_wait(cond, timeout):
    with cond:
        return cond.wait(timeout)


def c_notify(cond):
    with cond:
        cond.notify()


def c_notify_all(cond):
    with cond:
        cond.notify_all()


def e_is_set(ev):
    return ev.is_set()


def e_set(ev):
    ev.set()


def e_clear(ev):
    ev.clear()


def e_wait(ev, timeout):
    return ev.wait(timeout)


def u_acquire(usem, block, timeout):
    return usem.acquire(block, timeout)


def u_release(usem):
    usem.release()


def ub_acquire(ubsem, block, timeout):
    return ubsem.acquire(block, timeout)


def ub_release(ubsem):
    ubsem.release()


def ul_acquire(ulock, block, timeout):
    return ulock.acquire(block, timeout)


def ul_release(ulock):
    ulock.release()


def ur_acquire(urlock, block, timeout):
    return urlock.acquire(block, timeout)


def ur_release(urlock):
    urlock.release()


def c_wait2(cond, timeout):
    # recursion depth 2: only meaningful when the condition's lock is an RLock
    with cond:
        with cond:
            return cond.wait(timeout)
