"""State-aware random generation of pool histories (runs inside the driver so that
references to jobs and pids are valid and most events are meaningful)."""
import random

import billiard.pool as bp


class Gen:
    def __init__(self, case, seed, focus):
        self.c = case
        self.rng = random.Random(seed)
        self.focus = focus or {}

    def weights(self):
        w = dict(apply=10, ack=12, ready=12, exit=4, tick=9, advance=8, scan=5, map=2, imap=2, imapu=1,
                 feed=4, stale_ack=0.7, stale_ready=0.7, death=0.7, junk=0.5, discard=0.7, terminate_job=1.5,
                 grow=1, shrink=1, close=0.3, tick_close=0.6, join_shutdown=0.8, applyq=2.5, apply_unsendable=0.8, next=2.5, dup_ready=1.0, scan_block=2.5, advance_deadline=6)
        w.update(self.focus)
        return w

    def procs(self):
        return self.c.all_procs()

    def live(self):
        return [w.ref for w in self.c.pool._pool if w._exit is None]

    def pick_pid(self):
        rng = self.rng
        live = self.live()
        r = rng.random()
        if live and r < 0.8:
            return rng.choice(live)
        inpool = [w.ref for w in self.c.pool._pool]
        if inpool and r < 0.9:
            return rng.choice(inpool)
        return rng.randrange(len(self.procs()))

    def pick_job(self, pred=None):
        jobs = self.c.jobs
        idx = [k for k, j in enumerate(jobs) if pred is None or pred(k, j)]
        if not idx:
            return None
        # prefer recent jobs
        if self.rng.random() < 0.6:
            return idx[-1 - min(len(idx) - 1, int(self.rng.expovariate(0.8)))]
        return self.rng.choice(idx)

    def nparts(self, j):
        if isinstance(j, bp.MapResult):
            return j._number_left if not j.ready() else 1, (j._length + j._chunksize - 1) // j._chunksize if j._chunksize > 0 else 0
        return None

    def part_index(self, j):
        rng = self.rng
        if isinstance(j, bp.MapResult):
            n = (j._length + j._chunksize - 1) // j._chunksize if j._chunksize > 0 else 0
            return rng.randrange(0, n + 1) if rng.random() < 0.1 else rng.randrange(0, max(1, n))
        if isinstance(j, bp.IMapIterator):
            n = j._length if j._length is not None else 5
            if rng.random() < 0.6:
                return j._index if rng.random() < 0.7 else j._index + rng.randrange(0, 3)
            return rng.randrange(0, max(1, n + 1))
        return None

    def deadlines(self):
        """times at which something is due in the real pool: (time, what follows best)"""
        p = self.c.pool
        out = []
        for j in list(p._cache.values()):
            t = getattr(j, '_time_accepted', None)
            if isinstance(t, (int, float)) and t:
                so = j._soft_timeout if j._soft_timeout is not None else p.soft_timeout
                ha = j._timeout if j._timeout is not None else p.timeout
                if so:
                    out.append((t + so, 'scan'))
                if ha:
                    out.append((t + ha, 'scan'))
            wl = getattr(j, '_worker_lost', None)
            if wl and not j.ready():
                out.append((wl[0] + j._lost_worker_timeout + 1, 'tick'))
        rs = p.restart_state
        if rs.T:
            out.append((rs.T + rs.maxT, 'tick'))
        now = bp.monotonic()
        return [(int(t), f) for t, f in out if t > now - 1]

    def one(self):
        rng = self.rng
        hint = getattr(self, 'hint', None)
        self.hint = None
        if hint and rng.random() < 0.8:
            if hint == 'scan':
                return ['scan', rng.random() < 0.3] if rng.random() < 0.7 else self.one_of('scan_block')
            return ['tick']
        w = self.weights()
        k = rng.choices(list(w), list(w.values()))[0]
        return self.one_of(k)

    def one_of(self, k):
        rng = self.rng
        c = self.c
        if k == 'advance_deadline':
            dl = self.deadlines()
            if not dl:
                return ['advance', rng.choice([1, 2, 3])]
            t, follow = rng.choice(dl)
            dt = int(t - bp.monotonic()) + rng.choice([0, 0, 0, 0, -1, 1])
            if dt < 1:
                dt = 1
            self.hint = follow
            return ['advance', dt]
        if k == 'apply':
            return ['apply', rng.choice([None, None, None, 0, 2, 4]), rng.choice([None, None, None, 0, 3, 6]),
                    rng.choice([None, None, None, 3]), rng.choice([None, None, None, True, False])]
        if k == 'applyq':
            return ['applyq', rng.choice([None, None, None, 0, 2, 4]), rng.choice([None, None, None, 0, 3, 6]),
                    rng.choice([None, None, None, 3]), rng.choice([None, None, None, True, False])]
        if k == 'apply_unsendable':
            return ['apply_unsendable', rng.choice([None, None, True, False])]
        if k == 'map':
            return ['map', rng.choice([0, 1, 2, 3, 4, 5]), rng.choice([1, 1, 2, 3])]
        if k in ('imap', 'imapu'):
            return [k, rng.choice([0, 1, 2, 3, 4])]
        if k == 'feed':
            r = rng.random()
            if r < 0.8:
                return ['feed']
            return ['feed', rng.randrange(0, 4), 'err' if r < 0.97 else 'io']
        if k == 'ack':
            # mostly: a job not yet acknowledged, by a live worker
            j = self.pick_job(lambda k, j: not j.ready()) if rng.random() < 0.8 else self.pick_job()
            if j is None:
                return None
            return ['ack', j, self.part_index(c.jobs[j]), self.pick_pid()]
        if k == 'ready':
            j = self.pick_job(lambda k, j: j._job in c.pool._cache and bool(j.worker_pids())) \
                if rng.random() < 0.75 else self.pick_job()
            if j is None:
                return None
            return ['ready', j, self.part_index(c.jobs[j]), rng.random() < 0.8, rng.randrange(100)]
        if k == 'scan_block':
            # one scan, paused between the jobs of its snapshot, other threads' events in between
            if c.pool._timeout_handler is None:
                return ['scan', False]
            n = len(c.pool._cache)
            block = [['scan_begin']]
            for _ in range(n + (1 if rng.random() < 0.2 else 0)):
                if rng.random() < 0.55:
                    for _ in range(rng.choice([1, 1, 2])):
                        mid = None
                        for _ in range(10):
                            kind = rng.choices(['ready', 'ack', 'advance', 'exit', 'tick', 'discard', 'apply', 'stale_ready'],
                                               [10, 5, 3, 2, 2, 1, 2, 1])[0]
                            saved = self.focus
                            self.focus = {q: (1 if q == kind else 0) for q in self.weights()}
                            try:
                                mid = self.one()
                            finally:
                                self.focus = saved
                            if mid is not None and not isinstance(mid[0], list):
                                break
                            mid = None
                        if mid is not None:
                            block.append(mid)
                block.append(['scan_step', rng.random() < 0.3])
            block.append(['scan_end'])
            return block
        if k == 'dup_ready':
            # a second result message for a job that is resolved but still cached
            j = self.pick_job(lambda k, j: j._job in c.pool._cache and j.ready())
            if j is None:
                return None
            return ['ready', j, self.part_index(c.jobs[j]), rng.random() < 0.7, rng.randrange(100)]
        if k == 'discard':
            j = self.pick_job(lambda k, j: isinstance(j, bp.ApplyResult) and not isinstance(j, bp.MapResult))
            return None if j is None else ['discard', j]
        if k == 'next':
            j = self.pick_job(lambda k, j: isinstance(j, bp.IMapIterator))
            return None if j is None else ['next', j]
        if k == 'stale_ack':
            return ['stale_ack', self.pick_pid()]
        if k == 'stale_ready':
            return ['stale_ready', rng.random() < 0.5]
        if k == 'death':
            return ['death', self.pick_pid(), rng.choice([0, 1, 155])]
        if k == 'junk':
            return ['junk']
        if k == 'exit':
            live = self.live()
            if not live:
                return None
            return ['exit', rng.choice(live), rng.choice([0, 155, 1, 70, -9, -11, -15, -6, 2, -35, -63, -34, 255, 3, -2])]
        if k == 'tick':
            return ['tick']
        if k == 'join_shutdown':
            return ['join_shutdown']
        if k == 'tick_close':
            return ['tick_close', rng.choice([0, 0, 0, 1, 1, 2])]
        if k == 'advance':
            return ['advance', rng.choice([1, 1, 2, 3, 5, 10, 11])]
        if k == 'scan':
            return ['scan', rng.random() < 0.3]
        if k == 'terminate_job':
            return ['terminate_job', self.pick_pid(), rng.choice([None, None, 15, 9, 10])]
        if k == 'grow':
            return ['grow', rng.choice([1, 1, 2])]
        if k == 'shrink':
            return ['shrink', rng.choice([1, 1, 2])]
        if k == 'close':
            return ['close']
        raise ValueError(k)

    def next_event(self):
        for _ in range(50):
            e = self.one()
            if e is not None:
                return e
        return ['tick']
