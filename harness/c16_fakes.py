"""Scheduler-aware stand-ins for what billiard.queues takes from `threading` and from its pipe.

billiard.queues.Queue uses, per process, a `threading.Condition(threading.Lock())` (`_notempty`),
a `threading.Thread` running `Queue._feed`, and the bound methods `_send_bytes / _recv_bytes /
_poll` of a connection pair.  Under harness/detsched.py these are replaced by:

  TLock    a lock over a fake semaphore (kind SEMAPHORE, 1, 1): acquire/release are yield points
  TCond    threading.Condition over a TLock, written with semaphore operations only (this text
           is ALSO what translate/kernels/semprog.py compiles into the model: wait / notify):
               wait():    waiters += 1; lock.release(); ns.acquire(); lock.acquire()
               notify():  if waiters: waiters -= 1; ns.release()
           TRUSTED: that this is an adequate model of threading.Condition for one waiter
           (the feeder) and notify() callers holding the lock.
  TThread  start() hands `target(*args)` to the scheduler as the feeder logical thread of the CALLING main
           thread (slot caller + 1): several main threads of one process share one queue object, and each
           _start_thread they run starts its own feeder thread
  SDeque   collections.deque whose clear() -- called only by Queue._start_thread -- is a yield point: a main
           thread that has decided to start the feeder parks there, so whatever the code lets happen between
           the test `self._thread is None` and the start can be scheduled
  pipe     send_bytes / recv_bytes / poll are yield points on the scheduler's message list
  clock    billiard.queues.monotonic() returns an opaque reading; `reading + timeout` is a deadline and
           `deadline - reading` (the remaining time of a timed get) is a yield point at which the
           scheduler decides whether the deadline has passed (-1.0) or not (the whole timeout)
  Unpicklable  an int whose pickling raises: what Queue.put accepts and the feeder cannot serialise
"""
import collections
import pickle

import detsched
from detsched import FakeSemLock, SEMAPHORE, SEM_VALUE_MAX


class TLock:
    def __init__(self):
        self._semlock = FakeSemLock(SEMAPHORE, 1, 1)

    def acquire(self):
        return self._semlock.acquire()

    def release(self):
        self._semlock.release()

    def __enter__(self):
        return self._semlock.acquire()

    def __exit__(self, *a):
        self._semlock.release()


class TCond:
    def __init__(self, lock=None):
        self._lock = lock if lock is not None else TLock()
        self._ns = FakeSemLock(SEMAPHORE, 0, SEM_VALUE_MAX)
        self._waiters = 0

    def acquire(self):
        return self._lock.acquire()

    def release(self):
        self._lock.release()

    def __enter__(self):
        return self._lock.acquire()

    def __exit__(self, *a):
        self._lock.release()

    def wait(self):
        self._waiters += 1
        self._lock.release()
        self._ns.acquire()
        self._lock.acquire()

    def notify(self):
        if self._waiters:
            self._waiters -= 1
            self._ns.release()


class TThread:
    """threading.Thread as used by Queue._start_thread"""
    current_proc = None          # set by the driver around each logical step: process of the caller

    def __init__(self, group=None, target=None, name=None, args=(), kwargs=None, daemon=None):
        self._target, self._args, self.name = target, args, name
        self.daemon = daemon

    def start(self):
        sched = detsched.Scheduler.current
        caller = sched.running
        feeder = sched.threads[caller.idx + 1]       # main thread 2p, feeder 2p+1
        assert feeder.dormant, 'feeder started twice'
        target, args = self._target, self._args
        sched.activate(feeder, lambda t: target(*args))

    def join(self, timeout=None):
        pass

    def is_alive(self):
        return True


class SDeque(collections.deque):
    """the feeder buffer: clear() is the yield point of Queue._start_thread (event (t, 102, 7, #items dropped))"""
    def clear(self):
        def perform():
            n = len(self)
            collections.deque.clear(self)
            return n
        detsched.Scheduler.current.start_op(perform)


class FakeCollectionsModule:
    """what billiard.queues references as `collections`"""
    deque = SDeque


class FakeThreadingModule:
    """what billiard.queues references as `threading`"""
    Lock = TLock
    Condition = TCond
    Thread = TThread


def pipe_methods():
    """(send_bytes, recv_bytes, poll) bound to the current scheduler's pipe"""
    def send_bytes(buf, *a):
        detsched.Scheduler.current.pipe_op('send', bytes(buf))

    def recv_bytes(*a):
        return detsched.Scheduler.current.pipe_op('recv')

    def poll(timeout=0.0):
        timed = timeout is not None and timeout > 0
        return detsched.Scheduler.current.pipe_op('poll', None, timed)
    return send_bytes, recv_bytes, poll


class Now:
    """a reading of the logical clock; only its difference with a Deadline is observable"""
    def __add__(self, timeout):
        return Deadline(timeout)
    __radd__ = __add__


class Deadline:
    def __init__(self, timeout):
        self.timeout = timeout

    def __sub__(self, other):
        if isinstance(other, Now):
            return detsched.Scheduler.current.clock_op(self.timeout)
        return NotImplemented


def fake_monotonic():
    return Now()


UNPICKLABLE = 1000          # messages >= this are put as objects that cannot be pickled (QueueProg.UNPICKLABLE)


class Unpicklable(int):
    def __reduce_ex__(self, protocol):
        raise pickle.PicklingError('cannot pickle message %d' % int(self))


def message(m):
    return Unpicklable(m) if m >= UNPICKLABLE else m


def decode(b):
    return pickle.loads(b)


class NoFinalize:
    def __init__(self, *a, **k):
        pass

    def cancel(self):
        pass

    def __call__(self, *a, **k):
        pass


def install():
    """point billiard.queues at the fakes (once per process)"""
    detsched.install()
    import billiard.queues as bq
    if getattr(bq, '_detsched_fake', False):
        return
    bq.threading = FakeThreadingModule
    bq.collections = FakeCollectionsModule
    bq.Finalize = NoFinalize
    bq.register_after_fork = lambda *a, **k: None
    bq.debug = lambda *a, **k: None
    bq.info = lambda *a, **k: None
    bq.error = lambda *a, **k: True        # "error in queue thread": logged, not printed
    bq.is_exiting = lambda: False
    bq.monotonic = fake_monotonic
    bq._detsched_fake = True
    detsched.Scheduler.decode = staticmethod(decode)
