"""Targets of harness/nested_driver.py (importable, so that spawn / forkserver children can unpickle them)."""
import os
import signal
import sys
import time


def leaf(how):
    if how == 'exit3':
        sys.exit(3)
    if how == 'kill9':
        os.kill(os.getpid(), signal.SIGKILL)
        time.sleep(10)
    return None


def middle(inner_method, conn):
    import billiard
    ctx = billiard.get_context(inner_method)
    out = []
    for how in ('exit3', 'return', 'kill9'):
        p = ctx.Process(target=leaf, args=(how,))
        p.start()
        p.join(20)
        out.append(dict(how=how, exitcode=p.exitcode, alive=p.is_alive(),
                        listed=any(c.pid == p.pid for c in billiard.active_children())))
    conn.send(out)
    conn.close()
