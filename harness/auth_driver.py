"""Drive the REAL billiard.connection authentication code (C18).

stdin : JSON {"cases": [...], "digestmod": "md5", "aux": bool, "norm": [[key hex, msg hex], ...]}
stdout: last line = JSON {"results": [...], "aux": {...}, "norm": [...]}

A case:
  kind      'honest' (real Listener.accept against real Client, two threads)
            'peerL'  (real Listener.accept against a scripted peer)
            'peerC'  (real Client against a scripted peer)
  transport 'pipe'   SocketListener/SocketClient replaced by the two ends of a real
                     billiard.connection.Pipe() (socketpair); everything from
                     Listener.__init__/accept/Client downwards is the real code
            'unix'   real AF_UNIX listener socket and real SocketClient
  kl, kc    key specs {'t': 'bytes'|'authstr'|'bytearray'|'memoryview', 'hex': ..} |
            {'t': 'none'} | {'t': 'str', 'v': ..} | {'t': 'int', 'v': ..}
  cl, cc    hex: the bytes os.urandom hands to that side (padded/truncated to the
            length the code asks for; the length asked for is reported)
  script    list of hex: the messages the scripted peer sends, in order; an entry
            {'fail': '<exception class>'} instead of a message makes the honest side's
            recv_bytes call at that position raise that error (channel fault)
  sfaults   {'L': [null, 'BrokenPipeError', ...], 'C': [...]}: channel faults on the
            send direction, per side the fate of its send_bytes calls in order: null =
            handed to the real connection, a class name = the call raises that error
            and nothing is written
  shut_rd   j (scripted-peer cases on the real socketpair): the peer shuts down the
            READ side of its socket (socket.shutdown(SHUT_RD)) just before the honest
            side's j-th send_bytes call, and keeps its write side open: that call and
            every later one fail in the kernel (EPIPE) while everything the peer wrote
            can still be read

  kind 'replayL' / 'replayC' (two sessions): {key, c1, cc1, c2}.  Session 1 = an 'honest'
            case, listener and client both holding `key`, challenges c1 (listener) and cc1
            (client), everything sent is recorded.  Session 2: 'replayL' = the CLIENT's recorded
            messages are played at a fresh real Listener.accept whose os.urandom yields c2;
            'replayC' = the LISTENER's recorded messages are played at a fresh real Client
            whose os.urandom yields c2.  Result: {'replay': [[case1, result1], [case2, result2]]}
            -- two ordinary cases ('honest', then 'peerL' / 'peerC' with the recorded script).
  real_urandom  (any kind) true: os.urandom is NOT scripted for this case (cl / cc ignored)

"norm": for each [key, msg]: the block and digest size of the named hash, hash(key), the key
as CPython's hmac.py prepares it (hash if longer than the block, pad with NULs to the block),
and the REAL hmac of msg under the key and under the prepared key (H1 of
coq/Proofs/AuthKeyProofs.v says the two are equal).

Both ends are wrapped in a recorder that logs every send_bytes and detects
starvation deterministically (no time-outs): a side is starved when nothing is
in flight towards it and the peer has finished or is itself blocked with nothing
in flight.  Result per side: {'out': 'returned' | <exception class name> | 'starved',
'sent': [hex...] (the messages whose send_bytes call succeeded), 'sres': the fate of
every send_bytes call in order (null | exception class name -- injected or raised by the
real connection), 'trace': every call in order, ['s', hex, err] / ['r', hex|null, err]}.
The digest table (real hmac) for the model is returned too.
"""
import errno
import hashlib
import hmac
import json
import os
import socket
import sys
import tempfile
import threading
import time

import billiard.connection as bc
from billiard.process import AuthenticationString, current_process

REAL_OS = os
TL = threading.local()


class OsProxy:
    """stands for the `os` module inside billiard.connection: urandom is scripted
    per thread, everything else is the real module"""

    def __getattr__(self, name):
        return getattr(REAL_OS, name)

    def urandom(self, n):
        ch = getattr(TL, 'challenge', None)
        if ch is None:
            return REAL_OS.urandom(n)
        TL.asked.append(n)
        return (ch + b'\0' * max(0, n - len(ch)))[:max(0, n)]


class Starved(Exception):
    pass


class InjectedEOF(EOFError):
    """an EOFError raised by the channel (scripted), as opposed to the end of file the
    harness itself provokes when it closes a starved side's peer"""


def injected(name):
    if name == 'BrokenPipeError':
        return BrokenPipeError(errno.EPIPE, 'Broken pipe (injected)')
    if name == 'ConnectionResetError':
        return ConnectionResetError(errno.ECONNRESET, 'Connection reset by peer (injected)')
    if name == 'OSError':
        return OSError(errno.EIO, 'Input/output error (injected)')
    if name == 'EOFError':
        return InjectedEOF('injected')
    raise ValueError('unknown fault %r' % (name,))


class Shared:
    def __init__(self):
        self.lock = threading.Lock()
        self.cond = threading.Condition(self.lock)
        self.sent = {'L': 0, 'C': 0}
        self.recvd = {'L': 0, 'C': 0}
        self.inwait = {'L': False, 'C': False}
        self.done = {'L': False, 'C': False}
        self.log = {'L': [], 'C': []}
        # channel faults: scripted fate of each send call / each recv call per side, a
        # hook run just before a given send call, and what was observed
        self.sfaults = {'L': [], 'C': []}
        self.rplan = {'L': [], 'C': []}
        self.before_send = {'L': {}, 'C': {}}
        self.rcalls = {'L': 0, 'C': 0}
        self.sres = {'L': [], 'C': []}
        self.trace = {'L': [], 'C': []}

    def finish(self, side):
        with self.cond:
            self.done[side] = True
            self.cond.notify_all()


class RecordingConn:
    def __init__(self, real, side, sh):
        self._real, self._side, self._sh = real, side, sh
        self._peer = 'C' if side == 'L' else 'L'

    def send_bytes(self, buf, *a):
        sh, me = self._sh, self._side
        with sh.cond:
            idx = len(sh.sres[me])
            plan = sh.sfaults[me]
            fault = plan[idx] if idx < len(plan) else None
            try:
                if fault:
                    raise injected(fault)
                hook = sh.before_send[me].get(idx)
                if hook:
                    hook()
                self._real.send_bytes(buf, *a)
            except BaseException as exc:       # noqa: the call failed, nothing was delivered
                sh.sres[me].append(type(exc).__name__)
                sh.trace[me].append(['s', bytes(buf).hex(), type(exc).__name__])
                raise
            sh.sres[me].append(None)
            sh.trace[me].append(['s', bytes(buf).hex(), None])
            sh.log[me].append(bytes(buf))
            sh.sent[me] += 1
            sh.cond.notify_all()

    def recv_bytes(self, maxlength=None):
        sh, me, peer = self._sh, self._side, self._peer
        deadline = time.monotonic() + 30
        with sh.cond:
            idx = sh.rcalls[me]
            sh.rcalls[me] += 1
            plan = sh.rplan[me]
            if idx < len(plan) and plan[idx]:
                sh.trace[me].append(['r', None, plan[idx]])
                raise injected(plan[idx])
            while True:
                if sh.sent[peer] - sh.recvd[me] > 0:
                    sh.inwait[me] = False
                    sh.recvd[me] += 1
                    break
                sh.inwait[me] = True
                sh.cond.notify_all()
                if sh.done[peer] or (sh.inwait[peer] and sh.sent[me] - sh.recvd[peer] == 0):
                    raise Starved()
                if not sh.cond.wait(timeout=max(0.0, deadline - time.monotonic())) \
                        and time.monotonic() >= deadline:
                    raise Starved('harness timeout')
        try:
            data = self._real.recv_bytes(maxlength)
        except BaseException as exc:           # noqa
            sh.trace[me].append(['r', None, type(exc).__name__])
            raise
        sh.trace[me].append(['r', bytes(data).hex(), None])
        return data

    def __getattr__(self, name):
        return getattr(self._real, name)


def mk_key(spec):
    t = spec['t']
    if t == 'none':
        return None
    if t == 'bytes':
        return bytes.fromhex(spec['hex'])
    if t == 'authstr':
        return AuthenticationString(bytes.fromhex(spec['hex']))
    if t == 'bytearray':
        return bytearray(bytes.fromhex(spec['hex']))
    if t == 'memoryview':
        return memoryview(bytes.fromhex(spec['hex']))
    if t in ('str', 'int'):
        return spec['v']
    raise ValueError(t)


class Ctx:
    """what the patched transports hand out for the current case"""
    conns = None


class FakeSocketListener:
    def __init__(self, address, family, backlog=1):
        self._address = address
        self._last_accepted = None

    def accept(self):
        return Ctx.conns['L']

    def close(self):
        pass


def fake_socket_client(address):
    return Ctx.conns['C']


ORIG = dict(SocketListener=bc.SocketListener, SocketClient=bc.SocketClient)


def outcome(fn):
    try:
        fn()
        return 'returned'
    except Starved as exc:
        return 'starved' if not exc.args else 'harness-timeout'
    except InjectedEOF:
        return 'EOFError'
    except EOFError:
        return 'starved'
    except BaseException as exc:        # noqa
        return type(exc).__name__


def run_side(side, sh, res, asked, challenge, fn):
    TL.challenge = challenge
    TL.asked = []
    try:
        res[side] = outcome(fn)
    finally:
        asked[side] = list(TL.asked)
        TL.challenge = None
        sh.finish(side)


def run_case(c, digestmod):
    sh = Shared()
    res, asked = {}, {}
    kind = c['kind']
    transport = c.get('transport', 'pipe')
    cl = bytes.fromhex(c.get('cl', ''))
    cc = bytes.fromhex(c.get('cc', ''))
    if c.get('real_urandom'):
        cl = cc = None                  # the real os.urandom
    script = [m if isinstance(m, dict) else bytes.fromhex(m) for m in c.get('script', [])]
    for side in 'LC':
        sh.sfaults[side] = list((c.get('sfaults') or {}).get(side) or [])
    cleanup = []
    address = '/verif-c18-fake-address'
    if transport == 'pipe':
        a, b = bc.Pipe(duplex=True)
        cleanup += [a, b]
        Ctx.conns = {'L': RecordingConn(a, 'L', sh), 'C': RecordingConn(b, 'C', sh)}
        bc.SocketListener = FakeSocketListener
        bc.SocketClient = fake_socket_client
    else:
        assert kind == 'honest'
        address = tempfile.mktemp(prefix='verif-c18-', dir='/tmp')
        bc.SocketListener = ORIG['SocketListener']
        bc.SocketClient = lambda addr: RecordingConn(ORIG['SocketClient'](addr), 'C', sh)

    def listener_side():
        lst = bc.Listener(address, authkey=mk_key(c['kl']))
        cleanup.append(lst)
        if transport == 'unix':
            real_accept = lst._listener.accept

            def accept():
                conn = real_accept()
                cleanup.append(conn)
                return RecordingConn(conn, 'L', sh)
            lst._listener.accept = accept
            ready.set()
        lst.accept()

    def client_side():
        if transport == 'unix':
            ready.wait(10)
        conn = bc.Client(address, authkey=mk_key(c['kc']))
        cleanup.append(conn)

    ready = threading.Event()
    try:
        if kind == 'honest':
            if transport == 'unix':
                # Listener() must exist before the client connects; a TypeError at
                # construction is still the listener side's outcome
                tl = threading.Thread(target=run_side, args=('L', sh, res, asked, cl, listener_side))
                tl.start()
                # if the constructor raised, do not let the client hang on connect
                while not ready.is_set() and tl.is_alive():
                    time.sleep(0.001)
                if ready.is_set():
                    tc = threading.Thread(target=run_side, args=('C', sh, res, asked, cc, client_side))
                    tc.start()
                    tc.join(60)
                else:
                    res['C'], asked['C'] = 'not-run', []
                tl.join(60)
            else:
                tl = threading.Thread(target=run_side, args=('L', sh, res, asked, cl, listener_side))
                tc = threading.Thread(target=run_side, args=('C', sh, res, asked, cc, client_side))
                tl.start()
                tc.start()
                tl.join(60)
                tc.join(60)
        else:
            honest, peer = ('L', 'C') if kind == 'peerL' else ('C', 'L')
            peer_end = Ctx.conns[peer]._real
            msgs = [m for m in script if not isinstance(m, dict)]
            for m in msgs:
                peer_end.send_bytes(m)
            sh.sent[peer] = len(msgs)
            sh.done[peer] = True
            sh.rplan[honest] = [m['fail'] if isinstance(m, dict) else None for m in script]
            if c.get('shut_rd') is not None:
                def shut_rd():
                    # the peer stops reading but keeps writing (what it wrote stays readable)
                    sk = socket.socket(fileno=os.dup(peer_end.fileno()))
                    try:
                        sk.shutdown(socket.SHUT_RD)
                    finally:
                        sk.close()
                sh.before_send[honest][int(c['shut_rd'])] = shut_rd
            run_side(honest, sh, res, asked, cl if honest == 'L' else cc,
                     listener_side if honest == 'L' else client_side)
    finally:
        bc.SocketListener = ORIG['SocketListener']
        bc.SocketClient = ORIG['SocketClient']
        for x in cleanup:
            try:
                x.close()
            except Exception:
                pass
        if transport == 'unix':
            try:
                os.unlink(address)
            except OSError:
                pass

    def obs(side):
        if side not in res:
            return None
        return dict(out=res[side], sent=[m.hex() for m in sh.log[side]],
                    sres=list(sh.sres[side]), trace=list(sh.trace[side]))

    def asked_n(side):
        a = asked.get(side, [])
        return None if not a else (a[0] if len(a) == 1 else -len(a))   # more than one draw: negative

    # digest table for the model: every byte-string key of the case on every message
    # the model can ask for (the two challenges; the body of every scripted message
    # that carries the CHALLENGE prefix)
    keys = []
    for k in (c.get('kl'), c.get('kc')):
        if k and k['t'] in ('bytes', 'authstr'):
            kb = bytes.fromhex(k['hex'])
            if kb not in keys:
                keys.append(kb)
    msgs = []
    for m in [x for x in (cl, cc) if x is not None] + [s[len(bc.CHALLENGE):] for s in script
                         if not isinstance(s, dict) and s.startswith(bc.CHALLENGE)]:
        if m not in msgs:
            msgs.append(m)
    table = [[k.hex(), [[m.hex(), hmac.new(k, m, digestmod).digest().hex()] for m in msgs]] for k in keys]
    return dict(L=obs('L'), C=obs('C'), nL=asked_n('L'), nC=asked_n('C'), table=table)


def run_replay(c, digestmod):
    """two sessions of the real code: record an honest handshake, then play one party's
    recorded messages at a fresh real endpoint of the other role"""
    real = bool(c.get('real_urandom'))
    case1 = dict(kind='honest', transport='pipe', kl=c['key'], kc=c['key'],
                 cl=c.get('c1', ''), cc=c.get('cc1', ''))
    if real:
        case1['real_urandom'] = True
    r1 = run_case(case1, digestmod)
    if c['kind'] == 'replayL':
        case2 = dict(kind='peerL', transport='pipe', kl=c['key'], cl=c.get('c2', ''),
                     script=list(r1['C']['sent']) if r1.get('C') else [])
    else:
        case2 = dict(kind='peerC', transport='pipe', kc=c['key'], cc=c.get('c2', ''),
                     script=list(r1['L']['sent']) if r1.get('L') else [])
    if real:
        case2['real_urandom'] = True
    r2 = run_case(case2, digestmod)
    return dict(replay=[[case1, r1], [case2, r2]])


def hmac_prepared_key(key, digestmod):
    """what Lib/hmac.py does to the key before xoring it with ipad / opad"""
    bs = hashlib.new(digestmod).block_size
    if len(key) > bs:
        key = hashlib.new(digestmod, key).digest()
    return key.ljust(bs, b'\0')


def norm_facts(items, digestmod):
    out = []
    h0 = hashlib.new(digestmod)
    for khex, mhex in items:
        k, m = bytes.fromhex(khex), bytes.fromhex(mhex)
        pk = hmac_prepared_key(k, digestmod)
        out.append(dict(block=h0.block_size, digest_size=h0.digest_size,
                        hk=hashlib.new(digestmod, k).digest().hex(), pynorm=pk.hex(),
                        d_raw=hmac.new(k, m, digestmod).digest().hex(),
                        d_norm=hmac.new(pk, m, digestmod).digest().hex()))
    return out


def aux_checks():
    """facts outside the Coq model, checked on the real code once per run"""
    import pickle
    out = {}
    ak = current_process().authkey
    out['process_authkey_is_bytes'] = isinstance(ak, bytes) and type(ak) is AuthenticationString
    out['process_authkey_len'] = len(ak)
    try:
        pickle.dumps(AuthenticationString(b'k'))
        out['authstr_pickle_outside_spawn'] = 'pickled'
    except TypeError:
        out['authstr_pickle_outside_spawn'] = 'TypeError'
    except Exception as exc:        # noqa
        out['authstr_pickle_outside_spawn'] = type(exc).__name__
    # freshness: with the real os.urandom two handshakes use different challenges
    chal = []
    for _ in range(2):
        a, b = bc.Pipe(duplex=True)
        b.send_bytes(b'x')
        try:
            bc.deliver_challenge(a, b'key')
        except Exception:
            pass
        chal.append(b.recv_bytes())
        a.close()
        b.close()
    out['challenge_prefix_ok'] = all(x.startswith(bc.CHALLENGE) for x in chal)
    out['challenge_lengths'] = [len(x) - len(bc.CHALLENGE) for x in chal]
    out['challenges_differ'] = chal[0] != chal[1]
    # replay across sessions with the REAL os.urandom: a recorded handshake played at a fresh
    # listener (resp. client) is refused, and the two challenges it met differ
    for kind, side, name in (('replayL', 'L', 'listener'), ('replayC', 'C', 'client')):
        rp = run_replay(dict(kind=kind, key=dict(t='bytes', hex=b'replay-key'.hex()), real_urandom=True),
                        'md5' if not DIGESTMOD else DIGESTMOD)['replay']
        (_, r1), (_, r2) = rp
        ch1 = [m for m in r1[side]['sent'] if bytes.fromhex(m).startswith(bc.CHALLENGE)]
        ch2 = [m for m in r2[side]['sent'] if bytes.fromhex(m).startswith(bc.CHALLENGE)]
        out['replay_real_urandom_' + name] = dict(
            session1=[r1['L']['out'], r1['C']['out']], session2=r2[side]['out'],
            fresh_challenge=bool(ch1 and ch2 and ch1[0] != ch2[0]))
    return out


DIGESTMOD = None


def main():
    global DIGESTMOD
    req = json.load(sys.stdin)
    bc.os = OsProxy()
    digestmod = DIGESTMOD = req.get('digestmod', 'md5')
    results = [run_replay(c, digestmod) if c['kind'] in ('replayL', 'replayC') else run_case(c, digestmod)
               for c in req['cases']]
    aux = aux_checks() if req.get('aux') else {}
    norm = norm_facts(req.get('norm') or [], digestmod)
    sys.stdout.write(json.dumps(dict(results=results, aux=aux, norm=norm)) + '\n')
    sys.stdout.flush()
    os._exit(0)


if __name__ == '__main__':
    main()
