"""Client functions of the C16 world: executed by harness/c16_driver.py on billiard's REAL Queue /
JoinableQueue / SimpleQueue objects (over harness/detsched.py + harness/c16_fakes.py) AND compiled,
with every billiard method they call, into coq/Gen/P_queue.v by translate/kernels/semprog.py.

Parameter names are significant for the translator: q / jq / sq are the queue objects, obj the
message, `block` and `timeout` the flag arguments.
"""


def q_put(q, obj, block, timeout):
    q.put(obj, block, timeout)


def q_get(q, block, timeout):
    return q.get(block, timeout)


def jq_put(jq, obj, block, timeout):
    jq.put(obj, block, timeout)


def jq_task_done(jq):
    jq.task_done()


def jq_join(jq):
    jq.join()


def sq_put(sq, obj):
    sq.put(obj)


def sq_get(sq):
    return sq.get()
