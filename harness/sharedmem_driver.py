"""Drive the real billiard.sharedctypes (RawValue/RawArray/Value/Array, rebuild_ctype) over a
private heap and observe every byte of every live shared object.

stdin : JSON dict(mode=..., cases=[...])
  mode 'mem'   cases: dict(pg, size, real, ops=[...])
        ['new', kind, spec]    kind 0 RawValue / Value, 1 RawArray(n) / Array(n), 2 RawArray(init) / Array(init)
                               spec = dict(t=<type name>, args=[...] | n=<int> | init=[...], sync=<bool>)
        ['drop', k]            drop the last reference to object k (its finaliser frees the block)
        ['write', k, off, [bytes]]   store raw bytes into object k (ctypes.memmove)
        ['rebuild', k]         sharedctypes.rebuild_ctype over the same wrapper (what unpickling does)
      -> per op dict(block, size, expect, reads=[[k, bytes], ...])
  mode 'trace' -> lock/read/write event traces of `with v.get_lock(): v.value += 1` etc. on the
                  real Synchronized wrappers (a recording lock object is passed as lock=)
  mode 'locks' -> for every wrapper class: the lock given (lock=L / synchronized(obj, L)) is the lock used,
                  lock=True/None give an RLock, lock=False the raw object; a pickle round trip as done for
                  a spawn child yields the same semaphore and the same storage
  mode 'procs' -> real processes: visibility parent<->child and locked increments (thorough tier)
  mode 'hops'  cases: dict(ops=[...]) -- hand-overs between emulated processes.  A process is the per-interpreter
        state that decides how a shared object pickles: the ForkingPickler registry (a fresh process has what a
        fresh interpreter has after importing billiard: the snapshot taken when this driver starts), the
        class/property caches of sharedctypes, and its own heap (real mmap arenas).
        ['spawn']                  a new process
        ['new', p, kind, spec]     process p allocates (kind/spec as in mode 'mem')
        ['send', k, q]             handle k is pickled inside its holder exactly as for a spawn child
                                   (ForkingPickler.dumps under the spawning flag, fds duplicated) and
                                   unpickled inside process q -> a new handle
        ['write', k, off, bytes]   raw store through handle k
        ['drop', k]                the process holding handle k drops its last reference to it (a wrapper made by
                                   BufferWrapper.__init__ has a finaliser that frees the block in its heap; a wrapper
                                   rebuilt by unpickling has none)
      -> per op dict(created=[owner, [arena, start, stop], size] | None, backed, expect,
                     reads=[bytes of every handle, None for a dropped one])
  mode 'orphan' cases: dict(method, kind, t, value|init) -- REAL processes: the child receives the object inside a holder,
        the parent then drops its own reference and allocates another object of the same type; what the child reads
        through its object before/after, and what the parent's new object reads after the child stored through its own
  mode 'chain' cases: dict(method, depth, obj=dict(kind, t, init|value, sync), n) -- REAL processes:
        the driver creates the object and starts a child with it, which works on it and starts a grandchild
        with it, ... (sharedmem_targets.chain_level); every level reports what it saw on entry and at exit
  mode 'forklock' cases: dict(kind='Value'|'Array'|'RawValue', t, value|init, lock='default'|'RLock'|'Lock', nchild, n) -- REAL
        processes, fork start method: the parent takes the object's lock and starts the updater processes from INSIDE the
        `with lock:` block (the forking thread holds the lock); each child reports what its copy of the lock says and one
        non-blocking attempt, then makes n locked updates; the parent reads the value again, stores old + 1, releases

Arenas: a bytearray-backed stub (zero-filled like a fresh mmap) unless real=True.
"""
import ctypes
import gc
import json
import os
import sys
import types
import mmap as real_mmap

import billiard.heap as bh
from billiard import sharedctypes as sc

from billiard.reduction import ForkingPickler

REAL_ARENA = bh.Arena
# what a fresh interpreter has registered after importing billiard.heap / billiard.sharedctypes
BASE_REDUCERS = dict(ForkingPickler._extra_reducers)


class BufArena:
    def __init__(self, size, fd=-1):
        self.size = size
        self.buffer = bytearray(size)


class Point(ctypes.Structure):
    _fields_ = [('x', ctypes.c_double), ('y', ctypes.c_double)]


class Pad(ctypes.Structure):              # 3 padding bytes after a
    _fields_ = [('a', ctypes.c_char), ('b', ctypes.c_int)]


class Mixed(ctypes.Structure):            # padding after a and after b
    _fields_ = [('a', ctypes.c_byte), ('b', ctypes.c_short), ('c', ctypes.c_longlong)]


TYPES = dict(Point=Point, Pad=Pad, Mixed=Mixed, c_longlong=ctypes.c_longlong, c_bool=ctypes.c_bool,
             c_ulonglong=ctypes.c_ulonglong, c_uint16=ctypes.c_uint16, c_longdouble=ctypes.c_longdouble)


# what each type code MEANS (array module / ctypes documentation), independent of the library's own table
CODE_MEANS = {'c': ctypes.c_char, 'u': ctypes.c_wchar, 'b': ctypes.c_byte, 'B': ctypes.c_ubyte,
              'h': ctypes.c_short, 'H': ctypes.c_ushort, 'i': ctypes.c_int, 'I': ctypes.c_uint,
              'l': ctypes.c_long, 'L': ctypes.c_ulong, 'q': ctypes.c_longlong, 'Q': ctypes.c_ulonglong,
              'f': ctypes.c_float, 'd': ctypes.c_double}


def ctype_of(name):
    if name in CODE_MEANS:
        return CODE_MEANS[name]
    if name in sc.typecode_to_type:
        return sc.typecode_to_type[name]
    return TYPES[name]


def readback(obj, twin):
    """the value as read through the object's own Python interface against an ordinary ctypes object
    built from the same arguments: [want, got] when they differ, else None"""
    try:
        if isinstance(twin, ctypes.Array):
            if not issubclass(twin._type_, ctypes._SimpleCData):
                return None            # arrays of structures: compared byte-wise only
            want, got = list(twin[:]), list(obj[:])
        elif hasattr(twin, 'value'):
            want, got = twin.value, obj.value
        else:
            return None
    except Exception as exc:       # noqa
        return ['readable', 'raised %s' % type(exc).__name__]
    return None if want == got and [type(x) for x in (want if isinstance(want, list) else [want])] == \
        [type(x) for x in (got if isinstance(got, list) else [got])] else [repr(want)[:80], repr(got)[:80]]


def conv(t, v):
    """JSON value -> python value acceptable to the ctypes type"""
    if isinstance(v, list):
        return tuple(conv(None, x) for x in v)
    if t in ('c',):
        return bytes([v])
    if t in ('u',):
        return chr(v)
    return v


def raw_of(o):
    return o.get_obj() if isinstance(o, sc.SynchronizedBase) else o


def read_bytes(o):
    r = raw_of(o)
    return list(ctypes.string_at(ctypes.addressof(r), ctypes.sizeof(r))) if ctypes.sizeof(r) else []


def private_bytes(p):
    return list(ctypes.string_at(ctypes.addressof(p), ctypes.sizeof(p))) if ctypes.sizeof(p) else []


def run_mem_case(c):
    real = bool(c.get('real'))
    if real:
        bh.Arena = REAL_ARENA
        bh.mmap = real_mmap
    else:
        bh.Arena = BufArena
        bh.mmap = types.SimpleNamespace(PAGESIZE=c['pg'])
    heap = bh.Heap(c['size'])
    bh.BufferWrapper._heap = heap
    objs = []
    out = []

    def block_of(o):
        (arena, start, stop), size = raw_of(o)._wrapper._state
        ix = [i for i, a in enumerate(heap._arenas) if a is arena][0]
        return [ix, start, stop], size

    for op in c['ops']:
        rec = dict(block=None, size=0, expect=None)
        try:
            if op[0] == 'new':
                kind, spec = op[1], op[2]
                tn = spec['t']
                ct = ctype_of(tn)
                targ = tn if tn in sc.typecode_to_type and spec.get('by_code', True) else ct
                sync = spec.get('sync')
                if kind == 0:
                    args = [conv(tn, a) for a in spec['args']]
                    o = sc.Value(targ, *args) if sync else sc.RawValue(targ, *args)
                    exp = private_bytes(ct(*args))
                    rec['readback'] = readback(o, ct(*args))
                elif kind == 1:
                    o = sc.Array(targ, spec['n']) if sync else sc.RawArray(targ, spec['n'])
                    exp = private_bytes((ct * spec['n'])())
                else:
                    init = [conv(tn, a) for a in spec['init']]
                    o = sc.Array(targ, init) if sync else sc.RawArray(targ, init)
                    exp = private_bytes((ct * len(init))(*init))
                    rec['readback'] = readback(o, (ct * len(init))(*init))
                objs.append(o)
                rec['block'], rec['size'] = block_of(o)
                rec['expect'] = exp
                del o
            elif op[0] == 'drop':
                objs[op[1]] = None
            elif op[0] == 'write':
                r = raw_of(objs[op[1]])
                data = bytes(op[3])
                if op[2] < 0 or op[2] + len(data) > ctypes.sizeof(r):
                    raise ValueError('outside the object')
                ctypes.memmove(ctypes.addressof(r) + op[2], data, len(data))
                del r
            elif op[0] == 'rebuild':
                r = raw_of(objs[op[1]])
                if isinstance(r, ctypes.Array):
                    alias = sc.rebuild_ctype(r._type_, r._wrapper, r._length_)
                else:
                    alias = sc.rebuild_ctype(type(r), r._wrapper, None)
                objs.append(alias)
                rec['block'], rec['size'] = block_of(alias)
                del r, alias
            else:
                raise SystemExit('bad op %r' % (op,))
        except (KeyError, IndexError, ValueError, AssertionError, TypeError, AttributeError) as exc:
            rec['exc'] = type(exc).__name__ + ': ' + str(exc)[:200]
            out.append(rec)
            break
        rec['reads'] = [[k, read_bytes(o)] for k, o in enumerate(objs) if o is not None]
        # the same bytes as found in the arena at the object's (block, size)
        rec['arena_reads'] = []
        for k, o in enumerate(objs):
            if o is not None:
                (arena, start, stop), size = raw_of(o)._wrapper._state
                rec['arena_reads'].append([k, list(bytes(arena.buffer[start:start + size]))])
        out.append(rec)
    res = dict(obs=out, arenas=[a.size for a in heap._arenas],
               live_blocks=sorted([heap._arenas.index(b[0]), b[1], b[2]] for b in heap._allocated_blocks))
    objs[:] = []
    return res


# ---------------------------------------------------------------- lock traces
class RecLock:
    """what Synchronized needs from a lock, recording every call"""
    def __init__(self, ev):
        self.ev = ev

    def acquire(self, *a, **k):
        self.ev.append('Acq')
        return True

    def release(self):
        self.ev.append('Rel')

    def __enter__(self):
        return self.acquire()

    def __exit__(self, *a):
        self.release()


class ObjProxy:
    """stands in for the ctypes object inside a Synchronized wrapper and records accesses"""
    def __init__(self, real, ev):
        object.__setattr__(self, '_real', real)
        object.__setattr__(self, '_ev', ev)

    def __getattr__(self, name):
        self._ev.append('Read')
        return getattr(self._real, name)

    def __setattr__(self, name, value):
        self._ev.append('Write')
        setattr(self._real, name, value)

    def __getitem__(self, i):
        self._ev.append('Read')
        return self._real[i]

    def __setitem__(self, i, v):
        self._ev.append('Write')
        self._real[i] = v


def run_traces():
    bh.Arena = BufArena
    bh.mmap = types.SimpleNamespace(PAGESIZE=4096)
    bh.BufferWrapper._heap = bh.Heap(4096)
    out = []
    for tc in ('i', 'd', 'b', 'L'):
        ev = []
        v = sc.Value(tc, 3, lock=RecLock(ev))
        v._obj = ObjProxy(v._obj, ev)
        with v.get_lock():
            v.value += 1
        out.append(dict(what='Value(%r) with get_lock(): value += 1' % tc, locked=True, trace=list(ev),
                        result=v._obj._real.value))
        del ev[:]
        v.value += 1
        out.append(dict(what='Value(%r) value += 1' % tc, locked=False, trace=list(ev), result=v._obj._real.value))
        del ev[:]
        with v:
            v.value += 1
        out.append(dict(what='Value(%r) with v: value += 1' % tc, locked=True, trace=list(ev), result=v._obj._real.value))
    for tc in ('i', 'd'):
        ev = []
        a = sc.Array(tc, [1, 2, 3], lock=RecLock(ev))
        a._obj = ObjProxy(a._obj, ev)
        with a.get_lock():
            a[1] += 1
        out.append(dict(what='Array(%r) with get_lock(): a[1] += 1' % tc, locked=True, trace=list(ev), result=a._obj._real[1]))
        del ev[:]
        a[1] += 1
        out.append(dict(what='Array(%r) a[1] += 1' % tc, locked=False, trace=list(ev), result=a._obj._real[1]))
    # the default lock of Value/Array is recursive
    import billiard
    ctx = billiard.get_context('fork')
    bh.Arena = REAL_ARENA
    bh.mmap = real_mmap
    bh.BufferWrapper._heap = bh.Heap()
    v = sc.Value('i', 0, ctx=ctx)
    lk = v.get_lock()
    rec = bool(lk.acquire(False)) and bool(lk.acquire(False))
    if rec:
        lk.release()
        lk.release()
    out.append(dict(what='default lock is recursive', locked=None, trace=[], result=rec,
                    lock_type=type(lk).__name__))
    return out



# ---------------------------------------------------------------- the lock handed to the wrappers
class FakeSpawnPopen:
    """what pickling needs from a spawning Popen (billiard.context.set_spawning_popen):
    file descriptors are duplicated for the 'child' (here: this very process)"""
    from billiard.popen_spawn_posix import _DupFd as DupFd

    def duplicate_for_child(self, fd):
        return os.dup(fd)


def _kinds():
    """(name, expected wrapper class, constructor taking lock=/ctx= keywords, raw constructor)"""
    return [
        ('Value(i)', 'Synchronized', lambda **k: sc.Value('i', 7, **k), lambda: sc.RawValue('i', 7)),
        ('Value(c_double)', 'Synchronized', lambda **k: sc.Value(ctypes.c_double, 1.5, **k),
         lambda: sc.RawValue(ctypes.c_double, 1.5)),
        ('Array(i,3)', 'SynchronizedArray', lambda **k: sc.Array('i', [1, 2, 3], **k), lambda: sc.RawArray('i', [1, 2, 3])),
        ('Array(d,n=2)', 'SynchronizedArray', lambda **k: sc.Array('d', 2, **k), lambda: sc.RawArray('d', 2)),
        ('Array(c,3)', 'SynchronizedString', lambda **k: sc.Array('c', [b'a', b'b', b'c'], **k),
         lambda: sc.RawArray('c', [b'a', b'b', b'c'])),
        ('Array(c,n=4)', 'SynchronizedString', lambda **k: sc.Array('c', 4, **k), lambda: sc.RawArray('c', 4)),
        ('Value(Point)', 'SynchronizedPoint', lambda **k: sc.Value(Point, 1.0, 2.0, **k), lambda: sc.RawValue(Point, 1.0, 2.0)),
    ]


def run_locks():
    import pickle
    import billiard
    from billiard import context as bctx
    from billiard.reduction import ForkingPickler
    bh.Arena = REAL_ARENA
    bh.mmap = real_mmap
    bh.BufferWrapper._heap = bh.Heap()
    out = []
    fork = billiard.get_context('fork')
    # ---- (1) the lock given is the lock used
    for name, cls, mk, mkraw in _kinds():
        for lname, L in (('Lock', fork.Lock()), ('RLock', fork.RLock()), ('object with acquire/release', RecLock([]))):
            rec = dict(check='explicit-lock', kind=name, lock=lname)
            try:
                w = mk(lock=L)
                rec.update(cls=type(w).__name__, want_cls=cls, same=w.get_lock() is L,
                           bound=(w.acquire == L.acquire and w.release == L.release))
                w2 = sc.synchronized(mkraw(), lock=L)
                rec.update(sync_cls=type(w2).__name__, sync_same=w2.get_lock() is L)
                w3 = sc.synchronized(mkraw(), L, fork)
                rec.update(sync_pos_same=w3.get_lock() is L)
            except Exception as exc:
                rec['exc'] = '%s: %s' % (type(exc).__name__, str(exc)[:200])
            out.append(rec)
        rec = dict(check='default-lock', kind=name)
        try:
            rec.update(true_type=type(mk(lock=True, ctx=fork).get_lock()).__name__,
                       none_type=type(mk(ctx=fork).get_lock()).__name__,
                       sync_none_type=type(sc.synchronized(mkraw(), ctx=fork).get_lock()).__name__)
            r = mk(lock=False)
            rec.update(false_is_raw=(not isinstance(r, sc.SynchronizedBase)) and isinstance(r, (ctypes._SimpleCData, ctypes.Array, ctypes.Structure)))
        except Exception as exc:
            rec['exc'] = '%s: %s' % (type(exc).__name__, str(exc)[:200])
        out.append(rec)
    # ---- (1b) lock objects that are FALSE in a boolean context (SynchronizedBase.__init__ tests `if lock:`)
    import threading

    class WrappedLock:
        """a lock object in its own right (a real RLock behind it)"""
        def __init__(self, truth=False):
            self._l = fork.RLock()
            self._truth = truth

        def acquire(self, *a, **k):
            return self._l.acquire(*a, **k)

        def release(self):
            return self._l.release()

        def __enter__(self):
            return self._l.__enter__()

        def __exit__(self, *a):
            return self._l.__exit__(*a)

    class BoolFalseLock(WrappedLock):
        """... whose __bool__ says, e.g., whether it is currently held: False when given"""
        def __bool__(self):
            return self._truth

    class LenZeroLock(WrappedLock):
        """... with a __len__ (say, its number of waiters): 0 when given"""
        def __len__(self):
            return 1 if self._truth else 0

    for name, cls, mk, mkraw in _kinds():
        for lname, L in (('lock object with __bool__ False', BoolFalseLock()), ('lock object with __len__ 0', LenZeroLock()),
                         ('lock object with __bool__ True', BoolFalseLock(True)), ('lock object with __len__ 1', LenZeroLock(True))):
            rec = dict(check='truth-value-lock', kind=name, lock=lname, truth=bool(L))
            try:
                w = mk(lock=L)
                rec.update(cls=type(w).__name__, want_cls=cls, same=w.get_lock() is L,
                           bound=(w.acquire == L.acquire and w.release == L.release),
                           used_type=type(w.get_lock()).__name__)
                w2 = sc.synchronized(mkraw(), lock=L)
                w3 = sc.synchronized(mkraw(), L, fork)
                rec.update(sync_same=w2.get_lock() is L, sync_pos_same=w3.get_lock() is L)
                # behaviour: while this thread holds L, can another thread enter `with w.get_lock():` ?
                got = []

                def other(w=w, got=got):
                    ok = w.get_lock().acquire(False)
                    got.append(bool(ok))
                    if ok:
                        w.get_lock().release()
                with L:
                    t = threading.Thread(target=other)
                    t.start()
                    t.join(10)
                rec['holder_of_L_excludes_wrapper_lock'] = (got == [False])
            except Exception as exc:
                rec['exc'] = '%s: %s' % (type(exc).__name__, str(exc)[:200])
            out.append(rec)
    # the consequence, deterministically: updater A holds the lock L it passed as lock=, updater B holds get_lock()
    for lname, L in (('lock object with __bool__ False', BoolFalseLock()), ('lock object with __bool__ True', BoolFalseLock(True))):
        rec = dict(check='truth-value-lock-update', kind='Value(i)', lock=lname, truth=bool(L))
        try:
            v = sc.Value('i', 0, lock=L)

            def updater_b(v=v):
                with v.get_lock():
                    v.value += 1
            t = threading.Thread(target=updater_b)
            with L:                       # updater A: `with L: v.value += 1`, B scheduled in the middle
                tmp = v.value
                t.start()
                # B finishes here iff holding L does not exclude it (join returns as soon as it has; the long limit is
                # only ever waited out when L does exclude B although its truth value is False, i.e. after a fix)
                t.join(0.4 if bool(L) else 5.0)
                rec['b_ran_inside_a'] = not t.is_alive()
                v.value = tmp + 1
            t.join(10)
            rec.update(final=v.value, expected=2)
        except Exception as exc:
            rec['exc'] = '%s: %s' % (type(exc).__name__, str(exc)[:200])
        out.append(rec)
    # falsy things that are not locks at all
    for name, cls, mk, mkraw in _kinds()[:3]:
        for lname, bad in (('0', 0), ("''", ''), ('[]', [])):
            rec = dict(check='falsy-non-lock', kind=name, lock=lname)
            try:
                mk(lock=bad)
                rec['ctor'] = 'returned'
            except AttributeError as exc:
                rec['ctor'] = 'AttributeError'
            except Exception as exc:
                rec['ctor'] = type(exc).__name__
            try:
                w2 = sc.synchronized(mkraw(), bad, fork)
                rec['sync_lock_type'] = type(w2.get_lock()).__name__
            except Exception as exc:
                rec['sync_lock_type'] = 'raised ' + type(exc).__name__
            out.append(rec)
    # ---- (2) pickle round trip as done for a spawn/forkserver child: same semaphore, same storage
    spawn = billiard.get_context('spawn')
    for name, cls, mk, mkraw in _kinds():
        for lname in ('default', 'Lock', 'RLock'):
            rec = dict(check='pickle-roundtrip', kind=name, lock=lname)
            try:
                L = None if lname == 'default' else getattr(spawn, lname)()
                w = mk(ctx=spawn) if L is None else mk(lock=L, ctx=spawn)
                bctx.set_spawning_popen(FakeSpawnPopen())
                try:
                    data = bytes(ForkingPickler.dumps(w))
                finally:
                    bctx.set_spawning_popen(None)
                w2 = pickle.loads(data)
                l1, l2 = w.get_lock(), w2.get_lock()
                rec.update(cls=type(w2).__name__, want_cls=cls,
                           lock_type=type(l1).__name__, lock_type2=type(l2).__name__,
                           sem_name=getattr(l1._semlock, 'name', None), sem_name2=getattr(l2._semlock, 'name', None))
                # behaviour: while the original holds the lock the rebuilt one cannot take it
                l1.acquire()
                got = l2.acquire(False)
                if got:
                    l2.release()
                l1.release()
                got_after = l2.acquire(False)
                if got_after:
                    l2.release()
                rec.update(excluded_while_held=not got, free_after_release=bool(got_after))
                # same storage: a store through the original is read through the rebuilt object
                r1, r2 = raw_of(w), raw_of(w2)
                n = ctypes.sizeof(r1)
                ctypes.memmove(ctypes.addressof(r1), bytes((0xA0 + i) & 0xFF for i in range(n)), n)
                rec.update(state=list(r1._wrapper._state[0][1:]) + [r1._wrapper._state[1]],
                           state2=list(r2._wrapper._state[0][1:]) + [r2._wrapper._state[1]],
                           bytes1=read_bytes(w), bytes2=read_bytes(w2))
            except Exception as exc:
                rec['exc'] = '%s: %s' % (type(exc).__name__, str(exc)[:300])
            out.append(rec)
    return out

# ---------------------------------------------------------------- hand-overs between (emulated) processes
class EmuProc:
    """the per-interpreter state of one process, as far as pickling shared ctypes objects goes"""
    def __init__(self):
        import weakref
        self.reducers = dict(BASE_REDUCERS)
        self.class_cache = weakref.WeakKeyDictionary()
        self.prop_cache = {}
        self.heap = bh.Heap()

    def __enter__(self):
        ForkingPickler._extra_reducers.clear()
        ForkingPickler._extra_reducers.update(self.reducers)
        sc.class_cache = self.class_cache
        sc.prop_cache = self.prop_cache
        bh.BufferWrapper._heap = self.heap
        return self

    def __exit__(self, *exc):
        self.reducers = dict(ForkingPickler._extra_reducers)
        return False


class DupTrackingPopen:
    """a spawning Popen for pickling: file descriptors are duplicated for the 'child'; the duplicates
    are closed when the case is over"""
    from billiard.popen_spawn_posix import _DupFd as DupFd

    def __init__(self):
        self.dups = []

    def duplicate_for_child(self, fd):
        d = os.dup(fd)
        self.dups.append(d)
        return d


def _mmap_address(buf):
    c = ctypes.c_char.from_buffer(buf)
    try:
        return ctypes.addressof(c)
    finally:
        del c


def run_hops_case(c):
    import pickle
    import billiard
    from billiard import context as bctx
    bh.Arena = REAL_ARENA
    bh.mmap = real_mmap
    saved = (dict(ForkingPickler._extra_reducers), sc.class_cache, sc.prop_cache, bh.BufferWrapper._heap)
    spawn = billiard.get_context('spawn')
    procs = [EmuProc()]
    handles = []          # (process index, object)
    popen = DupTrackingPopen()
    out = []

    def locate(o):
        """[owner, [arena index, start, stop], size] of the storage the object's wrapper names"""
        (arena, start, stop), size = raw_of(o)._wrapper._state
        st = os.fstat(arena.fd)
        for pi, pr in enumerate(procs):
            for ai, a in enumerate(pr.heap._arenas):
                s2 = os.fstat(a.fd)
                if (s2.st_dev, s2.st_ino) == (st.st_dev, st.st_ino):
                    return [pi, [ai, start, stop], size]
        return [-1, [-1, start, stop], size]

    def backed(o):
        """the object's memory IS the bytes [start, start+size) of the mapping of its wrapper's arena"""
        r = raw_of(o)
        (arena, start, stop), size = r._wrapper._state
        return ctypes.addressof(r) == _mmap_address(arena.buffer) + start and ctypes.sizeof(r) == size

    try:
        for op in c['ops']:
            rec = dict(created=None, backed=None, expect=None)
            try:
                if op[0] == 'spawn':
                    procs.append(EmuProc())
                elif op[0] == 'new':
                    pi, kind, spec = op[1], op[2], op[3]
                    tn = spec['t']
                    ct = ctype_of(tn)
                    targ = tn if tn in sc.typecode_to_type else ct
                    sync = spec.get('sync')
                    with procs[pi]:
                        if kind == 0:
                            args = [conv(tn, a) for a in spec['args']]
                            o = sc.Value(targ, *args, ctx=spawn) if sync else sc.RawValue(targ, *args)
                            exp = private_bytes(ct(*args))
                        elif kind == 1:
                            o = sc.Array(targ, spec['n'], ctx=spawn) if sync else sc.RawArray(targ, spec['n'])
                            exp = private_bytes((ct * spec['n'])())
                        else:
                            init = [conv(tn, a) for a in spec['init']]
                            o = sc.Array(targ, init, ctx=spawn) if sync else sc.RawArray(targ, init)
                            exp = private_bytes((ct * len(init))(*init))
                    handles.append((pi, o))
                    rec.update(created=locate(o), backed=backed(o), expect=exp)
                    del o
                elif op[0] == 'send':
                    k, q = op[1], op[2]
                    src, o = handles[k]
                    if o is None:
                        raise KeyError('handle %d was dropped' % k)
                    with procs[src]:
                        bctx.set_spawning_popen(popen)
                        try:
                            data = bytes(ForkingPickler.dumps(o))
                        finally:
                            bctx.set_spawning_popen(None)
                    with procs[q]:
                        o2 = pickle.loads(data)
                    handles.append((q, o2))
                    rec.update(created=locate(o2), backed=backed(o2), cls=[type(o).__name__, type(o2).__name__],
                               raw_cls=[type(raw_of(o)).__name__, type(raw_of(o2)).__name__])
                    if isinstance(o, sc.SynchronizedBase) and isinstance(o2, sc.SynchronizedBase):
                        l1, l2 = o.get_lock(), o2.get_lock()
                        l1.acquire()
                        got = l2.acquire(False)
                        if got:
                            l2.release()
                        l1.release()
                        got_after = l2.acquire(False)
                        if got_after:
                            l2.release()
                        rec['lock_shared'] = (not got) and bool(got_after)
                    del o, o2
                elif op[0] == 'write':
                    if handles[op[1]][1] is None:
                        raise KeyError('handle %d was dropped' % op[1])
                    r = raw_of(handles[op[1]][1])
                    data = bytes(op[3])
                    if op[2] < 0 or op[2] + len(data) > ctypes.sizeof(r):
                        raise ValueError('outside the object')
                    ctypes.memmove(ctypes.addressof(r) + op[2], data, len(data))
                    del r
                elif op[0] == 'drop':
                    pi, o = handles[op[1]]
                    if o is None:
                        raise KeyError('handle %d was dropped' % op[1])
                    del o
                    with procs[pi]:
                        handles[op[1]] = (pi, None)      # the last reference: a finaliser, if any, runs now
                        gc.collect()
                else:
                    raise SystemExit('bad op %r' % (op,))
            except SystemExit:
                raise
            except Exception as exc:
                rec['exc'] = type(exc).__name__ + ': ' + str(exc)[:200]
                out.append(rec)
                break
            rec['reads'] = [None if o is None else read_bytes(o) for _, o in handles]
            rec['live_blocks'] = [sorted([pr.heap._arenas.index(b[0]), b[1], b[2]] for b in pr.heap._allocated_blocks)
                                  for pr in procs]
            rec['holders'] = [pi for pi, _ in handles]
            out.append(rec)
    finally:
        del handles[:]
        ForkingPickler._extra_reducers.clear()
        ForkingPickler._extra_reducers.update(saved[0])
        sc.class_cache, sc.prop_cache, bh.BufferWrapper._heap = saved[1], saved[2], saved[3]
        for d in popen.dups:
            try:
                os.close(d)
            except OSError:
                pass
    return dict(obs=out, pagesize=real_mmap.PAGESIZE)


# ---------------------------------------------------------------- real chains parent -> child -> grandchild ...
def run_chain_case(c):
    import signal
    import billiard
    import sharedmem_targets as tg
    bh.Arena = REAL_ARENA
    bh.mmap = real_mmap
    bh.BufferWrapper._heap = bh.Heap()
    res = dict(case=c)

    def on_alarm(signum, frame):
        raise TimeoutError('chain scenario exceeded its time limit')
    old = signal.signal(signal.SIGALRM, on_alarm)
    signal.alarm(int(c.get('limit', 90)))
    p = None
    try:
        ctx = billiard.get_context(c['method'])
        spec = c['obj']
        t = spec['t']
        targ = t if t in sc.typecode_to_type else ctype_of(t)
        if spec['kind'] == 'Value':
            o = sc.Value(targ, spec['value'], ctx=ctx) if spec.get('sync') else sc.RawValue(targ, spec['value'])
        else:
            o = sc.Array(targ, spec['init'], ctx=ctx) if spec.get('sync') else sc.RawArray(targ, spec['init'])
        res['initial'] = tg.snapshot(o)
        pc, cc = ctx.Pipe()
        p = ctx.Process(target=tg.chain_level, args=(1, c['depth'], c['method'], o, cc, c['n']))
        p.start()
        cc.close()
        try:
            res['report'] = pc.recv() if pc.poll(60) else None
        except EOFError:
            res['report'] = None
        p.join(30)
        res['exitcode'] = p.exitcode
        res['final'] = tg.snapshot(o)
    except Exception as exc:            # reported, judged by the caller
        res['error'] = '%s: %s' % (type(exc).__name__, str(exc)[:300])
    finally:
        signal.alarm(0)
        signal.signal(signal.SIGALRM, old)
        if p is not None and p._popen is not None and p.exitcode is None:
            try:
                p.terminate()
            except Exception:
                pass
    return res


# ---------------------------------------------------------------- the owner drops while a real child still uses the object
def run_orphan_case(c):
    import signal
    import billiard
    import sharedmem_targets as tg
    bh.Arena = REAL_ARENA
    bh.mmap = real_mmap
    bh.BufferWrapper._heap = bh.Heap()
    res = dict(case=c)

    def on_alarm(signum, frame):
        raise TimeoutError('orphan scenario exceeded its time limit')
    old = signal.signal(signal.SIGALRM, on_alarm)
    signal.alarm(int(c.get('limit', 60)))
    p = None
    try:
        ctx = billiard.get_context(c['method'])
        t = c['t']
        targ = t if t in sc.typecode_to_type else ctype_of(t)

        def make(val):
            if c['kind'] == 'Value':
                return sc.Value(targ, val, ctx=ctx) if c.get('sync') else sc.RawValue(targ, val)
            return sc.Array(targ, val, ctx=ctx) if c.get('sync') else sc.RawArray(targ, val)
        h = tg.Holder()
        h.obj = make(c['first'])
        res['first_block'] = list(raw_of(h.obj)._wrapper._state[0][1:])
        pc, cc = ctx.Pipe()
        p = ctx.Process(target=tg.orphan_child, args=(h, cc, c['store']))
        p.start()
        cc.close()
        res['child_saw_on_entry'] = pc.recv() if pc.poll(30) else None
        h.obj = None                      # the parent's last reference (the Process object holds the holder, not the object)
        gc.collect()
        w = make(c['second'])
        res['second_block'] = list(raw_of(w)._wrapper._state[0][1:])
        res['second_initial'] = tg.snapshot(w)
        pc.send('go')
        res['child_saw_after_parent_allocated'] = pc.recv() if pc.poll(30) else None
        res['second_after_child_stored'] = tg.snapshot(w)
        pc.send('bye')
        p.join(30)
        res['exitcode'] = p.exitcode
    except Exception as exc:            # reported, judged by the caller
        res['error'] = '%s: %s' % (type(exc).__name__, str(exc)[:300])
    finally:
        signal.alarm(0)
        signal.signal(signal.SIGALRM, old)
        if p is not None and p._popen is not None and p.exitcode is None:
            try:
                p.terminate()
            except Exception:
                pass
    return res


# ---------------------------------------------------------------- children forked by the thread that HOLDS the lock
def run_forklock_case(c):
    """fork start method.  The parent takes the object's lock, reads the value, starts `nchild` processes from INSIDE
    its critical section (each: one non-blocking attempt on the lock, reported at once; then n locked updates), waits
    until every child has reported its attempt (plus a short grace period in which a child that is not kept out makes
    progress), reads the value again, stores old + 1 and releases.  Observed: what the children's copies of the lock
    said, whether their attempt succeeded while the parent was inside, the value at both reads, when each child made
    its first update relative to the parent's release, the final value."""
    import select
    import signal
    import time
    import billiard
    import sharedmem_targets as tg
    bh.Arena = REAL_ARENA
    bh.mmap = real_mmap
    bh.BufferWrapper._heap = bh.Heap()
    res = dict(case=c)
    nchild, n = int(c.get('nchild', 2)), int(c.get('n', 30))
    grace = float(c.get('grace', 0.25))

    def on_alarm(signum, frame):
        raise TimeoutError('fork-under-lock scenario exceeded its time limit')
    old_handler = signal.signal(signal.SIGALRM, on_alarm)
    signal.alarm(int(c.get('limit', 90)))
    procs = []
    r = w = None
    try:
        ctx = billiard.get_context('fork')
        t = c.get('t', 'i')
        targ = t if t in sc.typecode_to_type else ctype_of(t)
        lk = {'default': None, 'RLock': ctx.RLock, 'Lock': ctx.Lock}[c.get('lock', 'default')]
        lk = lk() if lk else None
        kind = c['kind']
        if kind == 'Value':
            obj = sc.Value(targ, c.get('value', 0), ctx=ctx) if lk is None else sc.Value(targ, c.get('value', 0), lock=lk, ctx=ctx)
        elif kind == 'Array':
            obj = sc.Array(targ, c['init'], ctx=ctx) if lk is None else sc.Array(targ, c['init'], lock=lk, ctx=ctx)
        elif kind == 'RawValue':          # a plain billiard lock guarding an unwrapped shared value
            obj = sc.RawValue(targ, c.get('value', 0))
        else:
            raise SystemExit('bad kind %r' % (kind,))
        lock = obj.get_lock() if kind != 'RawValue' else lk
        res['lock_type'] = type(lock).__name__
        res['after_fork_hooks_for_lock'] = sum(1 for k in list(billiard.util._afterfork_registry) if k[1] == id(lock))
        through_wrapper = kind == 'Value' and res['lock_type'] == 'RLock'
        r, w = os.pipe()
        buf = [b'']
        msgs = []

        def pump(timeout):
            if select.select([r], [], [], max(0.0, timeout))[0]:
                buf[0] += os.read(r, 65536)
            while b'\n' in buf[0]:
                ln, buf[0] = buf[0].split(b'\n', 1)
                try:
                    msgs.append(json.loads(ln))
                except ValueError:
                    pass

        def have(ev):
            return [m for m in msgs if m.get('ev') == ev]

        def wait_for(ev, need, limit):
            end = time.monotonic() + limit
            while len(have(ev)) < need and time.monotonic() < end:
                pump(0.02)
            return len(have(ev)) >= need
        procs = [ctx.Process(target=tg.forklock_child, args=(obj, None if kind != 'RawValue' else lock, i, n, w, through_wrapper))
                 for i in range(nchild)]
        lock.acquire()                    # with obj.get_lock():
        try:
            res['value_at_acquire'] = tg.snapshot(obj)
            for p in procs:
                p.start()                 # forked by the thread that holds the lock
            res['all_tried'] = wait_for('tried', nchild, 30)
            wait_for('done', nchild, grace)       # nobody can be done on a correct tree: this is the grace period
            res['done_while_parent_inside'] = len(have('done'))
            res['value_before_parent_update'] = tg.snapshot(obj)
            raw = raw_of(obj)
            if isinstance(raw, ctypes.Array):     # the parent's read-modify-write: what it read at the start, plus one
                for j, x in enumerate(res['value_at_acquire']):
                    raw[j] = x + 1
            else:
                raw.value = res['value_at_acquire'] + 1
            res['t_release'] = time.monotonic()
        finally:
            lock.release()
        res['all_done'] = wait_for('done', nchild, 40)
        for p in procs:
            p.join(5)
        res['exitcodes'] = [p.exitcode for p in procs]
        res['tried'] = sorted(have('tried'), key=lambda m: m['id'])
        res['done'] = sorted(have('done'), key=lambda m: m['id'])
        res['final'] = tg.snapshot(obj)
        res['lock_value_final'] = lock._semlock._get_value()
    except Exception as exc:            # reported, judged by the caller
        res['error'] = '%s: %s' % (type(exc).__name__, str(exc)[:300])
    finally:
        signal.alarm(0)
        signal.signal(signal.SIGALRM, old_handler)
        for p in procs:
            if p._popen is not None and p.exitcode is None:
                try:
                    p.terminate()
                except Exception:
                    pass
        for fd in (r, w):
            if fd is not None:
                try:
                    os.close(fd)
                except OSError:
                    pass
    return res


# ---------------------------------------------------------------- real processes (thorough)
def run_procs(c):
    import billiard
    from sharedmem_targets import child_visibility, child_incr
    bh.Arena = REAL_ARENA
    bh.mmap = real_mmap
    bh.BufferWrapper._heap = bh.Heap()
    out = {}
    for method in c.get('methods', ['fork']):
        res = {}
        try:
            ctx = billiard.get_context(method)
            v = sc.Value('i', 5, ctx=ctx)
            arr = sc.Array('d', [0.25, 0.5, 0.75, 1.0], ctx=ctx)
            raw = sc.RawValue('h', 12)
            pc, cc = ctx.Pipe()
            p = ctx.Process(target=child_visibility, args=(v, arr, raw, cc))
            p.start()
            first = pc.recv() if pc.poll(60) else None
            after_child = [v.value, list(arr), raw.value]
            v.value = 1234
            arr[0] = -2.0
            raw.value = 31
            pc.send('go')
            second = pc.recv() if pc.poll(60) else None
            p.join(60)
            res['visibility'] = dict(child_saw_initial=first, parent_saw_child_writes=after_child,
                                     child_saw_parent_writes=second, exitcode=p.exitcode)
            nproc, n = c.get('nproc', 4), c.get('n', 2000)
            cnt = sc.Value('i', 0, ctx=ctx)
            ps = [ctx.Process(target=child_incr, args=(cnt, n, True)) for _ in range(nproc)]
            for p in ps:
                p.start()
            for p in ps:
                p.join(300)
            res['locked_increments'] = dict(expected=nproc * n, got=cnt.value,
                                            exitcodes=[p.exitcode for p in ps])
        except Exception as exc:            # reported, judged by the caller
            res['error'] = '%s: %s' % (type(exc).__name__, str(exc)[:300])
        out[method] = res
    return out


if __name__ == '__main__':
    req = json.load(sys.stdin)
    if req['mode'] == 'mem':
        res = [run_mem_case(c) for c in req['cases']]
    elif req['mode'] == 'trace':
        res = run_traces()
    elif req['mode'] == 'locks':
        res = run_locks()
    elif req['mode'] == 'hops':
        res = [run_hops_case(c) for c in req['cases']]
    elif req['mode'] == 'chain':
        res = [run_chain_case(c) for c in req['cases']]
    elif req['mode'] == 'orphan':
        res = [run_orphan_case(c) for c in req['cases']]
    elif req['mode'] == 'forklock':
        res = [run_forklock_case(c) for c in req['cases']]
    else:
        res = run_procs(req)
    bh.Arena = REAL_ARENA
    bh.mmap = real_mmap
    sys.stdout.flush()
    print(json.dumps(res))
    sys.stdout.flush()
    os._exit(0)
