"""Real-process scenarios for the pool (validation of the runtime assumptions of the
pool model: signals really end workers, join/terminate really return, no process or
thread is left behind).  Each scenario runs in its own interpreter with a watchdog.

usage: realpool_driver.py            stdin: JSON list of scenario specs -> JSON list of results
       realpool_driver.py --one      stdin: one spec                    -> one result (internal)
"""
import json
import os
import signal
import subprocess
import sys
import threading
import time

HERE = os.path.dirname(os.path.abspath(__file__))


# ---------------------------------------------------------------- task functions
def t_sleep(n):
    time.sleep(n)
    return n


def t_double(x):
    return 2 * x


def t_kill_self(sig):
    os.kill(os.getpid(), sig)
    time.sleep(30)


def t_catch_soft(n):
    from billiard.exceptions import SoftTimeLimitExceeded
    try:
        time.sleep(n)
    except SoftTimeLimitExceeded:
        return 'caught'
    return 'not raised'


def t_catch_soft_then_sleep(n):
    from billiard.exceptions import SoftTimeLimitExceeded
    try:
        time.sleep(n)
    except SoftTimeLimitExceeded:
        time.sleep(n)
    return n


def t_in_handler(n):
    try:
        raise ValueError('x')
    except ValueError:
        time.sleep(n)        # the termination signal arrives while inside this handler
    return n


def t_pid(_):
    return os.getpid()


class CleanupFailed(Exception):
    pass


def t_convert_exit(n):
    """A task whose cleanup code turns whatever interrupts it (the SystemExit raised by the
    termination-signal handler included) into an exception of its own."""
    try:
        time.sleep(n)
    except BaseException:
        raise CleanupFailed('cleanup')
    return n


def t_finally_raises(n):
    try:
        time.sleep(n)
    finally:
        raise CleanupFailed('finally')


def init_reset_usr1(how):
    """An initializer that touches the disposition of the soft-timeout signal (as Celery's
    process_initializer does with signals.reset(*WORKER_SIGRESET))."""
    signal.signal(signal.SIGUSR1, dict(dfl=signal.SIG_DFL, ign=signal.SIG_IGN)[how])


def t_lose_wlock_at_term(n):
    """Stand-in for the race "SIGTERM's handler raises SystemExit between the acquire and the with
    block of send_payload()": at SIGTERM this worker keeps the result queue's write lock and then
    runs the pool's own handler.  An exiting worker must not wait for that lock forever."""
    import gc
    import billiard.pool as bp
    w = [o for o in gc.get_objects() if isinstance(o, bp.Worker)][0]
    orig = signal.getsignal(signal.SIGTERM)

    def on_term(signum, frame):
        w.outq._wlock.acquire(False)     # never wait inside this stand-in itself
        return orig(signum, frame)
    signal.signal(signal.SIGTERM, on_term)
    time.sleep(n)
    return n


class _SlowReleaseLock:
    """the result queue's write lock of THIS worker, released half a second late: stands for a worker
    that is descheduled between writing its last message and releasing the lock (machine under load)"""
    def __init__(self, lock):
        self._lock = lock

    def acquire(self, *a, **kw):
        return self._lock.acquire(*a, **kw)

    def release(self):
        time.sleep(0.5)
        return self._lock.release()

    def __enter__(self):
        return self._lock.__enter__()

    def __exit__(self, *exc):
        time.sleep(0.5)
        return self._lock.__exit__(*exc)


def t_term_self_slow_release(sig):
    """the task raises the termination signal on its own process (as t_kill_self), in a worker whose
    release of the result queue's write lock is slow: the parent's answer to the DEATH message must not
    find the exiting worker holding that lock"""
    import gc
    import billiard.pool as bp
    w = [o for o in gc.get_objects() if isinstance(o, bp.Worker)][0]
    w.outq._wlock = _SlowReleaseLock(w.outq._wlock)
    os.kill(os.getpid(), sig)
    time.sleep(30)


def alive(pid):
    try:
        os.kill(pid, 0)
    except OSError:
        return False
    # a zombie still answers kill(0): look at its state
    try:
        with open('/proc/%d/stat' % pid) as fh:
            return fh.read().split(') ')[-1].split()[0] != 'Z'
    except OSError:
        return False


def census(pool, pids):
    return dict(
        workers_alive=sum(1 for p in pids if alive(p)),
        supervisor=pool._worker_handler.is_alive(),
        task_handler=pool._task_handler.is_alive(),
        result_handler=pool._result_handler.is_alive(),
        timeout_handler=(pool._timeout_handler.is_alive() if pool._timeout_handler is not None else None),
    )


def outcome(r, wait=0):
    try:
        return ['ok', r.get(timeout=wait)]
    except Exception as exc:      # noqa
        inner = getattr(exc, 'exc', exc)
        name = type(inner).__name__
        if name == 'TimeoutError':
            return ['unresolved']
        return ['exc', name, [str(a)[:80] for a in getattr(inner, 'args', ())]]


TEARDOWN = []      # pools whose terminate() is NOT the subject of the scenario: stopped after the result is reported
REPORTED = [False]


def run_one(spec):
    import billiard.pool as bp
    kind = spec['kind']
    res = dict(kind=kind, spec=spec)
    t0 = time.time()
    if kind == 'close_join':
        # threads=False: a pool without helper threads (an external event loop's pool); join() then
        # runs the handlers' shutdown code itself and must drain the results of jobs still running
        pool = bp.Pool(spec.get('n', 2), maxtasksperchild=spec.get('maxtasks'),
                       timeout=spec.get('hard'), threads=spec.get('threads', True))
        pids = [p.pid for p in pool._pool]
        if spec.get('sleep'):
            rs = [pool.apply_async(t_sleep, (spec['sleep'],)) for i in range(spec.get('applies', 4))]
        else:
            rs = [pool.apply_async(t_double, (i,)) for i in range(spec.get('applies', 4))]
        mr = pool.map_async(t_double, list(range(spec['map']))) if spec.get('map') else None
        im = pool.imap(t_double, list(range(spec['imap']))) if spec.get('imap') else None
        time.sleep(spec.get('before_close', 0.0))
        pool.close()
        late = pool.apply_async(t_double, (99,))
        late_others = [pool.map_async(t_double, [1, 2]), pool.imap(t_double, [1, 2]), pool.imap_unordered(t_double, [1, 2]),
                       pool.starmap_async(t_double, [(1,)]), pool.apply(t_double, (3,)), pool.map(t_double, [1])]
        t1 = time.time()
        pool.join()
        res['join_s'] = round(time.time() - t1, 2)
        allpids = set(pids) | {p.pid for p in pool._pool}
        res['results'] = [outcome(r) for r in rs]
        res['expected'] = [['ok', spec['sleep'] if spec.get('sleep') else 2 * i] for i in range(spec.get('applies', 4))]
        if spec.get('overrun'):
            # the jobs outlive the pool's hard time limit during the drain: they fail with TimeLimitExceeded
            res['results'] = [x[:2] for x in res['results']]
            res['expected'] = [['exc', 'TimeLimitExceeded'] for _ in range(spec.get('applies', 4))]
        if mr is not None:
            res['map'] = outcome(mr)
            res['map_expected'] = ['ok', [2 * i for i in range(spec['map'])]]
        if im is not None:
            items = []
            try:
                for _ in range(spec['imap']):
                    items.append(im.next(timeout=0.01))
            except Exception as exc:   # noqa
                items.append('missing:%s' % type(exc).__name__)
            res['imap'] = items
            res['imap_expected'] = [2 * i for i in range(spec['imap'])]
        res['late_refused'] = late is None and all(x is None for x in late_others)
        res['census'] = census(pool, allpids)
    elif kind == 'terminate':
        pool = bp.Pool(spec.get('n', 2), threads=True, maxtasksperchild=spec.get('maxtasks'), timeout=spec.get('hard'))
        pids = [p.pid for p in pool._pool]
        # job_limit: a per-job time limit on a pool that may have been created without limits
        done = pool.apply_async(t_double, (21,), timeout=spec.get('job_limit'), soft_timeout=spec.get('job_soft'))
        done.get(timeout=10)
        if spec.get('maxtasks'):
            # every original worker is recycled first: terminate() then has to deal with replacements
            warm = [pool.apply_async(t_double, (i,)) for i in range(spec.get('n', 2) * spec['maxtasks'])]
            for w in warm:
                w.get(timeout=10)
            deadline = time.time() + 10
            while time.time() < deadline and (set(pids) & {p.pid for p in pool._pool} or len(pool._pool) < spec.get('n', 2)):
                time.sleep(0.1)
            res['replaced'] = not (set(pids) & {p.pid for p in pool._pool})
            time.sleep(0.3)
        if spec['state'] == 'lazy_imap':
            # the task handler is in the MIDDLE of a task sequence (inside a lazy iterable that is slow
            # to produce its next item) and the workers are idle when terminate() is called
            import threading
            first_done = threading.Event()

            def slow_items():
                yield 0
                first_done.wait(10)
                time.sleep(1.2)
                yield 1
                time.sleep(1.2)
                yield 2
            it = pool.imap(t_double, slow_items())
            res['first_item'] = it.next(timeout=10)
            first_done.set()
            time.sleep(0.3)
        fn = dict(idle=None, busy=t_sleep, handler=t_in_handler, lock_lost=t_lose_wlock_at_term, lazy_imap=None)[spec['state']]
        rs = []
        if fn is not None:
            rs = [pool.apply_async(fn, (30,)) for _ in range(spec.get('jobs', spec.get('n', 2)))]
            rs += [pool.apply_async(t_sleep, (30,)) for _ in range(spec.get('queued', 0))]
            time.sleep(1.0)
        t1 = time.time()
        pool.terminate()
        res['terminate_s'] = round(time.time() - t1, 2)
        t2 = time.time()
        pool.terminate()
        res['second_terminate_s'] = round(time.time() - t2, 2)
        res['done_intact'] = outcome(done)
        res['census'] = census(pool, set(pids) | {p.pid for p in pool._pool})
        time.sleep(1.5)
        res['census_late'] = census(pool, set(pids) | {p.pid for p in pool._pool})
    elif kind == 'terminate_after_signal':
        # a worker that was sent a NON-fatal signal through terminate_job() and keeps running
        pool = bp.Pool(spec.get('n', 2), threads=True)
        pids = [p.pid for p in pool._pool]
        owner = []
        r = pool.apply_async(t_catch_soft_then_sleep, (30,), accept_callback=lambda pid, t: owner.append(pid))
        deadline = time.time() + 5
        while not owner and time.time() < deadline:
            time.sleep(0.05)
        time.sleep(0.3)
        if owner:
            pool.terminate_job(owner[0], spec.get('sig', int(signal.SIGUSR1)))
        time.sleep(0.7)
        res['owner_alive_before_terminate'] = alive(owner[0]) if owner else None
        t1 = time.time()
        pool.terminate()
        res['terminate_s'] = round(time.time() - t1, 2)
        res['census'] = census(pool, set(pids) | {p.pid for p in pool._pool})
        time.sleep(1.5)
        res['census_late'] = census(pool, set(pids) | {p.pid for p in pool._pool})
    elif kind == 'hard_timeout':
        pool = bp.Pool(spec.get('n', 1), timeout=spec.get('hard', 1), threads=True)
        pool.apply_async(t_pid, (0,)).get(timeout=10)
        owner = []
        fn = dict(sleep=t_sleep, convert=t_convert_exit, finally_raises=t_finally_raises)[spec.get('task', 'sleep')]
        r = pool.apply_async(fn, (30,), accept_callback=lambda pid, t: owner.append(pid))
        t1 = time.time()
        res['outcome'] = outcome(r, wait=spec.get('hard', 1) + 6)
        res['failed_after_s'] = round(time.time() - t1, 2)
        time.sleep(1.5)
        res['owner_known'] = bool(owner)
        res['old_worker_alive'] = alive(owner[0]) if owner else None
        later = pool.apply_async(t_double, (5,))
        res['later'] = outcome(later, wait=10)
        if res['later'] == ['unresolved']:
            # where is the later job stuck?  still unread in the task pipe (no worker can take the
            # task queue's read lock), or taken by the replacement worker (which cannot answer)
            try:
                res['task_unread'] = bool(pool._inqueue._reader.poll(0))
                res['later_accepted'] = bool(later._accepted)
            except Exception as exc:   # noqa
                res['task_unread'] = 'error:%s' % type(exc).__name__
        TEARDOWN.append(pool)
    elif kind == 'soft_timeout':
        kw = {}
        if spec.get('initializer'):
            kw = dict(initializer=init_reset_usr1, initargs=(spec['initializer'],))
        pool = bp.Pool(1, soft_timeout=1, timeout=10, threads=True, **kw)
        r = pool.apply_async(t_catch_soft, (8,))
        res['outcome'] = outcome(r, wait=9)
        TEARDOWN.append(pool)
    elif kind == 'worker_lost':
        pool = bp.Pool(2, lost_worker_timeout=1, threads=True)
        other = pool.apply_async(t_sleep, (1.5,))
        r = pool.apply_async(t_term_self_slow_release if spec.get('slow_release') else t_kill_self, (spec.get('sig', 9),))
        t1 = time.time()
        res['outcome'] = outcome(r, wait=8)
        res['lost_after_s'] = round(time.time() - t1, 2)
        res['other'] = outcome(other, wait=8)
        res['later'] = outcome(pool.apply_async(t_double, (7,)), wait=8)
        res['size'] = len(pool._pool)
        if res['other'][0] != 'ok' or res['later'][0] != 'ok':
            # diagnosis of a wedged pool: which lock is lost, who is alive, where the workers sleep
            diag = {}
            for name, lk in (('out_wlock', pool._outqueue._wlock), ('out_rlock', pool._outqueue._rlock),
                             ('in_rlock', pool._inqueue._rlock), ('in_wlock', getattr(pool._inqueue, '_wlock', None))):
                if lk is None:
                    continue
                got = lk.acquire(False)
                diag[name] = 'free' if got else 'HELD'
                if got:
                    lk.release()
            diag['threads'] = dict(result=pool._result_handler.is_alive(), task=pool._task_handler.is_alive(),
                                   supervisor=pool._worker_handler.is_alive())
            diag['workers'] = []
            for w in pool._pool:
                try:
                    wchan = open('/proc/%d/wchan' % w.pid).read()
                except OSError:
                    wchan = '?'
                diag['workers'].append([w.pid, alive(w.pid), wchan])
            diag['task_unread'] = bool(pool._inqueue._reader.poll(0))
            diag['result_unread'] = bool(pool._outqueue._reader.poll(0))
            res['diag'] = diag
        TEARDOWN.append(pool)
    elif kind == 'recycle':
        pool = bp.Pool(spec.get('n', 2), maxtasksperchild=spec.get('maxtasks', 2), threads=True)
        rs = [pool.apply_async(t_pid, (i,)) for i in range(spec.get('jobs', 12))]
        deadline = time.time() + spec.get('deadline', 45)
        while time.time() < deadline and not all(r.ready() for r in rs):
            time.sleep(0.1)
        res['all_ready_after_s'] = round(time.time() - t0, 2)
        pids = [outcome(r, wait=0) for r in rs]
        res['unresolved'] = sum(1 for p in pids if p[0] != 'ok')
        counts = {}
        for p in pids:
            if p[0] == 'ok':
                counts[p[1]] = counts.get(p[1], 0) + 1
        res['max_jobs_per_pid'] = max(counts.values()) if counts else 0
        res['quota'] = spec.get('maxtasks', 2)
        time.sleep(1.5)      # let workers that are on their way out finish exiting
        TEARDOWN.append(pool)
    elif kind == 'restart_budget':
        # C11 on a real pool with its supervisor thread, after the start-up phase: abnormal exits
        # with an accepted job between any two of them never exhaust the budget; `rounds` abnormal
        # exits WITHOUT acceptances in one window do (the pool then gives up)
        import billiard.pool as bp_
        gave_up = []
        signal.signal(signal.SIGTERM, lambda *a: gave_up.append(round(time.time() - t0, 2)))
        pool = bp.Pool(spec.get('n', 2), max_restarts=spec.get('max_restarts', 3),
                       max_restart_freq=spec.get('window', 60), threads=True)
        res['first'] = outcome(pool.apply_async(t_double, (21,)), wait=10)
        time.sleep(spec.get('after_startup', 2.5))
        log = []
        for rnd in range(spec.get('rounds', 5)):
            before = {p.pid for p in pool._pool}
            if spec.get('accept_between', True):
                pool.apply_async(t_kill_self, (int(signal.SIGKILL),))
            else:
                # no acceptance at all in this variant (a task that kills its worker is accepted first):
                # an idle worker is told to go; it leaves through the pool's own handler, status != 0
                os.kill(sorted(before)[0], signal.SIGTERM)
            deadline = time.time() + 8
            replaced = False
            while time.time() < deadline and not gave_up:
                pids = {p.pid for p in list(pool._pool)}
                if None not in pids and pids != before and len(pids) == spec.get('n', 2) and all(alive(x) for x in pids):
                    replaced = True
                    break
                time.sleep(0.05)
            entry = dict(round=rnd, replaced=replaced, R=pool.restart_state.R)
            if gave_up:
                entry['gave_up'] = True
                log.append(entry)
                break
            if spec.get('accept_between', True):
                entry['job'] = outcome(pool.apply_async(t_double, (rnd,)), wait=10)
                entry['R_after_job'] = pool.restart_state.R
            log.append(entry)
        res['log'] = log
        res['gave_up'] = bool(gave_up)
        TEARDOWN.append(pool)
    elif kind == 'closed_system':
        # nothing goes wrong: what Props/C01.v C01_completion_when_nothing_fails and
        # Props/C10.v C10_all_slots_back_at_the_end say about the model, on the real composition
        pool = bp.Pool(spec.get('n', 2), putlocks=spec.get('putlocks', True), threads=True)
        cbs = {}
        errs = []
        rs = []
        for i in range(spec.get('jobs', 10)):
            rs.append(pool.apply_async(t_double, (i,), callback=lambda v, i=i: cbs.setdefault(i, []).append(v),
                                       error_callback=lambda e: errs.append(repr(e))))
        deadline = time.time() + spec.get('deadline', 30)
        while time.time() < deadline and not all(r.ready() for r in rs):
            time.sleep(0.05)
        time.sleep(0.3)
        res['results'] = [outcome(r) for r in rs]
        res['expected'] = [['ok', 2 * i] for i in range(len(rs))]
        res['callbacks'] = [cbs.get(i, []) for i in range(len(rs))]
        res['error_callbacks'] = errs
        res['slots'] = [pool._putlock._value, pool._putlock._initial_value] if pool._putlock is not None else None
        res['cache_left'] = len(pool._cache)
        TEARDOWN.append(pool)
    else:
        res['error'] = 'unknown scenario'
    res['wall_s'] = round(time.time() - t0, 2)
    return res


def run_batch(specs):
    procs = []
    for sp in specs:
        out = open(os.path.join('/tmp', 'rp_%d_%d_%d.out' % (os.getpid(), id(sp) % 100000, len(procs))), 'w+')
        p = subprocess.Popen([sys.executable, '-u', os.path.abspath(__file__), '--one'],
                             stdin=subprocess.PIPE, stdout=out, stderr=subprocess.DEVNULL,
                             text=True, start_new_session=True, cwd=HERE)
        p.stdin.write(json.dumps(sp))
        p.stdin.close()
        procs.append((p, out, sp))
    results = []
    for p, out, sp in procs:
        try:
            p.wait(timeout=sp.get('watchdog', 60) + 15)
        except subprocess.TimeoutExpired:
            try:
                os.killpg(p.pid, signal.SIGKILL)
            except OSError:
                pass
        out.seek(0)
        r = None
        for ln in reversed(out.read().strip().split('\n')):
            try:
                r = json.loads(ln)
                break
            except ValueError:
                continue
        results.append(r or dict(kind=sp['kind'], spec=sp, hang=True, error='no output'))
        name = out.name
        out.close()
        os.remove(name)
    return results


def main():
    if '--one' in sys.argv:
        spec = json.load(sys.stdin)
        limit = spec.get('watchdog', 60)

        import faulthandler
        childlog = '/tmp/rp_children_%d.txt' % os.getpid()
        childfh = open(childlog, 'w')
        # inherited by forked workers; SIGURG is not touched by billiard's reset_signals
        faulthandler.register(signal.SIGURG, file=childfh, all_threads=True, chain=False)

        def watchdog():
            time.sleep(limit)
            stacks = ''
            children = ''
            try:
                me = os.getpid()
                kids = []
                for d in os.listdir('/proc'):
                    if d.isdigit():
                        try:
                            st = open('/proc/%s/stat' % d).read().split(') ')[-1].split()
                            if int(st[1]) == me and st[0] != 'Z':
                                kids.append(int(d))
                        except (OSError, ValueError, IndexError):
                            pass
                for k in kids:
                    try:
                        childfh.write('\n=== child %d wchan=%s ===\n' % (k, open('/proc/%d/wchan' % k).read()))
                        childfh.flush()
                        os.kill(k, signal.SIGURG)
                    except OSError:
                        pass
                time.sleep(0.7)
                children = open(childlog).read()[-5000:]
            except Exception as exc:      # noqa
                children = 'child dump failed: %r' % (exc,)
            try:
                import faulthandler
                import tempfile
                with tempfile.TemporaryFile('w+') as fh:
                    faulthandler.dump_traceback(file=fh, all_threads=True)
                    fh.seek(0)
                    stacks = fh.read()[-6000:]
            except Exception:      # noqa
                pass
            if not REPORTED[0]:
                sys.stdout.write('\n' + json.dumps(dict(kind=spec['kind'], spec=spec, hang=True, wall_s=limit, stacks=stacks, children=children)) + '\n')
                sys.stdout.flush()
            os.killpg(os.getpgid(0), signal.SIGKILL)
        threading.Thread(target=watchdog, daemon=True).start()
        import logging
        logging.disable(logging.CRITICAL)
        try:
            out = run_one(spec)
        except BaseException as exc:    # noqa
            import traceback
            out = dict(kind=spec['kind'], spec=spec, error='%s: %s' % (type(exc).__name__, exc), trace=traceback.format_exc()[-1500:])
        sys.stdout.write('\n' + json.dumps(out) + '\n')
        sys.stdout.flush()
        REPORTED[0] = True
        for pl in TEARDOWN:          # not part of the verdict; the watchdog ends us if this hangs
            try:
                pl.terminate()
            except BaseException:    # noqa
                pass
        try:
            os.remove(childlog)
        except OSError:
            pass
        os._exit(0)
    specs = json.load(sys.stdin)
    results = []
    width = int(os.environ.get('REALPOOL_PARALLEL', '4'))
    for b in range(0, len(specs), width):
        results.extend(run_batch(specs[b:b + width]))
    print(json.dumps(results))


if __name__ == '__main__':
    main()
