"""C20 driver: runs the REAL billiard.managers code.

mode 'server' : a real `Server` object used in-process.  Every connection of a case goes through
                the real Server.handle_request with a scripted connection object that plays the
                client's half of the handshake (correctly or not), delivers one request, and --
                for accept_connection -- the scripted calls that the real Server.serve_client
                reads until EOFError.  Observed: whether a request was read, everything sent,
                the exit code of the serving thread, and a snapshot of id_to_obj/id_to_refcount.
mode 'client' : the real server loop (accepter / handle_request / serve_client threads) in this
                process, real SyncManager-style proxies created with the real BaseManager
                machinery over real connections; proxies are copied by pickling, dropped, and
                called; the tables are read directly after every operation.
mode 'procs'  : a real manager process, proxies passed to child processes (forked, or started
                with the spawn / forkserver method with the proxy as a Process argument).
mode 'life'   : the real SyncManager with the typeids it registers itself (Queue, JoinableQueue,
                Event, Lock, ..., list, dict, Value, Array, Namespace): proxies are created, handed
                to children started with fork / spawn / forkserver as Process arguments, used there
                and in the parent (the same statements run on a local twin object), dropped and the
                children exit in a scripted order; after every step the reference counts are read
                through debug_info().

stdin: JSON {mode, cases}; stdout: last line JSON results.  Idents (hex of id(obj)) are renamed
to 1, 2, 3 ... in order of first appearance; referents are kept alive so that an address is
never reused inside a case."""
import copy
import gc
import hmac
import json
import os
import pickle
import re
import signal
import sys
import threading

from billiard import connection, managers, process, util
from billiard.managers import Server, SyncManager, BaseManager, BaseProxy, ListProxy, Token, AutoProxy

KEY = b'verif-key'


class Shelf(list):
    """harness referent with proxy-returning methods (method_to_typeid)"""

    def clone(self):
        return list(self)

    def me(self):
        return self


LIST_EXPOSED = ListProxy._exposed_
REGISTRY = dict(SyncManager._registry)
REGISTRY['Shelf'] = (Shelf, LIST_EXPOSED, {'clone': 'list', 'me': 'ShelfRef'}, ListProxy)
REGISTRY['ShelfRef'] = (None, ('append', '__len__', '__getitem__'), None, ListProxy)

EXN = {'IndexError': 'E_Index', 'KeyError': 'E_Key', 'ValueError': 'E_Value', 'TypeError': 'E_Type',
       'AttributeError': 'E_Attribute', 'StopIteration': 'E_StopIteration',
       'AssertionError': 'E_Assertion', 'AuthenticationError': 'E_Auth', 'EOFError': 'E_EOF',
       'OSError': 'E_OS'}


def exn_kind(name):
    return EXN.get(name.split('.')[-1], 'E_Other:' + name)


def tb_kind(text):
    lines = [ln for ln in text.strip().split('\n') if ln.strip()]
    return exn_kind(re.split(r'[:\s]', lines[-1].strip(), maxsplit=1)[0])


def dec_arg(a, typ=None):
    k = a[0]
    if k == 'z':
        return a[1]
    if k == 'l':
        if typ == 'Iterator':
            return iter(list(a[1]))
        if typ == 'ShelfRef':
            return Shelf(a[1])
        return list(a[1])
    if k == 'd':
        return dict((x, y) for x, y in a[1])
    return None


def enc_obj(o):
    if isinstance(o, list):
        return ['L', list(o)]
    if isinstance(o, dict):
        return ['D', [[k, v] for k, v in o.items()]]
    if isinstance(o, managers.Value):
        return ['V', o._value]
    if hasattr(o, '__next__'):
        return ['I', list(copy.copy(o))]
    return ['?', repr(o)[:60]]


def parse_str(s):
    import ast
    m = re.match(r"Value\((.*), (-?\d+)\)$", s)
    if m:
        return ['V', int(m.group(2))]
    try:
        return enc_obj(ast.literal_eval(s))
    except Exception:
        return ['?', s[:60]]


def enc_val(v, meth=None):
    if meth == '#GETVALUE':
        return ['o', enc_obj(v)]
    if meth in ('__str__', '__repr__') and isinstance(v, str):
        return ['s', parse_str(v)]
    if v is None:
        return ['none']
    if isinstance(v, bool):
        return ['b', v]
    if isinstance(v, int):
        return ['i', v]
    if meth == 'items' and isinstance(v, list):       # pickled dict_items arrive as a list of tuples
        return ['ps', [[a, b] for a, b in v]]
    if isinstance(v, (list, type({}.keys()), type({}.values()))):
        return ['l', list(v)]
    if isinstance(v, type({}.items())):
        return ['ps', [[a, b] for a, b in v]]
    if isinstance(v, dict):
        return ['d', [[a, b] for a, b in v.items()]]
    if isinstance(v, tuple) and len(v) == 2 and all(isinstance(x, int) for x in v):
        return ['p', v[0], v[1]]
    return ['?', repr(v)[:80]]


class Ids:
    """ident string <-> small integer, in order of first appearance; keeps referents alive"""

    def __init__(self, srv):
        self.srv = srv
        self.mid = {'0': 0}
        self.real = {0: '0'}
        self.keep = []

    def scan(self):
        new = 0
        for ident, ent in list(self.srv.id_to_obj.items()):
            if ident not in self.mid:
                n = len(self.mid)
                self.mid[ident] = n
                self.real[n] = ident
                self.keep.append(ent[0])
                new = n
        return new

    def to_real(self, n):
        return self.real.get(n, 'x%d' % n)

    def snapshot(self):
        out = []
        rcs = dict(self.srv.id_to_refcount)
        for ident, ent in self.srv.id_to_obj.items():
            if ident == '0':
                continue
            out.append([self.mid[ident], rcs.pop(ident, -1), enc_obj(ent[0])])
        for ident, n in rcs.items():
            out.append([self.mid.get(ident, 99), n, ['?', 'refcount without object']])
        return sorted(out, key=lambda e: e[0])


def enc_reply(msg, ids, meth=None, created=False, referent=None):
    kind, res = msg
    if kind == '#RETURN':
        if created:
            return ['ret', ['created', ids.mid.get(res[0], -1)]]
        v = enc_val(res, meth)
        if v[0] == 's' and v[1][0] == '?' and referent is not None and hasattr(referent, '__next__'):
            v = ['s', enc_obj(referent)]
        return ['ret', v]
    if kind == '#ERROR':
        return ['err', exn_kind(type(res).__name__)]
    if kind == '#TRACEBACK':
        return ['tb', tb_kind(res)]
    if kind == '#PROXY':
        return ['proxy', ids.mid.get(res[1].id, -1), res[1].typeid]
    if kind == '#UNSERIALIZABLE':
        return ['unser']
    return ['?', kind]


class HConn:
    """scripted connection given to the real Server.handle_request"""

    def __init__(self, ids, hs, request, hsf, calls):
        self.ids, self.hs, self.request, self.calls = ids, hs, request, list(calls)
        self.sf = hsf
        self.stage = 0
        self.pending = None
        self.log = []
        self.sent = []            # (msg, meth, created)
        self.cur = (None, False)
        self.reads = 0
        self.closed = False
        self.newids = []
        self.referent = None
        self.mark = len(ids.mid)
        self.my_challenge = b'\x07' * connection.MESSAGE_LENGTH

    # --- the byte-level handshake (client side played here)
    def send_bytes(self, b):
        self.log.append('send_bytes')
        if self.stage == 0:                      # server's challenge
            assert b.startswith(connection.CHALLENGE)
            msg = b[len(connection.CHALLENGE):]
            key = KEY if self.hs not in ('bad_digest', 'wrong_key') else b'not-the-key'
            self.pending = hmac.new(key, msg, 'md5').digest()
            self.stage = 1
        elif self.stage == 2:                    # WELCOME / FAILURE
            self.verdict = b
            self.stage = 3
        elif self.stage == 4:                    # server's digest of our challenge
            good = hmac.new(KEY if self.hs != 'wrong_key' else b'not-the-key',
                            self.my_challenge, 'md5').digest() == b
            self.pending = connection.WELCOME if (good and self.hs != 'reject') else connection.FAILURE
            self.stage = 5

    def recv_bytes(self, maxlength=None):
        self.log.append('recv_bytes')
        if self.stage == 1:
            self.stage = 2
            if self.hs == 'eof_digest':
                raise EOFError
            return self.pending
        if self.stage == 3:
            self.stage = 4
            if self.hs == 'bad_challenge':
                return b'#NONSENSE#' + self.my_challenge
            return connection.CHALLENGE + self.my_challenge
        if self.stage == 5:
            self.stage = 6
            return self.pending
        raise EOFError

    def new_since_mark(self):
        self.ids.scan()
        return len(self.ids.mid) - 1 if len(self.ids.mid) > self.mark else 0

    # --- requests
    def recv(self):
        self.log.append('recv')
        self.reads += 1
        if self.reads > 2:
            self.newids.append(self.new_since_mark())    # what the previous call created
        self.mark = len(self.ids.mid)
        if self.reads == 1:
            r = self.request
            if r[0] == 'eof':
                raise EOFError
            if r[0] == 'malformed':
                return 5
            if r[0] == 'notpublic':
                return (None, 'serve_client', (), {})
            if r[0] == 'create':
                self.cur = (None, True)
                return (None, 'create', (r[1],) + tuple(dec_arg(a, r[1]) for a in r[2]), {})
            if r[0] in ('incref', 'decref'):
                return (None, r[0], (self.ids.to_real(r[1]),), {})
            if r[0] == 'numobj':
                return (None, 'number_of_objects', (), {})
            if r[0] == 'dummy':
                return (None, 'dummy', (), {})
            if r[0] == 'accept':
                return (None, 'accept_connection', ('verif-client',), {})
            raise RuntimeError('bad request %r' % (r,))
        if not self.calls:
            raise EOFError
        c = self.calls.pop(0)
        if c[0] == 'malformed':
            self.sf = c[1]
            self.cur = (None, False)
            return 5
        _, mid, meth, args, sf = c
        self.sf = sf
        self.cur = (meth, False)
        ent = self.ids.srv.id_to_obj.get(self.ids.to_real(mid))
        self.referent = ent[0] if ent else None
        return (self.ids.to_real(mid), meth, tuple(dec_arg(a) for a in args), {})

    def send(self, msg):
        self.log.append('send')
        if self.sf > 0:
            self.sf -= 1
            raise TypeError('cannot pickle this (scripted send failure)')
        created = self.cur[1] and msg[0] == '#RETURN' and isinstance(msg[1], tuple)
        if created or msg[0] == '#PROXY':
            self.ids.scan()
        # encode now: without pickling the reply may alias the (mutable) referent
        self.sent.append(enc_reply(msg, self.ids, self.cur[0], created, self.referent))

    def close(self):
        self.log.append('close')
        self.closed = True


class TrackLock:
    """stands in for Server.mutex (a real RLock inside): remembers which thread holds it"""

    def __init__(self, inner):
        self.inner = inner
        self.owner = None
        self.depth = 0

    def acquire(self, *a, **kw):
        got = self.inner.acquire(*a, **kw)
        if got:
            self.owner = threading.get_ident()
            self.depth += 1
        return got

    def release(self):
        self.depth -= 1
        if self.depth == 0:
            self.owner = None
        self.inner.release()

    def __enter__(self):
        self.acquire()
        return self

    def __exit__(self, *a):
        self.release()

    def held(self):
        return self.owner == threading.get_ident()


class GuardedDict(dict):
    """stands in for Server.id_to_obj / id_to_refcount: every mutation made while the calling
    thread does not hold Server.mutex is recorded as (table, operation, function)"""

    def _note(self, op):
        if not self._lock.held():
            self._log.append([self._name, op, sys._getframe(2).f_code.co_name])

    def __setitem__(self, k, v):
        self._note('store')
        dict.__setitem__(self, k, v)

    def __delitem__(self, k):
        self._note('del')
        dict.__delitem__(self, k)

    def pop(self, *a):
        self._note('pop')
        return dict.pop(self, *a)

    def popitem(self):
        self._note('popitem')
        return dict.popitem(self)

    def clear(self):
        self._note('clear')
        dict.clear(self)

    def update(self, *a, **kw):
        self._note('update')
        dict.update(self, *a, **kw)

    def setdefault(self, *a):
        self._note('setdefault')
        return dict.setdefault(self, *a)


def guard_tables(srv):
    """-> the list that collects table mutations made without the server's mutex"""
    log = []
    lock = TrackLock(srv.mutex)
    for name in ('id_to_obj', 'id_to_refcount'):
        d = GuardedDict(getattr(srv, name))
        d._lock, d._log, d._name = lock, log, name
        setattr(srv, name, d)
    srv.mutex = lock
    return log


def run_server_case(case):
    srv = Server(REGISTRY, None, KEY, 'pickle')
    srv.stop_event = threading.Event()
    unlocked = guard_tables(srv)
    ids = Ids(srv)
    out = []
    try:
        for cn in case:
            req = cn['req']
            calls = req[1] if req[0] == 'accept' else []
            c = HConn(ids, cn['hs'], req, cn.get('hsf', 0), calls)
            code = None
            try:
                srv.handle_request(c)
            except SystemExit as e:
                code = e.code if isinstance(e.code, int) else 0
            final_new = c.new_since_mark()
            if req[0] == 'create':
                newids = [final_new]
            else:
                newids = list(c.newids)
                if req[0] == 'accept' and c.reads >= 2 and len(newids) < len(calls):
                    newids.append(final_new)
                newids += [0] * (len(calls) - len(newids))
            replies = list(c.sent)
            out.append(dict(read=c.reads >= 1, outs=replies, exit=code, closed=c.closed,
                            snap=ids.snapshot(), newids=newids,
                            order_ok=_order_ok(c.log), unlocked=list(unlocked)))
            del unlocked[:]
    finally:
        srv.listener.close()
    return out


def _order_ok(log):
    """no request is read before both halves of the handshake were attempted"""
    if 'recv' not in log:
        return True
    i = log.index('recv')
    return log[:i].count('send_bytes') >= 3 and log[:i].count('recv_bytes') >= 3


# ----------------------------------------------------------------- client mode
class InprocManager(BaseManager):
    pass


for _t in ('list', 'dict', 'Value'):
    _e = SyncManager._registry[_t]
    InprocManager.register(_t, _e[0], _e[3])
InprocManager.register('Shelf', Shelf, ListProxy, exposed=LIST_EXPOSED,
                       method_to_typeid={'clone': 'list', 'me': 'ShelfRef'})
InprocManager.register('ShelfRef', None, ListProxy, exposed=('append', '__len__', '__getitem__'),
                       create_method=False)
# a typeid registered the way SyncManager registers Queue / JoinableQueue / AsyncResult: no proxy
# type, no `exposed` tuple -- proxies are built by AutoProxy(), exposed = public_methods(obj)
InprocManager.register('AList', list)
REGISTRY['AList'] = InprocManager._registry['AList']
assert REGISTRY['AList'][3] is AutoProxy and REGISTRY['AList'][1] is None


def client_outcome(fn):
    """run a client-side operation; canonical observation (no references are kept)"""
    try:
        v = fn()
    except managers.RemoteError as e:
        return ['fail', tb_kind(str(e.args[0]))], None
    except Exception as e:
        return ['raise', exn_kind(type(e).__name__)], None
    return ['ok'], v


def _do_create(m, typ, args):
    if typ in m._registry and hasattr(m, typ):
        return getattr(m, typ)(*args)
    return m._create(typ, *args)      # unknown typeid: straight to the server


def proxy_call(p, meth, args):
    """a call as the user makes it: through the method MakeProxyType generated for an AutoProxy
    class when the name is one of those it offers, otherwise (names offered by no class, and the
    hand-written proxy classes whose methods have their own signatures) through _callmethod"""
    if getattr(p, '_isauto', False) and meth in type(p)._exposed_ and meth in vars(type(p)):
        return getattr(p, meth)(*args)
    return p._callmethod(meth, args)


def client_op(m, srv, ids, proxies, op, leaked=None):
    """one user-level operation; proxies = live proxies in creation order (model: y_proxies)"""
    kind = op[0]
    if kind == 'vanish':
        # the holder disappears WITHOUT a decref reaching the server, through the two branches of
        # the real BaseProxy._decref that release nothing: a proxy that knows its manager is
        # finalised while the manager's state is not STARTED (`else: ... manager already shutdown`);
        # a copy (no manager, state None) is finalised with a connection that fails (its key is
        # refused: AuthenticationError, swallowed by `except Exception`)
        k = op[1]
        if k >= len(proxies):
            return ['noop']
        p = proxies[k]
        if leaked is not None:
            leaked.append(p._token.id)
        if p._manager is not None:
            st = p._manager._state
            old = st.value
            st.value = managers.State.SHUTDOWN
            try:
                del proxies[k]
                p = None
                gc.collect()
            finally:
                st.value = old
        else:
            fin = p._close
            args = list(fin._args)
            assert args[0] is p._token and isinstance(args[1], bytes)
            args[1] = b'not-the-key'
            fin._args = tuple(args)
            del proxies[k]
            p = fin = None
            gc.collect()
        return ['ok']
    if kind == 'create':
        _, pid, typ, args = op
        res, v = client_outcome(lambda: _do_create(m, typ, [dec_arg(a, typ) for a in args]))
        if isinstance(v, BaseProxy):
            proxies.append(v)
        return res
    if kind == 'copy':
        k = op[1]
        if k >= len(proxies):
            return ['noop']
        blob = pickle.dumps(proxies[k])
        res, v = client_outcome(lambda: pickle.loads(blob))
        if isinstance(v, BaseProxy):
            proxies.append(v)
        return res
    if kind == 'inherit':
        # the proxy travels inside a Process object to a spawned / forkserver child: it is
        # unpickled while current_process()._inheriting is set (RebuildProxy: incref=False) and
        # takes its reference when the child runs the after-fork hooks -- here exactly the hooks
        # that BaseProxy.__init__ registered for the new object
        k = op[1]
        if k >= len(proxies):
            return ['noop']
        blob = pickle.dumps(proxies[k])
        cur = process.current_process()
        cur._inheriting = True
        try:
            res, v = client_outcome(lambda: pickle.loads(blob))
        finally:
            del cur._inheriting
        if isinstance(v, BaseProxy):
            for (index, ident, func), obj in sorted(util._afterfork_registry.items(), key=lambda kv: kv[0][0]):
                if obj is v:
                    func(obj)
            obj = None
            proxies.append(v)
        return res
    if kind == 'stale':
        _, pid, mid = op
        tok = Token('list', srv.address, ids.to_real(mid))
        res, v = client_outcome(lambda: managers.RebuildProxy(ListProxy, tok, 'pickle', {}))
        if isinstance(v, BaseProxy):
            proxies.append(v)
        return res
    if kind == 'drop':
        k = op[1]
        if k >= len(proxies):
            return ['noop']
        del proxies[k]                 # last reference: util.Finalize runs BaseProxy._decref
        return ['ok']
    if kind == 'call':
        _, k, meth, args = op
        if k >= len(proxies):
            return ['noop']
        res, v = client_outcome(lambda: proxy_call(proxies[k], meth, tuple(dec_arg(a) for a in args)))
        if res[0] != 'ok':
            return res
        if isinstance(v, BaseProxy):
            ids.scan()
            proxies.append(v)
            return ['proxy', ids.mid.get(v._token.id, -1), v._token.typeid]
        return ['ret', enc_val(v, meth)]
    raise RuntimeError('bad op %r' % (op,))


def run_client_case(case):
    process.current_process().authkey = KEY      # what child processes inherit
    m = InprocManager(address=None, authkey=KEY)
    srv = m.get_server()
    srv.stop_event = threading.Event()
    unlocked = guard_tables(srv)
    t = threading.Thread(target=srv.accepter, daemon=True)
    t.start()
    m._address = srv.address
    m._state.value = managers.State.STARTED
    ids = Ids(srv)
    proxies = []
    leaked = []
    out = []
    for op in case:
        n0 = len(ids.mid)
        obs = client_op(m, srv, ids, proxies, op, leaked)
        gc.collect()                   # finalisers of unreachable proxies run here, in this thread
        ids.scan()
        newid = len(ids.mid) - 1 if len(ids.mid) > n0 else 0
        out.append(dict(obs=obs, newid=newid, snap=ids.snapshot(), numobj=m._number_of_objects()))
    # drop everything: what stays in the table now has no proxy anywhere
    del proxies[:]
    gc.collect()
    out.append(dict(final_objects=len(srv.id_to_obj) - 1, final_refcounts=len(srv.id_to_refcount),
                    expected_leaked=len(set(leaked)), unlocked=list(unlocked)))
    # the accepter thread cannot be stopped (`while True` + `except OSError: continue` would spin
    # on a closed listener): leave it blocked in accept(); one idle thread + one fd per case
    return out


# ------------------------------------------------------------------ procs mode
def worker_main(conn, inherited):
    """command loop of a client process; `inherited` = proxies that came with the fork"""
    process.current_process()       # authkey inherited from the parent
    local = list(inherited)
    del inherited[:]               # (this process's copy of the parent's list)
    del inherited
    gc.disable()
    while True:
        cmd = conn.recv()
        k = cmd[0]
        if k == 'recv':
            res, v = client_outcome(lambda: pickle.loads(cmd[1]))
            if isinstance(v, BaseProxy):
                local.append(v)
            v = None
            conn.send(res)
        elif k == 'dumps':
            conn.send(pickle.dumps(local[cmd[1]]))
        elif k == 'drop':
            del local[cmd[1]]
            gc.collect()
            conn.send(['ok'])
        elif k == 'call':
            _, idx, meth, args = cmd
            res, v = client_outcome(lambda: proxy_call(local[idx], meth, tuple(dec_arg(a) for a in args)))
            if res[0] == 'ok':
                if isinstance(v, BaseProxy):
                    local.append(v)
                    res = ['proxy', v._token.id, v._token.typeid]
                else:
                    res = ['ret', enc_val(v, meth)]
            v = None
            gc.collect()
            conn.send(res)
        elif k == 'ping':
            conn.send(['ok'])
        elif k == 'dropall':
            del local[:]
            gc.collect()
            conn.send(['ok'])
        elif k == 'exit':
            conn.send(['ok'])
            conn.close()
            sys.exit(0)


class RemoteIds:
    """ident <-> small integer from the manager's debug_info(); an ident that left the table is
    forgotten (the address may be reused by a later referent)"""

    def __init__(self, m):
        self.m = m
        self.mid = {}
        self.next = 1

    def snapshot(self):
        txt = self.m._debug_info()
        ents = re.findall(r'^  (\w+):\s+refcount=(-?\d+)\n    (.*)$', txt, re.M)
        live = set(e[0] for e in ents)
        for ident in list(self.mid):
            if ident not in live:
                del self.mid[ident]
        out = []
        for ident, rc, rep in ents:
            if ident not in self.mid:
                self.mid[ident] = self.next
                self.next += 1
            out.append([self.mid[ident], int(rc), parse_str(rep)])
        return sorted(out, key=lambda e: e[0])


def run_procs_case(case):
    import billiard
    ctx = billiard.get_context('fork')
    process.current_process().authkey = KEY
    m = InprocManager(authkey=KEY, ctx=ctx)
    m.start()
    ids = RemoteIds(m)
    workers = {}

    def spawn(pid, inherited):
        a, b = ctx.Pipe(duplex=True)
        pr = ctx.Process(target=worker_main, args=(b, inherited))
        pr.daemon = True
        pr.start()
        b.close()
        workers[pid] = (pr, a)

    def need(pid):                       # pre-forked clients, started lazily; they inherit the
        if pid in (11, 12) and pid not in workers:
            spawn(pid, mine)
            ask(pid, ('ping',))
            ask(pid, ('dropall',))
    mine = []                            # the parent's own proxies (pid 10)
    handles = []                         # owner pid of every live proxy, creation order
    hids = []                            # its referent's ident (raw), same order
    leaked = []                          # idents whose holder was killed (never released)
    out = []

    def local_index(k):
        return sum(1 for h in handles[:k] if h == handles[k])

    def ask(pid, cmd):
        pr, c = workers[pid]
        c.send(cmd)
        if not c.poll(20):
            raise RuntimeError('worker %s does not answer %r' % (pid, cmd[0]))
        return c.recv()

    try:
        for op in case:
            kind = op[0]
            n_before = ids.next
            obs = ['noop']
            if kind == 'create':
                _, pid, typ, args = op
                res, v = client_outcome(lambda: _do_create(m, typ, [dec_arg(a, typ) for a in args]))
                if isinstance(v, BaseProxy):
                    mine.append(v)
                    handles.append(10)
                    hids.append(v._token.id)
                v = None
                obs = res
            elif kind == 'spawn':             # proxy k (the parent's) is a Process argument of a
                k, pid = op[1], op[2]         # spawn / forkserver child: RebuildProxy(incref=False)
                if k >= len(handles) or handles[k] != 10:
                    raise RuntimeError('spawn: proxy %d is not the parent\'s' % k)
                sctx = billiard.get_context(op[3] if len(op) > 3 else 'spawn')   # + after-fork hook there
                a, b = sctx.Pipe(duplex=True)
                inh = [mine[local_index(k)]]
                import mgr_driver             # spawn targets must live in an importable module
                pr = sctx.Process(target=mgr_driver.worker_main, args=(b, inh))
                pr.daemon = True
                pr.start()
                del inh[:]                    # (billiard keeps Process._args alive in the parent)
                b.close()
                workers[pid] = (pr, a)
                ask(pid, ('ping',))
                handles.append(pid)
                hids.append(hids[k])
                obs = ['ok']
            elif kind == 'copy':
                _, k, pid = op
                need(pid)
                if k < len(handles) and (pid == 10 or pid in workers):
                    src = handles[k]
                    blob = pickle.dumps(mine[local_index(k)]) if src == 10 else ask(src, ('dumps', local_index(k)))
                    if pid == 10:
                        res, v = client_outcome(lambda: pickle.loads(blob))
                        if isinstance(v, BaseProxy):
                            mine.append(v)
                        v = None
                    else:
                        res = ask(pid, ('recv', blob))
                    if res[0] == 'ok':
                        handles.append(pid)
                        hids.append(hids[k])
                    obs = res
            elif kind == 'drop':
                k = op[1]
                if k < len(handles):
                    if handles[k] == 10:
                        del mine[local_index(k)]
                        gc.collect()
                    else:
                        ask(handles[k], ('drop', local_index(k)))
                    handles.pop(k)
                    hids.pop(k)
                    obs = ['ok']
            elif kind == 'call':
                _, k, meth, args = op
                if k < len(handles):
                    if handles[k] == 10:
                        res, v = client_outcome(
                            lambda: proxy_call(mine[local_index(k)], meth, tuple(dec_arg(a) for a in args)))
                        if res[0] == 'ok':
                            if isinstance(v, BaseProxy):
                                mine.append(v)
                                res = ['proxy', v._token.id, v._token.typeid]
                            else:
                                res = ['ret', enc_val(v, meth)]
                        v = None
                    else:
                        res = ask(handles[k], ('call', local_index(k), meth, args))
                    if res[0] == 'proxy':
                        handles.append(handles[k])
                        hids.append(res[1])
                    obs = res
            elif kind == 'fork':              # a new client process forked while proxies exist
                pid = op[1]
                spawn(pid, mine)
                ask(pid, ('ping',))          # its after-fork increfs are done
                hids.extend([hids[i] for i, h in enumerate(handles) if h == 10])
                handles.extend([pid] * len(mine))
                obs = ['ok']
            elif kind == 'exit':              # orderly exit: finalisers release every proxy
                pid = op[1]
                ask(pid, ('exit',))
                workers[pid][0].join(20)
                del workers[pid]
                hids[:] = [i for i, h in zip(hids, handles) if h != pid]
                handles[:] = [h for h in handles if h != pid]
                obs = ['ok']
            elif kind == 'kill':              # SIGKILL: no finaliser runs, the server only sees EOF
                pid = op[1]                   # on the connections of that process
                pr, c = workers[pid]
                os.kill(pr.pid, signal.SIGKILL)
                pr.join(20)
                c.close()
                del workers[pid]
                leaked += [i for i, h in zip(hids, handles) if h == pid]
                hids[:] = [i for i, h in zip(hids, handles) if h != pid]
                handles[:] = [h for h in handles if h != pid]
                # (how the exit status of a signalled forkserver child is reported is C19's business)
                obs = ['ok'] if not pr.is_alive() and pr.exitcode not in (None, 0) \
                    else ['fail', 'E_Other:exitcode %r' % pr.exitcode]
            elif kind == 'intruder':
                try:
                    if op[1] == 'wrong_key':
                        c = connection.Client(m.address, authkey=b'not-the-key')
                    else:
                        c = connection.Client(m.address)
                    managers.dispatch(c, None, 'decref', (next(iter(ids.mid), 'x'),))
                    obs = ['fail', 'E_Other:intruder-was-served']
                except Exception:
                    obs = ['ok']
            snap = ids.snapshot()
            if obs[0] == 'proxy':
                obs = ['proxy', ids.mid.get(obs[1], -1), obs[2]]
            newid = ids.next - 1 if ids.next > n_before else 0
            out.append(dict(obs=obs, newid=newid, snap=snap, numobj=m._number_of_objects(),
                            owners=list(handles)))
        # release everything, orderly
        for pid in list(workers):
            ask(pid, ('exit',))
            workers[pid][0].join(20)
        del mine[:]
        gc.collect()
        out.append(dict(final_objects=m._number_of_objects(), final_refcounts=len(ids.snapshot()),
                        expected_leaked=len(set(leaked))))
    finally:
        for pr, c in workers.values():
            if pr.is_alive():
                pr.terminate()
        m.shutdown()
    return out



# ------------------------------------------------------------------- life mode
# typeids of the real SyncManager: constructor arguments, the statements a child runs through its
# proxy, the statements the parent runs afterwards through its own proxy.  The same statements
# are run on a local twin built by the registered callable: "behaves like the local object".
def _ns_set(o):
    o.x = 5


LIFE_TYPES = {
    'Queue': ((), [lambda o: o.put(5), lambda o: o.put(6), lambda o: o.qsize(), lambda o: o.get(),
                   lambda o: o.empty()],
              [lambda o: o.qsize(), lambda o: o.get_nowait(), lambda o: o.empty(), lambda o: o.get_nowait()]),
    'JoinableQueue': ((), [lambda o: o.put(1), lambda o: o.get(), lambda o: o.task_done(), lambda o: o.join(),
                           lambda o: o.put(2)],
                      [lambda o: o.qsize(), lambda o: o.full(), lambda o: o.task_done(), lambda o: o.task_done()]),
    'Event': ((), [lambda o: o.is_set(), lambda o: o.set(), lambda o: o.is_set()],
              [lambda o: o.wait(0), lambda o: o.clear(), lambda o: o.is_set()]),
    'Lock': ((), [lambda o: o.acquire(False), lambda o: o.acquire(False), lambda o: o.release()],
             [lambda o: o.acquire(False), lambda o: o.release(), lambda o: o.release()]),
    'RLock': ((), [lambda o: o.acquire(False), lambda o: o.acquire(False), lambda o: o.release(),
                   lambda o: o.release()], []),
    'Semaphore': ((2,), [lambda o: o.acquire(False), lambda o: o.acquire(False), lambda o: o.acquire(False),
                         lambda o: o.release()],
                  [lambda o: o.acquire(False), lambda o: o.acquire(False)]),
    'BoundedSemaphore': ((1,), [lambda o: o.acquire(False), lambda o: o.release(), lambda o: o.release()],
                         [lambda o: o.acquire(False)]),
    'Condition': ((), [lambda o: o.acquire(), lambda o: o.notify_all(), lambda o: o.release(),
                       lambda o: o.notify()], []),
    'Barrier': ((1,), [lambda o: o.wait(), lambda o: o.parties, lambda o: o.n_waiting], [lambda o: o.broken]),
    'list': (([1, 2],), [lambda o: o.append(3), lambda o: o.pop(0), lambda o: o[5]],
             [lambda o: len(o), lambda o: o[0], lambda o: o.index(9)]),
    'dict': (({1: 2},), [lambda o: o.setdefault(3, 4), lambda o: o[7]],
             [lambda o: sorted(o.items()), lambda o: o.pop(1), lambda o: len(o)]),
    'Value': (('i', 3), [lambda o: o.get(), lambda o: o.set(9)], [lambda o: o.value]),
    'Array': (('i', [1, 2, 3]), [lambda o: o[0], lambda o: o.__setitem__(1, 8), lambda o: o[3]],
              [lambda o: len(o), lambda o: o[1]]),
    'Namespace': ((), [_ns_set, lambda o: o.x, lambda o: o.y], [lambda o: o.x]),
}


def life_run(ops, o):
    out = []
    for f in ops:
        try:
            out.append(['ret', repr(f(o))])
        except managers.RemoteError as e:
            out.append(['fail', tb_kind(str(e.args[0]))])
        except Exception as e:
            out.append(['raise', exn_kind(type(e).__name__)])
    return out


def life_child(conn, held):
    """a child that got `held` = [[typeid, proxy] ...] as a Process argument (or by fork)"""
    gc.disable()
    while True:
        cmd = conn.recv()
        if cmd[0] == 'ping':
            conn.send(['ok', len(held)])
        elif cmd[0] == 'use':          # cmd[1]: positions in `held`
            conn.send([life_run(LIFE_TYPES[held[j][0]][1], held[j][1]) for j in cmd[1]])
        elif cmd[0] == 'exit':            # orderly: the exit handlers finalise every proxy
            conn.send(['ok'])
            conn.close()
            sys.exit(0)


def run_life_case(case):
    """case: list of steps  ['create', typeid] | ['start', method, pid, [object index ...]] |
    ['use', pid, [object index ...]] | ['puse', index] | ['drop', index] | ['exit', pid].
    Object index = position of its 'create' step among the creates.  Returned per step: what the
    step observed, [[object index, refcount] ...] of the objects now in the server, number_of_objects."""
    import billiard
    import mgr_driver                          # spawn / forkserver targets live in a module
    process.current_process().authkey = KEY
    m = SyncManager(authkey=KEY)
    m.start()
    objs = []                # [typeid, ident, parent's proxy or None, local twin]
    kids = {}                # pid -> (process, connection, [object index ...])
    out = []

    def ask(pid, cmd):
        c = kids[pid][1]
        c.send(cmd)
        if not c.poll(30):
            raise RuntimeError('child %s does not answer %r' % (pid, cmd[0]))
        return c.recv()

    def counts():
        ents = re.findall(r'^  (\w+):\s+refcount=(-?\d+)\n', m._debug_info(), re.M)
        idx = {}
        for i, ob in enumerate(objs):
            idx.setdefault(ob[1], i)      # (an address is reused only after the first owner is gone)
        return sorted([idx.get(ident, -1), int(rc)] for ident, rc in ents)

    try:
        for st in case:
            k = st[0]
            obs = ['ok']
            if k == 'create':
                typ = st[1]
                args = LIFE_TYPES[typ][0]
                p = getattr(m, typ)(*args)
                # the local twin: the registered callable on the same arguments
                twin = SyncManager._registry[typ][0](*copy.deepcopy(args))
                objs.append([typ, p._token.id, p, twin])
                p = None
            elif k == 'start':
                _, method, pid, idxs = st
                ctx = billiard.get_context(method)
                a, b = ctx.Pipe(duplex=True)
                held = [[objs[i][0], objs[i][2]] for i in idxs]
                pr = ctx.Process(target=mgr_driver.life_child, args=(b, held))
                pr.daemon = True
                pr.start()
                del held[:]               # (billiard keeps Process._args alive in the parent)
                b.close()
                kids[pid] = (pr, a, list(idxs))
                obs = ask(pid, ('ping',))
            elif k == 'use':              # the child's statements, and the same on the twins
                pid = st[1]
                got = ask(pid, ('use', [kids[pid][2].index(i) for i in st[2]]))
                want = [life_run(LIFE_TYPES[objs[i][0]][1], objs[i][3]) for i in st[2]]
                obs = ['use', got, want]
            elif k == 'puse':             # the parent's statements through its own proxy
                i = st[1]
                obs = ['use', [life_run(LIFE_TYPES[objs[i][0]][2], objs[i][2])],
                       [life_run(LIFE_TYPES[objs[i][0]][2], objs[i][3])]]
            elif k == 'drop':
                objs[st[1]][2] = None     # last reference: util.Finalize runs BaseProxy._decref
                gc.collect()
            elif k == 'exit':
                pid = st[1]
                ask(pid, ('exit',))
                kids[pid][0].join(30)
                obs = ['exit', kids[pid][0].exitcode]
                del kids[pid]
            out.append(dict(obs=obs, rc=counts(), numobj=m._number_of_objects()))
    finally:
        for pr, c, _ in kids.values():
            if pr.is_alive():
                pr.terminate()
        m.shutdown()
    return out


def main():
    # server threads and clients share this process: a cyclic-GC run inside the accepter thread
    # could finalise a proxy there (its _decref connects to the server -> deadlock); collect
    # explicitly in the client thread instead
    gc.disable()
    req = json.load(sys.stdin)
    mode = req['mode']
    if mode == 'server':
        res = [run_server_case(c) for c in req['cases']]
    elif mode == 'client':
        # a client operation that never returns (e.g. a handshake both sides wait in) must not
        # block the check: the case is reported as hanging and the run stops there
        class CaseTimeout(Exception):
            pass

        def on_alarm(signum, frame):
            raise CaseTimeout()
        signal.signal(signal.SIGALRM, on_alarm)
        res = []
        for c in req['cases']:
            signal.setitimer(signal.ITIMER_REAL, 25 + len(c))
            try:
                res.append(run_client_case(c))
            except CaseTimeout:
                res.append([dict(hang=True)])
                break
            except Exception as exc:
                signal.setitimer(signal.ITIMER_REAL, 0)
                res.append([dict(hang=True, error='%s: %s' % (type(exc).__name__, exc))])
                break
            finally:
                signal.setitimer(signal.ITIMER_REAL, 0)
    elif mode == 'procs':
        res = [run_procs_case(c) for c in req['cases']]
    elif mode == 'life':
        res = [run_life_case(c) for c in req['cases']]
    else:
        raise SystemExit('unknown mode')
    sys.stdout.flush()
    print(json.dumps(res))
    sys.stdout.flush()
    os._exit(0)


if __name__ == '__main__':
    main()
