"""Drive the real reassembly code of billiard.pool on harness-chosen cases (C02).

No pool, no processes: MapResult / IMapIterator / IMapUnorderedIterator / ApplyResult are
constructed directly over a plain dict as cache; Pool._get_tasks is a staticmethod;
Pool._map_async / Pool.imap / Pool.imap_unordered are called unbound on a stub that only
has what they read (_state, _pool, _cache, _taskqueue, lost_worker_timeout).

stdin: JSON list of cases; stdout: last line = JSON list of observations."""
import json
import sys
from collections import deque

from billiard import pool as bp
from billiard.einfo import ExceptionInfo, ExceptionWithTraceback
from billiard.exceptions import TimeoutError as BTimeoutError


def mk_einfo(tok):
    """a real failure record as a worker would build it, numbered tok"""
    try:
        raise ValueError(tok)
    except ValueError:
        return ExceptionInfo()


def tok_of(einfo):
    if isinstance(einfo, ExceptionInfo):
        return einfo.exception.exc.args[0]
    return -999999          # not a failure record: cannot agree with any model token


class Q:
    """stands for the task queue: remembers what was put"""

    def __init__(self):
        self.got = []

    def put(self, x):
        self.got.append(x)


class Stub:
    def __init__(self, p):
        self._state = bp.RUN
        self._pool = [None] * p
        self._cache = {}
        self._taskqueue = Q()
        self.lost_worker_timeout = 10.0


def ident(x):
    return x


def batches_of(taskseq, job, mapper):
    """the task generator put on the queue -> list of input batches (checks the envelope)"""
    out = []
    for pos, t in enumerate(taskseq):
        kind, (j, i, m, args, kw) = t
        fn, xs = args[0]
        if kind != bp.TASK or j != job or i != pos or m is not mapper or kw != {} \
                or fn is not ident or len(args) != 1:
            out.append([-1])       # malformed envelope: cannot match the model
        else:
            out.append(list(xs))
    return out


def exn_name(exc):
    return type(exc).__name__


def jv(v):
    """a value as the model sees it: int or None; anything else cannot match"""
    if v is None or type(v) is int:
        return v
    return -999999


def jl(vs):
    try:
        return [jv(x) for x in vs]
    except TypeError:
        return [-999999]


# ------------------------------------------------------------------ chunks
def run_chunks(c):
    try:
        got = [list(x[1]) for x in bp.Pool._get_tasks(ident, c['l'], c['size'])]
    except ValueError:
        return dict(batches=None)
    return dict(batches=got)


def run_star(c):
    a, b = c['a'], c['b']
    if c['star']:
        return dict(out=jl(bp.starmapstar((lambda x, y: a * x + b * y, [tuple(p) for p in c['c']]))))
    return dict(out=jl(bp.mapstar((lambda x: a * x + b, tuple(c['c'])))))


# ------------------------------------------------------------------- async
def run_async(c):
    stub = Stub(c['p'])
    mapper = bp.starmapstar if c.get('star') else bp.mapstar
    try:
        res = bp.Pool._map_async(stub, ident, c['l'], mapper, c['cs'])
    except ZeroDivisionError as exc:
        return dict(raised=exn_name(exc))
    (taskseq, set_length), = stub._taskqueue.got
    assert set_length is None
    try:                       # what the task handler thread does later
        b = batches_of(taskseq, res._job, mapper)
    except ValueError:
        b = None
    return dict(raised=None, k=res._chunksize, batches=b, left=res._number_left,
                ready=res.ready(), incache=res._job in stub._cache, value=jl(res._value))


# --------------------------------------------------------------------- map
class MapH:
    """one real MapResult over the given cache"""

    def __init__(self, cache, c):
        self.cache = cache
        self.cbs, self.ecbs = [], []
        cb = (lambda v: self.cbs.append(jl(v))) if c['cb'] else None
        ecb = (lambda e: self.ecbs.append(tok_of(e))) if c['ecb'] else None
        self.res = bp.MapResult(cache, c['k'], c['n'], cb, ecb)
        self.job = self.res._job

    def step(self, op):
        res, cache, job = self.res, self.cache, self.job
        kind = op[0]
        try:
            if kind in ('set', 'dset', 'fail', 'dfail'):
                obj = (True, list(op[2])) if kind in ('set', 'dset') else (False, mk_einfo(op[2]))
                if kind[0] == 'd':              # as ResultHandler.on_ready does
                    item = cache.get(job)
                    if item is not None:
                        try:
                            item._set(op[1], obj)
                        except KeyError:
                            pass
                else:
                    res._set(op[1], obj)
                return ['unit']
            if kind == 'ack':
                res._ack(op[1], 1.0, 4242, None)
                return ['unit']
            if kind == 'get':
                try:
                    return ['list', jl(res.get(timeout=0))]
                except BTimeoutError:
                    return ['timeout']
                except ExceptionWithTraceback as exc:
                    return ['raise', exc.exc.args[0]]
        except (TypeError, IndexError, KeyError) as exc:
            return ['exn', exn_name(exc)]
        raise ValueError('unknown map op %r' % (op,))

    def final(self):
        res = self.res
        v = res._value
        value = ['list', jl(v)] if isinstance(v, list) else ['err', tok_of(v)]
        return dict(success=bool(res._success), value=value, ready=res.ready(),
                    cb=self.cbs, ecb=self.ecbs, left=res._number_left, incache=self.job in self.cache,
                    accepted=[bool(x) for x in res._accepted])


def run_handle(h, ops):
    outs = [h.step(op) for op in ops]
    d = h.final()
    d['outs'] = outs
    return d


def run_map(c):
    return run_handle(MapH({}, c), c['ops'])


# -------------------------------------------------------------------- imap
def mk_item(it):
    return (True, it[1]) if it[0] == 'good' else (False, mk_einfo(it[1]))


def obs_item(obj):
    ok, v = obj
    if not ok:
        return ['bad', tok_of(v)]
    return ['good', jl(v) if isinstance(v, (list, tuple)) else jv(v)]


def do_next(fn):
    try:
        return ['yield', jv(fn())]
    except StopIteration:
        return ['stop']
    except BTimeoutError:
        return ['timeout']
    except (TypeError, IndexError, KeyError) as exc:
        return ['exn', exn_name(exc)]
    except Exception as exc:          # IMapIterator.next: raise Exception(value)
        return ['raise', tok_of(exc.args[0]) if exc.args else -999999]


def ctl(it, cache, op):
    """_set / delivered _set / _set_length on an iterator object"""
    kind = op[0]
    try:
        if kind == 'set':
            it._set(op[1], mk_item(op[2]))
        elif kind == 'dset':
            item = cache.get(it._job)
            if item is not None:
                try:
                    item._set(op[1], mk_item(op[2]))
                except KeyError:
                    pass
        elif kind == 'len':
            it._set_length(op[1])
        else:
            raise ValueError('unknown iterator op %r' % (op,))
        return ['unit']
    except (TypeError, IndexError, KeyError) as exc:
        return ['exn', exn_name(exc)]


def final_iter(it, cache):
    return dict(items=[obs_item(x) for x in it._items], ready=bool(it._ready), index=it._index,
                length=it._length,
                unsorted=sorted([k, obs_item(v)] for k, v in it._unsorted.items()),
                incache=it._job in cache)


class ImapH:
    """one real IMapIterator / IMapUnorderedIterator over the given cache"""

    def __init__(self, cache, c):
        self.cache = cache
        self.it = (bp.IMapUnorderedIterator if c['unordered'] else bp.IMapIterator)(cache)

    def step(self, op):
        if op[0] == 'next':
            return do_next(lambda: self.it.next(timeout=0))
        return ctl(self.it, self.cache, op)

    def final(self):
        return final_iter(self.it, self.cache)


def run_imap(c):
    return run_handle(ImapH({}, c), c['ops'])


# ------------------------------------------------------------------- multi
def run_multi(c):
    """several result handles alive at once over ONE cache (as in a pool); every operation names
    its handle; each handle is observed exactly like a single-handle case"""
    cache = {}
    hs = []
    for spec in c['handles']:
        hs.append(MapH(cache, spec) if spec['kind'] == 'map' else ImapH(cache, spec))
    outs = [[] for _ in hs]
    for op in c['ops']:
        outs[op[0]].append(hs[op[0]].step(op[1:]))
    res = []
    for h, o in zip(hs, outs):
        d = h.final()
        d['outs'] = o
        res.append(d)
    return dict(handles=res)


# -------------------------------------------------------------------- flat
class RecDeque(deque):
    """the iterator's deque, remembering what next() took out of it"""

    def __init__(self):
        super().__init__()
        self.taken = []

    def popleft(self):
        x = super().popleft()
        self.taken.append(x)
        return x


def run_flat(c):
    """generator returned by Pool.imap / imap_unordered with chunksize > 1.  The generator
    calls result.next() without timeout, so next(gen) is only issued when it cannot block;
    otherwise the step is recorded as `timeout` (= would block)."""
    stub = Stub(1)
    meth = bp.Pool.imap_unordered if c['unordered'] else bp.Pool.imap
    gen = meth(stub, ident, c.get('input', []), chunksize=c.get('cs', 2))
    (it,) = stub._cache.values()
    cache = stub._cache
    it._items = RecDeque()
    it._cond.wait = lambda timeout=None: False      # never block the driver
    state = dict(yielded=0, dead=False)
    outs = []

    def buffered():
        n = sum(len(x[1]) for x in it._items.taken if x[0])
        return n - state['yielded']

    for op in c['ops']:
        if op[0] != 'next':
            outs.append(ctl(it, cache, op))
            continue
        if state['dead'] or buffered() > 0 or len(it._items) > 0 or it._index == it._length:
            r = do_next(lambda: next(gen))
            if r[0] == 'yield':
                state['yielded'] += 1
            else:
                state['dead'] = True
            outs.append(r)
        else:
            outs.append(['timeout'])
    d = final_iter(it, cache)
    d['outs'] = outs
    (taskseq, set_length), = stub._taskqueue.got
    d['batches'] = batches_of(taskseq, it._job, bp.mapstar)
    d['set_length_is_method'] = (getattr(set_length, '__func__', None) is bp.IMapIterator._set_length
                                 and set_length.__self__ is it)
    return d


# ------------------------------------------------------------------- apply
def run_apply(c):
    cache = {}
    cbs, ecbs = [], []
    cb = (lambda v: cbs.append(jv(v))) if c['cb'] else None
    ecb = (lambda e: ecbs.append(tok_of(e))) if c['ecb'] else None
    res = bp.ApplyResult(cache, cb, error_callback=ecb)
    job = res._job
    outs = []
    for op in c['ops']:
        kind = op[0]
        if kind == 'set':
            res._set(None, mk_item(op[1]))
            outs.append(['unit'])
        elif kind == 'dset':
            item = cache.get(job)
            if item is not None:
                item._set(None, mk_item(op[1]))
            outs.append(['unit'])
        elif kind == 'ack':
            res._ack(None, 1.0, 4242, None)
            outs.append(['unit'])
        else:
            try:
                outs.append(['yield', jv(res.get(timeout=0))])
            except BTimeoutError:
                outs.append(['timeout'])
            except ExceptionWithTraceback as exc:
                outs.append(['raise', exc.exc.args[0]])
    value = None
    if res.ready():
        value = obs_item((res._success, res._value))
    return dict(outs=outs, ready=res.ready(), value=value, cb=cbs, ecb=ecbs,
                accepted=bool(res._accepted), incache=job in cache)


# ------------------------------------------------------- real pools (thorough)
def sq(x):
    """completion order perturbed by input-dependent sleeps"""
    import time
    time.sleep(((x * 7919) % 5) * 0.002)
    return x * x + 1


def sq_pure(x):
    return x * x + 1


def add3(a, b):
    import time
    time.sleep(((a + b) % 3) * 0.002)
    return a * 100 + b


def picky(x):
    import time
    time.sleep(((x * 31) % 4) * 0.002)
    if x % 10 == 7:
        raise ValueError('bad input', x)
    return x + 1


def run_pool(cfg):
    import os
    import random
    import signal
    import threading
    import billiard
    from billiard.einfo import RemoteTraceback
    wd = threading.Timer(600, lambda: os._exit(3))      # a hang must not look like a pass
    wd.daemon = True
    wd.start()
    rng = random.Random(cfg['seed'] * 104729 + 2)
    runs = 0
    bad = []
    obs = set()
    summary = {}

    def note(kind):
        summary[kind] = summary.get(kind, 0) + 1

    def flag(sig, what, case):
        if len(bad) < 20:
            bad.append(dict(signature=sig, what=what, case=case))

    for psize in (1, 2, 3, 5):
        pool = billiard.Pool(psize)
        pids = [p.pid for p in pool._pool]
        for trial in range(cfg.get('trials', 14)):
            n = rng.choice([0, 1, 2, 3, 5, 8, 13, 21, 40])
            cs = rng.choice([None, None, 1, 2, 3, max(n, 1), n + 1])
            xs = [rng.randint(0, 60) for _ in range(n)]
            case = dict(pool=psize, n=n, chunksize=cs, xs=xs)
            # map
            runs += 1
            note('map')
            try:
                got = pool.map_async(sq, xs, cs).get(timeout=60)
                if got != list(map(sq_pure, xs)):
                    flag('C02:pool-map-differs-from-sequential', 'Pool(%d).map(sq, %s, chunksize=%s) -> %s' % (psize, xs, cs, got), case)
            except Exception as exc:
                flag('C02:pool-map-raised', 'map raised %r' % (exc,), case)
            # starmap
            runs += 1
            note('starmap')
            pairs = [(x, (x * 3) % 7) for x in xs]
            try:
                got = pool.starmap_async(add3, pairs, cs).get(timeout=60)
                if got != [a * 100 + b for a, b in pairs]:
                    flag('C02:pool-starmap-differs-from-sequential', 'starmap(%s, chunksize=%s) -> %s' % (pairs, cs, got), case)
            except Exception as exc:
                flag('C02:pool-starmap-raised', 'starmap raised %r' % (exc,), case)
            # imap / imap_unordered, chunksize 1 and > 1 (no failing input here)
            for ics in (1, rng.choice([2, 3, 4])):
                runs += 2
                note('imap cs=%s' % ('1' if ics == 1 else '>1'))
                try:
                    got = list(pool.imap(sq, xs, chunksize=ics))
                    if got != list(map(sq_pure, xs)):
                        flag('C02:pool-imap-differs-from-sequential', 'imap(%s, chunksize=%d) -> %s' % (xs, ics, got), case)
                    got = list(pool.imap_unordered(sq, xs, chunksize=ics))
                    if sorted(got) != sorted(map(sq_pure, xs)):
                        flag('C02:pool-imap-unordered-multiset-differs', 'imap_unordered(%s, chunksize=%d) -> %s' % (xs, ics, got), case)
                except Exception as exc:
                    flag('C02:pool-imap-raised', 'imap raised %r' % (exc,), case)
            # apply
            runs += 1
            note('apply')
            x = rng.randint(0, 60)
            try:
                if pool.apply_async(sq, (x,)).get(timeout=60) != sq_pure(x):
                    flag('C02:pool-apply-differs', 'apply(sq, (%d,))' % x, case)
            except Exception as exc:
                flag('C02:pool-apply-raised', 'apply raised %r' % (exc,), case)
            # exception path
            ys = [rng.randint(0, 39) for _ in range(rng.randint(1, 15))]
            failing = [y for y in ys if y % 10 == 7]
            ecase = dict(pool=psize, ys=ys, chunksize=cs)
            runs += 1
            note('map with failing inputs' if failing else 'map (picky, no failing input)')
            try:
                got = pool.map_async(picky, ys, cs).get(timeout=60)
                if failing or got != [y + 1 for y in ys]:
                    flag('C02:pool-map-swallowed-exception', 'map(picky, %s) returned %s although %s raise' % (ys, got, failing), ecase)
            except ValueError as exc:
                obs.add('map().get() re-raises the worker exception as its own type (%s) with the original args and '
                        '__cause__ of type %s' % (type(exc).__name__, type(exc.__cause__).__name__))
                if not failing or exc.args[0] != 'bad input' or exc.args[1] not in failing \
                        or not isinstance(exc.__cause__, RemoteTraceback):
                    flag('C02:pool-map-foreign-exception', 'map(picky, %s) raised %r (cause %r); failing inputs %s'
                         % (ys, exc, exc.__cause__, failing), ecase)
            except Exception as exc:
                flag('C02:pool-map-wrong-exception-type', 'map(picky, %s) raised %r' % (ys, exc), ecase)
            runs += 1
            note('apply with failing input')
            try:
                pool.apply_async(picky, (17,)).get(timeout=60)
                flag('C02:pool-apply-swallowed-exception', 'apply(picky, (17,)) returned', ecase)
            except ValueError as exc:
                obs.add('apply().get() re-raises %s%r with __cause__ %s' % (type(exc).__name__, exc.args, type(exc.__cause__).__name__))
                if exc.args != ('bad input', 17) or not isinstance(exc.__cause__, RemoteTraceback):
                    flag('C02:pool-apply-wrong-exception', 'apply(picky, (17,)) raised %r cause %r' % (exc, exc.__cause__), ecase)
            except Exception as exc:
                flag('C02:pool-apply-wrong-exception-type', 'apply(picky, (17,)) raised %r' % (exc,), ecase)
            # imap chunksize 1 with failing inputs: error at its position, iteration goes on
            runs += 1
            note('imap cs=1 with failing inputs' if failing else 'imap cs=1 (picky, no failing input)')
            it = pool.imap(picky, ys)
            seen = []
            try:
                while len(seen) <= len(ys) + 1:
                    try:
                        seen.append(['yield', it.next(timeout=60)])
                    except StopIteration:
                        seen.append(['stop'])
                        break
                    except BTimeoutError:
                        seen.append(['timeout'])
                        break
                    except Exception as exc:
                        einfo = exc.args[0] if exc.args else None
                        inner = getattr(einfo, 'exception', None)
                        inner = getattr(inner, 'exc', inner)      # unwrapped by the pickle round trip
                        seen.append(['raise', list(getattr(inner, 'args', ()))])
                        obs.add('imap next() raises Exception(<%s>) whose .exception is the original %s with __cause__ %s'
                                % (type(einfo).__name__, type(inner).__name__, type(getattr(inner, '__cause__', None)).__name__))
            except Exception as exc:
                seen.append(['crash', repr(exc)])
            want = [['raise', ['bad input', y]] if y % 10 == 7 else ['yield', y + 1] for y in ys] + [['stop']]
            if seen != want:
                flag('C02:pool-imap-error-position', 'imap(picky, %s) consumer saw %s, sequential: %s' % (ys, seen, want), ecase)
            # imap chunksize > 1 with failing inputs (known finding: the generator ends at the error)
            if failing:
                runs += 1
                note('imap cs>1 with failing inputs')
                gen = pool.imap(picky, ys, chunksize=2)
                seen = []
                while len(seen) <= len(ys) + 1:
                    try:
                        seen.append(['yield', next(gen)])
                    except StopIteration:
                        seen.append(['stop'])
                        break
                    except Exception as exc:
                        einfo = exc.args[0] if exc.args else None
                        inner = getattr(einfo, 'exception', None)
                        inner = getattr(inner, 'exc', inner)
                        seen.append(['raise', list(getattr(inner, 'args', ()))])
                nvals = sum(1 for x in seen if x[0] == 'yield')
                if nvals != len(ys) - len(failing):
                    flag('C02:imap-chunked-error-ends-iteration',
                         'real Pool(%d).imap(picky, %s, chunksize=2): consumer saw %s -- %d of the %d computable values'
                         % (psize, ys, seen, nvals, len(ys) - len(failing)), ecase)
        pool.close()
        for pid in pids + [p.pid for p in pool._pool]:
            try:
                os.kill(pid, signal.SIGKILL)
            except OSError:
                pass
    print(json.dumps(dict(runs=runs, bad=bad, summary=summary, observations=sorted(obs))))
    sys.stdout.flush()
    os._exit(0)


def deep_fail(x, n):
    if n == 0:
        raise KeyError('deep', x)
    return deep_fail(x, n - 1)


def deep_at(x):
    """fails far down the call stack for the inputs = 3 mod 4, at a depth that grows with x"""
    if x % 4 == 3:
        return deep_fail(x, 40 * x)
    return 2 * x


def runaway(x):
    if x == 3:
        def inf(n):
            return inf(n + 1)
        return inf(0)
    return 2 * x


def slow_first(x):
    import time
    if x % 4 == 0:
        time.sleep(0.4)        # the consumer is blocked in next() for this item while later ones complete
    return 10 * x


def run_deep(cfg):
    """real worker processes; the mapped function fails at the bottom of a deep call chain (beyond
    the number of frames the exception record keeps) or by runaway recursion: apply/map re-raise the
    same type and arguments with the remote traceback attached, imap raises at the item's position
    and goes on"""
    import os
    import signal
    import threading
    import billiard
    from billiard.einfo import RemoteTraceback
    wd = threading.Timer(240, lambda: os._exit(3))
    wd.daemon = True
    wd.start()
    bad = []
    runs = 0

    def flag(sig, what, case):
        if len(bad) < 20:
            bad.append(dict(signature=sig, what=what, case=case))

    pool = billiard.Pool(2, lost_worker_timeout=2.0)
    pids = [p.pid for p in pool._pool]
    for depth in cfg.get('depths', [5, 130, 300, 700, 900]):
        runs += 1
        case = dict(kind='apply deep_fail', depth=depth)
        try:
            pool.apply_async(deep_fail, (depth, depth)).get(timeout=30)
            flag('C02:pool-apply-swallowed-exception', 'apply(deep_fail, depth %d) returned' % depth, case)
        except KeyError as exc:
            if exc.args != ('deep', depth) or not isinstance(exc.__cause__, RemoteTraceback):
                flag('C02:pool-apply-wrong-exception', 'apply(deep_fail, depth %d) raised %r cause %r' % (depth, exc, exc.__cause__), case)
        except BaseException as exc:
            flag('C02:pool-apply-wrong-exception-type', 'apply of a function raising KeyError(\'deep\', %d) from %d frames down raised %s: %s'
                 % (depth, depth, type(exc).__name__, str(exc)[:200]), case)
    runs += 1
    case = dict(kind='apply runaway')
    try:
        pool.apply_async(runaway, (3,)).get(timeout=30)
        flag('C02:pool-apply-swallowed-exception', 'apply(runaway, (3,)) returned', case)
    except RecursionError as exc:
        if not isinstance(exc.__cause__, RemoteTraceback):
            flag('C02:pool-apply-wrong-exception', 'apply(runaway) raised RecursionError without the remote traceback', case)
    except BaseException as exc:
        flag('C02:pool-apply-wrong-exception-type', 'apply of a runaway recursion raised %s: %s' % (type(exc).__name__, str(exc)[:200]), case)
    xs = list(range(cfg.get('n', 24)))
    failing = [x for x in xs if x % 4 == 3]
    for cs in (1, 2, None):
        runs += 1
        case = dict(kind='map deep_at', xs=xs, chunksize=cs)
        try:
            got = pool.map_async(deep_at, xs, cs).get(timeout=60)
            flag('C02:pool-map-swallowed-exception', 'map(deep_at, %s) returned %s' % (xs, got), case)
        except KeyError as exc:
            if len(exc.args) != 2 or exc.args[0] != 'deep' or exc.args[1] not in failing or not isinstance(exc.__cause__, RemoteTraceback):
                flag('C02:pool-map-foreign-exception', 'map(deep_at, %s) raised %r (cause %r)' % (xs, exc, exc.__cause__), case)
        except BaseException as exc:
            flag('C02:pool-map-wrong-exception-type', 'map(deep_at, %s, chunksize=%s) raised %s: %s' % (xs, cs, type(exc).__name__, str(exc)[:200]), case)
    runs += 1
    it = pool.imap(deep_at, xs)
    seen = []
    try:
        while len(seen) <= len(xs) + 1:
            try:
                seen.append(['yield', it.next(timeout=30)])
            except StopIteration:
                seen.append(['stop'])
                break
            except BTimeoutError:
                seen.append(['timeout'])
                break
            except Exception as exc:
                einfo = exc.args[0] if exc.args else None
                inner = getattr(einfo, 'exception', None)
                inner = getattr(inner, 'exc', inner)
                seen.append(['raise', type(inner).__name__, list(getattr(inner, 'args', ()))])
    except Exception as exc:
        seen.append(['crash', repr(exc)])
    want = [['raise', 'KeyError', ['deep', x]] if x % 4 == 3 else ['yield', 2 * x] for x in xs] + [['stop']]
    if seen != want:
        flag('C02:pool-imap-error-position', 'imap(deep_at, %s) consumer saw %s, sequential: %s' % (xs, seen, want),
             dict(kind='imap deep_at', xs=xs))
    # ordered imap with a consumer already blocked in next() while LATER items complete first
    for n_items, cs in ((4, 1), (9, 1), (6, 2)):
        runs += 1
        case = dict(kind='imap slow_first', n=n_items, chunksize=cs)
        try:
            got = list(pool.imap(slow_first, range(n_items), chunksize=cs))
            if got != [10 * x for x in range(n_items)]:
                flag('C02:pool-imap-differs-from-sequential', 'imap(slow_first, range(%d), chunksize=%d) with the consumer blocked in next() -> %s'
                     % (n_items, cs, got), case)
        except BaseException as exc:
            flag('C02:pool-imap-raised', 'imap(slow_first, range(%d), chunksize=%d) with the consumer blocked in next() while later items complete raised %s'
                 % (n_items, cs, type(exc).__name__), case)
    runs += 1
    try:
        if pool.apply_async(deep_at, (2,)).get(timeout=30) != 4:
            flag('C02:pool-apply-differs', 'apply(deep_at, (2,)) after the failing runs', dict(kind='apply after'))
    except BaseException as exc:
        flag('C02:pool-apply-raised', 'apply after the failing runs raised %r' % (exc,), dict(kind='apply after'))
    pool.close()
    for pid in pids + [p.pid for p in pool._pool]:
        try:
            os.kill(pid, signal.SIGKILL)
        except OSError:
            pass
    print(json.dumps(dict(runs=runs, bad=bad)))
    sys.stdout.flush()
    os._exit(0)


RUNNERS = dict(chunks=run_chunks, star=run_star, multi=run_multi, **{'async': run_async}, map=run_map, imap=run_imap,
               flat=run_flat, apply=run_apply)

def run_case(c):
    """an exception inside one case is that case's observation, never a crash of the run"""
    try:
        return RUNNERS[c['t']](c)
    except Exception as exc:          # noqa: the point is to catch everything
        import traceback
        return dict(crashed='%s: %s' % (type(exc).__name__, exc),
                    where=traceback.format_exc().strip().split('\n')[-3:])


if __name__ == '__main__':
    cases = json.load(sys.stdin)
    if isinstance(cases, dict) and cases.get('mode') == 'pool':
        run_pool(cases)
    if isinstance(cases, dict) and cases.get('mode') == 'deep':
        run_deep(cases)
    print(json.dumps([run_case(c) for c in cases]))
