"""C19: exit statuses of GRANDCHILDREN: a process started under every start method (fork, spawn,
forkserver) itself starts children under an explicitly chosen fork / spawn context and reports what
exitcode / is_alive() / active_children() say about them after join().  stdout (last line): JSON."""
import json
import os
import signal
import sys
import time

HERE = os.path.dirname(os.path.abspath(__file__))
sys.path.insert(0, HERE)


import nested_targets


def main():
    json.load(sys.stdin)
    import billiard
    res = []
    for outer in ('fork', 'spawn', 'forkserver'):
        for inner in ('fork', 'spawn'):
            ctx = billiard.get_context(outer)
            r, w = ctx.Pipe(duplex=False)
            p = ctx.Process(target=nested_targets.middle, args=(inner, w))
            t0 = time.time()
            p.start()
            w.close()
            got = None
            try:
                if r.poll(90):
                    got = r.recv()
            except (EOFError, OSError) as exc:
                got = 'error:%s' % type(exc).__name__
            p.join(20)
            res.append(dict(outer=outer, inner=inner, middle_exit=p.exitcode, grandchildren=got, wall_s=round(time.time() - t0, 1)))
    sys.stdout.write('\n' + json.dumps(res) + '\n')
    sys.stdout.flush()
    os._exit(0)


if __name__ == '__main__':
    main()
