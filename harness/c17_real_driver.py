"""C17, real primitive: billiard.synchronize objects from billiard.get_context('fork') over the REAL
_multiprocessing.SemLock, shared by forked PROCESSES (ctx.Process) and by THREADS inside processes.

stdin : JSON {"scenarios": [ {kind: ..., ...}, ... ], "parallel": n (optional, default 1)}
stdout: last line = JSON {"records": [ {scenario: <the input dict>, obs: {...}}, ... ]}

The driver only OBSERVES (return values, timings, semaphore values read through _get_value(), who
finished before the watchdog deadline, type names of exceptions).  It does not judge: the monitors
live in props/c17real.py.

Process structure
  driver (this process, never starts a thread)
    `- runner     one forked process per scenario, own session; the orchestrator is its main thread
         |- ctx.Process children (forked BEFORE the runner starts any thread), each running one
         |  participant in its main thread or several participants in threads
         `- threading.Thread participants of the runner itself
Participants report through one pipe (a JSON line per message, < PIPE_BUF so writes are atomic);
later phases are released through "gates" (a pipe; one byte per participant) so that nothing under
test is used for the orchestration.  Every forked child leaves through os._exit in a finally.  A
hang becomes an observation: polling loops give up at the deadline, a blocking call of the
orchestrator (notify/notify_all/set/with cond) is interrupted by SIGALRM, and the driver kills a
runner (whole session) that does not report.

Kind fork_held: the runner's main thread holds the lock (RLock / Lock / a Condition's lock) WHILE the participant
processes are forked (launch() is called inside the critical section).

Layout keys shared by the scenario kinds:
  procs   : list of ints, one per child process: n > 0 = n participant threads in that process,
            0 = the process's main thread is the participant
  threads : number of participant threads in the runner process itself
  watchdog: seconds (default 20) for everything after all participants stand at their start gate
  startup : seconds (default 60) for forking the processes and starting the threads before that
"""
import json
import os
import select
import signal
import sys
import threading
import time

MAIN_PID = os.getpid()
GRACE = 0.3


class Hung(Exception):
    pass


def _alarm(signum, frame):
    raise Hung('alarm')


def layout(spec, prefix='', **extra):
    """participants of a procs/threads layout"""
    parts = []
    for i, n in enumerate(spec.get('procs', [])):
        if n <= 0:
            parts.append(dict(id='%sp%d' % (prefix, i), host='%sp%d' % (prefix, i), where='proc', **extra))
        else:
            for j in range(n):
                parts.append(dict(id='%sp%d.t%d' % (prefix, i, j), host='%sp%d' % (prefix, i), where='proc-thread', **extra))
    for j in range(spec.get('threads', 0)):
        parts.append(dict(id='%sm.t%d' % (prefix, j), host='main', where='thread', **extra))
    return parts


class Scn:
    def __init__(self, spec):
        import billiard
        self.spec = spec
        self.ctx = billiard.get_context('fork')
        self.t0 = time.monotonic()
        self.watchdog = float(spec.get('watchdog', 20))
        self.startup = float(spec.get('startup', 60))
        # until every participant stands at its start gate (forking and thread start-up only, nothing
        # under test is used) the 'startup' budget applies; started() then arms the real watchdog
        self.deadline = self.t0 + self.startup
        self.hard = self.t0 + self.startup + self.watchdog      # children give up on their own then
        self.r, self.w = os.pipe()
        os.set_blocking(self.r, False)
        self.buf = b''
        self.msgs = {}
        self.parts = []
        self.procs = []
        self.gates = {}
        self.phase = 'setup'
        self.phases = []

    # ------------------------------------------------------------ plumbing
    def set_phase(self, name):
        self.phase = name
        self.phases.append([name, round(time.monotonic() - self.t0, 3)])

    def emit(self, rec):
        data = (json.dumps(rec) + '\n').encode()
        if len(data) > 4000:      # keep every message below PIPE_BUF: one atomic write
            data = (json.dumps(dict(id=rec.get('id'), ev=rec.get('ev'), truncated=True)) + '\n').encode()
        os.write(self.w, data)

    def gate(self, name):
        if name not in self.gates:
            self.gates[name] = os.pipe()
        return name

    def open_gate(self, name, n=None):
        if n is None:
            n = sum(1 for p in self.parts if p.get('gate') == name)
        if n:
            os.write(self.gates[name][1], b'g' * n)

    def _wait_gate(self, name):
        r = self.gates[name][0]
        while time.monotonic() < self.hard + 1:
            if select.select([r], [], [], 0.25)[0]:
                return os.read(r, 1) == b'g'
        return False

    def _run_part(self, part, body):
        rec = dict(id=part['id'], ev='done')
        try:
            if part.get('gate'):
                self.emit(dict(id=part['id'], ev='at-gate'))
            if part.get('gate') and not self._wait_gate(part['gate']):
                rec['gate_timeout'] = True
            else:
                t = time.monotonic()
                rec['start'] = round(t - self.t0, 4)
                rec.update(body(part) or {})
                rec['el'] = round(time.monotonic() - t, 4)
        except BaseException as exc:      # noqa
            rec['exc'] = type(exc).__name__
            rec['msg'] = str(exc)[:160]
        self.emit(rec)

    def _child(self, plist, body):
        try:
            try:
                signal.setitimer(signal.ITIMER_REAL, 0)
                signal.signal(signal.SIGALRM, signal.SIG_DFL)
            except Exception:      # noqa
                pass
            if len(plist) == 1 and plist[0]['where'] == 'proc':
                self._run_part(plist[0], body)
            else:
                ts = [threading.Thread(target=self._run_part, args=(p, body), daemon=True) for p in plist]
                for t in ts:
                    t.start()
                for t in ts:
                    t.join(max(0.0, self.hard + 2 - time.monotonic()))
        finally:
            os._exit(0)

    def launch(self, parts, body):
        """fork every child process first, then start the runner's own participant threads"""
        self.parts = parts
        hosts = []
        for p in parts:
            if p['host'] != 'main' and p['host'] not in hosts:
                hosts.append(p['host'])
        for h in hosts:
            pr = self.ctx.Process(target=self._child, args=([p for p in parts if p['host'] == h], body))
            pr.daemon = True
            pr.start()
            if os.getpid() != self.runner_pid:      # a child that escaped Popen._launch
                os._exit(0)
            self.procs.append(pr)
        for p in parts:
            if p['host'] == 'main':
                threading.Thread(target=self._run_part, args=(p, body), daemon=True).start()
        self.set_phase('at-gate')
        self.wait_msgs([p['id'] for p in parts if p.get('gate')], 'at-gate')
        self.started()

    def started(self):
        self.deadline = time.monotonic() + self.watchdog
        signal.setitimer(signal.ITIMER_REAL, self.watchdog + 0.5)
        self.started_at = round(time.monotonic() - self.t0, 3)

    def pump(self, timeout):
        if select.select([self.r], [], [], max(0.0, timeout))[0]:
            try:
                self.buf += os.read(self.r, 65536)
            except BlockingIOError:
                pass
        while b'\n' in self.buf:
            ln, self.buf = self.buf.split(b'\n', 1)
            try:
                m = json.loads(ln)
            except ValueError:
                continue
            m['at'] = round(time.monotonic() - self.t0, 4)
            self.msgs.setdefault(m.get('id'), {})[m.get('ev')] = m

    def have(self, ids, ev):
        return [i for i in ids if ev in self.msgs.get(i, {})]

    def wait_msgs(self, ids, ev, need=None):
        need = len(ids) if need is None else need
        while True:
            self.pump(0.01)
            if len(self.have(ids, ev)) >= need:
                return
            if time.monotonic() >= self.deadline:
                raise Hung(self.phase)

    def poll(self, pred):
        while True:
            if pred():
                return
            if time.monotonic() >= self.deadline:
                raise Hung(self.phase)
            self.pump(0.005)

    def ids(self, **sel):
        return [p['id'] for p in self.parts if all(p.get(k) == v for k, v in sel.items())]

    @staticmethod
    def gv(sem):
        return sem._semlock._get_value()

    def cvals(self, cond):
        return dict(lock=self.gv(cond._lock), sleeping=self.gv(cond._sleeping_count),
                    woken=self.gv(cond._woken_count), wait=self.gv(cond._wait_semaphore))

    def mkcond(self):
        if self.spec.get('lock', 'rlock') == 'lock':
            return self.ctx.Condition(self.ctx.Lock())
        return self.ctx.Condition()

    def assign_timeouts(self, parts):
        tos = self.spec.get('timeouts')
        for i, p in enumerate(parts):
            p['timeout'] = tos[i % len(tos)] if tos else None

    # ------------------------------------------------------------ scenario kinds
    def k_notify_all(self, obs):
        """W waiters (timed ones if 'timeouts' is given) -> all announced -> one notify_all"""
        cond = self.mkcond()
        go = self.gate('go')      # everybody starts together: the timeouts are relative to one instant
        parts = layout(self.spec, gate=go)
        self.assign_timeouts(parts)

        def body(part):
            with cond:
                self.emit(dict(id=part['id'], ev='ready'))
                r = cond.wait(part['timeout'])
            return dict(r=r)
        self.set_phase('launch')
        self.launch(parts, body)
        allids = self.ids()
        self.open_gate(go)
        self.set_phase('ready')
        self.wait_msgs(allids, 'ready')
        self.set_phase('announced')      # nobody notified yet: _sleeping_count only grows
        self.poll(lambda: self.gv(cond._sleeping_count) >= len(parts))
        if self.spec.get('notify_delay'):
            time.sleep(self.spec['notify_delay'])
        self.set_phase('notify_all')
        t = time.monotonic()
        with cond:
            obs['before_notify'] = self.cvals(cond)
            cond.notify_all()
        obs['notify_s'] = round(time.monotonic() - t, 4)
        obs['notify_at'] = round(t - self.t0, 4)
        self.set_phase('collect')
        self.wait_msgs(allids, 'done')
        obs['after'] = self.cvals(cond)
        self.set_phase('reconcile')
        with cond:
            cond.notify_all()
        obs['final'] = self.cvals(cond)

    k_notify_all_mixed = k_notify_all

    def k_notify_one(self, obs):
        """W untimed sleepers; 'notifies' successive notify() calls, each followed by a grace period;
        then notify_all releases the rest"""
        cond = self.mkcond()
        go = self.gate('go')
        parts = layout(self.spec, timeout=None, gate=go)
        n = int(self.spec.get('notifies', 1))
        grace = float(self.spec.get('grace', GRACE))

        def body(part):
            with cond:
                self.emit(dict(id=part['id'], ev='ready'))
                r = cond.wait()
            return dict(r=r)
        self.set_phase('launch')
        self.launch(parts, body)
        allids = self.ids()
        self.open_gate(go)
        self.set_phase('ready')
        self.wait_msgs(allids, 'ready')
        self.set_phase('announced')
        self.poll(lambda: self.gv(cond._sleeping_count) >= len(parts))
        obs['asleep_before'] = self.gv(cond._sleeping_count) - self.gv(cond._woken_count)
        obs['steps'] = []
        for i in range(n):
            self.set_phase('notify-%d' % i)
            with cond:
                cond.notify()
            self.set_phase('first-done-%d' % i)
            self.wait_msgs(allids, 'done', need=i + 1)
            t = time.monotonic()
            while time.monotonic() < t + grace:
                self.pump(0.02)
            obs['steps'].append(dict(done=len(self.have(allids, 'done')),
                                     asleep=self.gv(cond._sleeping_count) - self.gv(cond._woken_count),
                                     vals=self.cvals(cond)))
        self.set_phase('notify_all')
        with cond:
            cond.notify_all()
        self.set_phase('collect')
        self.wait_msgs(allids, 'done')
        obs['after'] = self.cvals(cond)
        self.set_phase('reconcile')
        with cond:
            cond.notify_all()
        obs['final'] = self.cvals(cond)

    def k_timeout(self, obs):
        """timed waits with no notifier; then a fresh untimed sleeper and ONE notify()"""
        cond = self.mkcond()
        wait = float(self.spec.get('wait', 0.05))
        go = self.gate('go')
        parts = layout(self.spec, role='timed', timeout=wait, gate=go)
        fresh_where = self.spec.get('fresh', 'proc')
        g = self.gate('fresh')
        if fresh_where == 'thread':
            fresh = dict(id='fresh', host='main', where='thread')
        elif fresh_where == 'proc-thread':
            fresh = dict(id='fresh', host='pf', where='proc-thread')
        else:
            fresh = dict(id='fresh', host='pf', where='proc')
        fresh.update(role='fresh', timeout=None, gate=g)
        parts.append(fresh)

        def body(part):
            with cond:
                self.emit(dict(id=part['id'], ev='ready'))
                r = cond.wait(part['timeout'])
            return dict(r=r)
        self.set_phase('launch')
        self.launch(parts, body)
        timed = self.ids(role='timed')
        self.open_gate(go)
        self.set_phase('timed-waits')
        self.wait_msgs(timed, 'done')
        obs['after_timeouts'] = self.cvals(cond)
        self.set_phase('fresh-announced')
        self.open_gate(g)
        self.wait_msgs(['fresh'], 'ready')
        self.poll(lambda: self.gv(cond._sleeping_count) >= len(timed) + 1)
        obs['asleep_before_notify'] = self.gv(cond._sleeping_count) - self.gv(cond._woken_count)
        obs['fresh_done_before_notify'] = bool(self.have(['fresh'], 'done'))
        self.set_phase('notify')
        with cond:
            cond.notify()
        self.set_phase('fresh-done')
        self.wait_msgs(['fresh'], 'done')
        obs['after_notify'] = self.cvals(cond)
        self.set_phase('reconcile')
        with cond:
            cond.notify_all()
        obs['final'] = self.cvals(cond)

    def k_event(self, obs):
        ev = self.ctx.Event()
        cond = ev._cond
        go = self.gate('go')
        parts = layout(self.spec, gate=go)
        self.assign_timeouts(parts)
        short = float(self.spec.get('wait', 0.05))

        def body(part):
            self.emit(dict(id=part['id'], ev='ready'))
            r = ev.wait(part['timeout'])
            return dict(r=r, is_set=ev.is_set())
        obs['is_set_initial'] = ev.is_set()
        self.set_phase('launch')
        self.launch(parts, body)
        allids = self.ids()
        self.open_gate(go)
        self.set_phase('ready')
        self.wait_msgs(allids, 'ready')
        self.set_phase('announced')      # flag unset: every waiter announces itself exactly once
        self.poll(lambda: self.gv(cond._sleeping_count) >= len(parts))
        if self.spec.get('notify_delay'):
            time.sleep(self.spec['notify_delay'])
        self.set_phase('set')
        t = time.monotonic()
        obs['before_set'] = dict(self.cvals(cond), flag=self.gv(ev._flag))
        ev.set()
        obs['set_s'] = round(time.monotonic() - t, 4)
        obs['notify_at'] = round(t - self.t0, 4)
        obs['is_set_after_set'] = ev.is_set()
        self.set_phase('collect')
        self.wait_msgs(allids, 'done')
        obs['after'] = dict(self.cvals(cond), flag=self.gv(ev._flag))
        self.set_phase('clear')
        ev.clear()
        obs['is_set_after_clear'] = ev.is_set()
        t = time.monotonic()
        obs['wait_after_clear'] = ev.wait(short)
        obs['wait_after_clear_s'] = round(time.monotonic() - t, 4)
        self.set_phase('set-before-wait')
        ev.set()
        t = time.monotonic()
        obs['wait_when_set'] = ev.wait()
        obs['wait_when_set_s'] = round(time.monotonic() - t, 4)
        obs['timed_wait_when_set'] = ev.wait(short)
        obs['is_set_final'] = ev.is_set()
        self.set_phase('reconcile')
        with cond:
            cond.notify_all()
        obs['final'] = dict(self.cvals(cond), flag=self.gv(ev._flag))

    def k_semaphore(self, obs):
        """N participants, 'rounds' critical sections each, under Semaphore(k) / BoundedSemaphore(k) /
        Lock / RLock (depth 2); the occupancy counter lives in shared memory behind a separate Lock"""
        ctx = self.ctx
        prim = self.spec.get('prim', 'semaphore')
        k = int(self.spec.get('k', 1)) if prim in ('semaphore', 'bounded') else 1
        sem = dict(semaphore=lambda: ctx.Semaphore(k), bounded=lambda: ctx.BoundedSemaphore(k),
                   lock=ctx.Lock, rlock=ctx.RLock)[prim]()
        guard = ctx.Lock()
        cur = ctx.Value('i', 0, lock=False)
        mx = ctx.Value('i', 0, lock=False)
        entries = ctx.Value('i', 0, lock=False)
        rounds = int(self.spec.get('rounds', 3))
        hold = float(self.spec.get('hold', 0.004))
        go = self.gate('go')
        parts = layout(self.spec, role='worker', gate=go)
        if prim == 'rlock' and self.spec.get('nonowner', True):
            gi = self.gate('intruders')
            parts.append(dict(id='intruder-proc', host='pi', where='proc', role='intruder', gate=gi))
            parts.append(dict(id='intruder-thread', host='main', where='thread', role='intruder', gate=gi))

        def body(part):
            if part['role'] == 'intruder':
                try:
                    sem.release()
                    return dict(raised=None)
                except BaseException as exc:      # noqa
                    return dict(raised=type(exc).__name__, text=str(exc)[:120])
            localmax = 0
            depth2 = []
            for _ in range(rounds):
                with sem:
                    if prim == 'rlock':
                        sem.acquire()
                        depth2.append([sem._semlock._count(), sem._semlock._is_mine()])
                    with guard:
                        cur.value += 1
                        entries.value += 1
                        c = cur.value
                        if c > mx.value:
                            mx.value = c
                    localmax = max(localmax, c)
                    time.sleep(hold)
                    with guard:
                        cur.value -= 1
                    if prim == 'rlock':
                        sem.release()
            d = dict(localmax=localmax, rounds=rounds)
            if prim == 'rlock':
                d['depth2'] = depth2
            return d
        obs['k'] = k
        obs['initial_value'] = self.gv(sem)
        self.set_phase('launch')
        self.launch(parts, body)
        workers = self.ids(role='worker')
        self.set_phase('workers')      # everybody is released at once: real contention
        self.open_gate(go)
        self.wait_msgs(workers, 'done')
        obs.update(max_inside=mx.value, inside_final=cur.value, entries=entries.value,
                   expected_entries=rounds * len(workers), value_final=self.gv(sem), guard_final=self.gv(guard))
        if prim == 'rlock' and self.spec.get('nonowner', True):
            self.set_phase('nonowner-release')
            sem.acquire()
            sem.acquire()
            self.open_gate('intruders')
            intr = self.ids(role='intruder')
            self.wait_msgs(intr, 'done')
            obs['owner_after_intruders'] = dict(is_mine=sem._semlock._is_mine(), count=sem._semlock._count(),
                                                value=self.gv(sem))
            sem.release()
            sem.release()
            obs['value_after_owner_release'] = self.gv(sem)

    def k_bounded(self, obs):
        """BoundedSemaphore(k): j acquires, j releases, one release too many; the same on a plain
        Semaphore(k) and on an unlocked Lock; in the runner's main thread, a thread and a process"""
        ctx = self.ctx
        k = int(self.spec.get('k', 2))
        j = int(self.spec.get('j', k))
        places = self.spec.get('places', ['main', 'thread', 'proc'])
        objs = {pl: dict(b=ctx.BoundedSemaphore(k), s=ctx.Semaphore(k), l=ctx.Lock()) for pl in places}

        def attempt(fn):
            try:
                fn()
                return None
            except BaseException as exc:      # noqa
                return type(exc).__name__

        def seq(pl):
            o = objs[pl]
            b, s, l = o['b'], o['s'], o['l']
            d = dict(k=k, j=j)
            d['b_acquired'] = [b.acquire(False) for _ in range(j)]
            d['b_mid'] = self.gv(b)
            d['b_release_exc'] = [attempt(b.release) for _ in range(j)]
            d['b_back'] = self.gv(b)
            d['b_over'] = attempt(b.release)
            d['b_after'] = self.gv(b)
            d['b_drain'] = [b.acquire(False) for _ in range(k + 1)]
            d['b_refill_exc'] = [attempt(b.release) for _ in range(k)]
            d['s_acquired'] = [s.acquire(False) for _ in range(j)]
            d['s_release_exc'] = [attempt(s.release) for _ in range(j)]
            d['s_over'] = attempt(s.release)
            d['s_after'] = self.gv(s)
            d['l_over'] = attempt(l.release)
            d['l_after'] = self.gv(l)
            d['l_acquire'] = [l.acquire(False), l.acquire(False)]
            d['l_release'] = attempt(l.release)
            return d
        parts = []
        if 'thread' in places:
            parts.append(dict(id='thread', host='main', where='thread', place='thread', gate=self.gate('go')))
        if 'proc' in places:
            parts.append(dict(id='proc', host='pb', where='proc', place='proc', gate=self.gate('go')))
        self.set_phase('launch')
        self.launch(parts, lambda part: dict(seq=seq(part['place'])))
        if parts:
            self.open_gate('go')
        obs['seqs'] = {}
        if 'main' in places:
            self.set_phase('main-seq')
            obs['seqs']['main'] = seq('main')
        self.set_phase('collect')
        self.wait_msgs(self.ids(), 'done')
        for p in parts:
            obs['seqs'][p['place']] = self.msgs[p['id']]['done'].get('seq')
        obs['seen_from_runner'] = {pl: dict(b=self.gv(objs[pl]['b']), s=self.gv(objs[pl]['s']), l=self.gv(objs[pl]['l']))
                                   for pl in places}

    def k_fork_held(self, obs):
        """the runner's main thread TAKES the lock (an RLock, a Lock, or the lock of a Condition) and forks the
        participant processes WHILE HOLDING it.  Every participant first reports what its own copy of the lock object
        says (_count(), _is_mine()) and the result of one NON-blocking acquire -- the holder is still inside -- then
          lock kinds: 'rounds' critical sections under the lock (occupancy counter as in k_semaphore)
          cond kinds: `with cond: cond.wait()`; the runner then releases, waits for the announcements, notify_all()"""
        ctx = self.ctx
        prim = self.spec.get('prim', 'rlock')
        cond = None
        if prim in ('cond', 'cond_lock'):
            cond = ctx.Condition(ctx.Lock()) if prim == 'cond_lock' else ctx.Condition()
            lock, inner = cond, cond._lock
        else:
            lock = inner = ctx.RLock() if prim == 'rlock' else ctx.Lock()
        guard = ctx.Lock()
        cur = ctx.Value('i', 0, lock=False)
        mx = ctx.Value('i', 0, lock=False)
        entries = ctx.Value('i', 0, lock=False)
        rounds = int(self.spec.get('rounds', 2))
        hold = float(self.spec.get('hold', 0.003))
        go = self.gate('go')
        parts = layout(self.spec, role='worker', timeout=None, gate=go)

        def enter():
            with guard:
                cur.value += 1
                c = cur.value
                if c > mx.value:
                    mx.value = c
            return c

        def leave():
            with guard:
                cur.value -= 1

        def body(part):
            sl = inner._semlock
            d = dict(count0=sl._count(), is_mine0=bool(sl._is_mine()))
            got = lock.acquire(False)
            d['try0'] = bool(got)
            if got:      # inside together with the holder
                d['inside_with_holder'] = enter()
                leave()
                lock.release()
            self.emit(dict(id=part['id'], ev='tried', **d))
            if cond is None:
                localmax = 0
                for _ in range(rounds):
                    with lock:
                        with guard:
                            entries.value += 1
                        localmax = max(localmax, enter())
                        time.sleep(hold)
                        leave()
                d['localmax'] = localmax
            else:
                with cond:
                    self.emit(dict(id=part['id'], ev='ready'))
                    d['r'] = cond.wait()
            return d
        obs['k'] = 1
        obs['initial_value'] = self.gv(inner)
        self.set_phase('launch')
        lock.acquire()      # the forking thread holds the lock from here ...
        try:
            enter()
            self.launch(parts, body)      # ... while the participant processes are forked ...
            workers = self.ids(role='worker')
            self.set_phase('tried')
            self.open_gate(go)
            self.wait_msgs(workers, 'tried')
            obs['value_while_held'] = self.gv(inner)
            obs['inside_while_held'] = cur.value
            obs['holder_while_held'] = dict(is_mine=bool(inner._semlock._is_mine()), count=inner._semlock._count())
            leave()
        finally:
            lock.release()      # ... to here
        obs['released'] = True
        if cond is None:
            self.set_phase('workers')
            self.wait_msgs(workers, 'done')
            obs.update(max_inside=mx.value, inside_final=cur.value, entries=entries.value,
                       expected_entries=rounds * len(workers), value_final=self.gv(inner), guard_final=self.gv(guard))
        else:
            self.set_phase('ready')
            self.wait_msgs(workers, 'ready')
            self.set_phase('announced')
            self.poll(lambda: self.gv(cond._sleeping_count) >= len(parts))
            self.set_phase('notify_all')
            t = time.monotonic()
            with cond:
                obs['before_notify'] = self.cvals(cond)
                cond.notify_all()
            obs['notify_s'] = round(time.monotonic() - t, 4)
            self.set_phase('collect')
            self.wait_msgs(workers, 'done')
            obs['max_inside'] = mx.value
            obs['after'] = self.cvals(cond)
            self.set_phase('reconcile')
            with cond:
                cond.notify_all()
            obs['final'] = self.cvals(cond)

    # ------------------------------------------------------------ run
    def run(self):
        self.runner_pid = os.getpid()
        obs = dict(kind=self.spec.get('kind'), hung=False)
        fn = getattr(self, 'k_' + str(self.spec.get('kind')), None)
        signal.signal(signal.SIGALRM, _alarm)
        signal.setitimer(signal.ITIMER_REAL, self.startup + 0.5)
        try:
            try:
                if fn is None:
                    obs['driver_error'] = 'unknown scenario kind'
                else:
                    fn(obs)
            finally:
                signal.setitimer(signal.ITIMER_REAL, 0)
        except Hung:
            obs['hung'] = True
            obs['hung_phase'] = self.phase
        except BaseException as exc:      # noqa
            if os.getpid() != self.runner_pid:
                os._exit(0)
            obs['orchestrator_exc'] = type(exc).__name__
            obs['orchestrator_msg'] = str(exc)[:300]
            obs['orchestrator_phase'] = self.phase
        try:
            self.pump(0.05)
        except BaseException:      # noqa
            pass
        plist = []
        for p in self.parts:
            m = self.msgs.get(p['id'], {})
            d = dict(id=p['id'], where=p['where'], host=p['host'], role=p.get('role'), timeout=p.get('timeout'),
                     ready='ready' in m, done='done' in m)
            if 'tried' in m:
                d.update({kk: vv for kk, vv in m['tried'].items() if kk not in ('id', 'ev', 'at')})
            if 'done' in m:
                d.update({kk: vv for kk, vv in m['done'].items() if kk not in ('id', 'ev', 'seq')})
            plist.append(d)
        obs['parts'] = plist
        obs['unfinished'] = [d['id'] for d in plist if not d['done']]
        obs['n_parts'] = len(plist)
        obs['n_procs'] = len(self.procs)
        obs['n_threads'] = sum(1 for d in plist if d['where'] in ('thread', 'proc-thread'))
        obs['phases'] = self.phases
        obs['started_at'] = getattr(self, 'started_at', None)
        obs['wall_s'] = round(time.monotonic() - self.t0, 3)
        alive = []
        for pr in self.procs:
            try:
                os.kill(pr.pid, 0)
                alive.append(pr.pid)
                os.kill(pr.pid, signal.SIGKILL)
            except OSError:
                pass
        obs['children_killed'] = len(alive) if obs['hung'] else 0
        return obs


def runner(spec, w):
    """body of the forked runner process; never returns"""
    try:
        try:
            os.setsid()
        except OSError:
            pass
        try:
            import logging
            logging.disable(logging.CRITICAL)
            obs = Scn(spec).run()
        except BaseException as exc:      # noqa
            obs = dict(kind=spec.get('kind'), hung=False, driver_error='%s: %s' % (type(exc).__name__, str(exc)[:300]))
        data = (json.dumps(obs) + '\n').encode()
        while data:
            n = os.write(w, data)
            data = data[n:]
    finally:
        os._exit(0)


def spawn(spec):
    r, w = os.pipe()
    sys.stdout.flush()
    pid = os.fork()
    if pid == 0:
        try:
            os.close(r)
            runner(spec, w)
        finally:
            os._exit(0)
    os.close(w)
    return dict(pid=pid, r=r, spec=spec, buf=b'', t0=time.monotonic(),
                limit=float(spec.get('startup', 60)) + float(spec.get('watchdog', 20)) + 10)


def reap(job):
    try:
        os.killpg(job['pid'], signal.SIGKILL)      # the runner's session: leftover children
    except OSError:
        pass
    try:
        os.kill(job['pid'], signal.SIGKILL)
    except OSError:
        pass
    try:
        os.waitpid(job['pid'], 0)
    except OSError:
        pass
    os.close(job['r'])


def run_all(specs, width):
    records = [None] * len(specs)
    pending = list(enumerate(specs))
    active = {}
    while pending or active:
        while pending and len(active) < width:
            i, sp = pending.pop(0)
            job = spawn(sp)
            job['index'] = i
            active[job['r']] = job
        ready = select.select(list(active), [], [], 0.25)[0]
        now = time.monotonic()
        for fd in list(active):
            job = active[fd]
            fin = False
            if fd in ready:
                chunk = os.read(fd, 65536)
                if chunk:
                    job['buf'] += chunk
                else:
                    fin = True
            if not fin and now - job['t0'] > job['limit']:
                fin = True
                job['late'] = True
            if fin:
                obs = None
                for ln in reversed(job['buf'].decode('utf-8', 'replace').strip().split('\n')):
                    try:
                        obs = json.loads(ln)
                        break
                    except ValueError:
                        continue
                if obs is None:
                    obs = dict(kind=job['spec'].get('kind'), hung=bool(job.get('late')), runner_lost=True,
                               unfinished=['runner'], wall_s=round(now - job['t0'], 2))
                records[job['index']] = dict(scenario=job['spec'], obs=obs)
                del active[fd]
                reap(job)
    return records


def main():
    payload = json.load(sys.stdin)
    specs = payload['scenarios']
    width = max(1, int(payload.get('parallel', 1)))
    import billiard      # noqa  (imported once, before any fork)
    import billiard.synchronize      # noqa
    import billiard.sharedctypes      # noqa
    t0 = time.monotonic()
    records = run_all(specs, width)
    sys.stdout.write('\n' + json.dumps(dict(records=records, wall_s=round(time.monotonic() - t0, 2),
                                            repo=os.path.dirname(os.path.dirname(os.path.abspath(billiard.__file__))))) + '\n')
    sys.stdout.flush()


if __name__ == '__main__':
    code = 0
    try:
        main()
    except BaseException as exc:      # noqa
        if os.getpid() == MAIN_PID:
            import traceback
            traceback.print_exc()
        code = 1
    finally:
        sys.stdout.flush()
        os._exit(code if os.getpid() == MAIN_PID else 0)
