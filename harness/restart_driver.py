"""Drive the real billiard.common.restart_state on event histories."""
import json
import sys
from billiard.common import restart_state
from billiard.exceptions import RestartFreqExceeded


def run_case(c):
    rs = restart_state(c['maxR'], c['maxT'])
    outs = []
    for ev in c['evs']:
        if ev[0] == 'step':
            try:
                rs.step(ev[1])
                outs.append(False)
            except RestartFreqExceeded:
                outs.append(True)
        else:                      # what ResultHandler.on_ack does
            rs.R = 0
            outs.append(False)
    return dict(outs=outs, R=rs.R, T=rs.T)


if __name__ == '__main__':
    cases = json.load(sys.stdin)
    print(json.dumps([run_case(c) for c in cases]))
