"""Drive the real billiard.heap.Heap on malloc/free/deferred-free histories.

stdin : JSON list of cases  dict(pg=<page size>, size=<Heap(size)>, ops=[...], real=<bool>)
        ops:  ['m', n]      block_k = heap.malloc(n)        (k = number of mallocs so far)
              ['f', k]      heap.free(block_k)              (try-lock succeeds)
              ['d', k]      heap.free(block_k) while another thread holds heap._lock -> deferred
              ['g', n, k]   heap.malloc(n) during which a finaliser calls heap.free(block_k)
                            (after the pending list was drained, while the lock is held)
              ['M', n, t, k]  heap.malloc(n)      } during which THIS thread calls heap.free(block_k), the way a
              ['F', j, t, k]  heap.free(block_j)  } finaliser run by the garbage collector does (re-entrant free):
                            t = -1: when _free_pending_blocks is entered (lock held, pending list not yet drained);
                            t >= 0: at the t-th line of heap.py executed after _free_pending_blocks returned (any
                            line of malloc/free/_malloc/_free/_absorb/_roundup up to and including the release of
                            the lock).  If the op has fewer lines the nested free does not happen (aux.fired = 0).
stdout: JSON list of dict(obs=[[err, [arena#, start, stop], n_arenas, n_free], ...], snap={...},
                          aux=[{pending: [blocks in _pending_free_blocks after the op], fired: 0/1,
                                nested_err: exception name raised by the nested free or null}, ...])

`Arena` is replaced by a size-only stub unless real=True (then the real mmap-backed
Arena is used and a byte pattern is written through a memoryview into every live
block and re-read after every op; any damaged byte is reported in `damage`).
mmap.PAGESIZE as seen by heap.py is replaced by the case's page size (stub only).
"""
import json
import signal
import sys
import threading
import types
import mmap as real_mmap

import billiard.heap as bh

REAL_ARENA = bh.Arena


class StubArena:
    def __init__(self, size, fd=-1):
        self.size = size


class Stuck(Exception):
    pass


def _on_alarm(signum, frame):
    raise Stuck('operation did not return within 3 s (deadlock on the heap lock?)')


def blk(ix, b):
    return [ix[id(b[0])], b[1], b[2]]


def arena_index(heap):
    return {id(a): i for i, a in enumerate(heap._arenas)}


def snapshot(heap):
    ix = arena_index(heap)
    return dict(
        lengths=list(heap._lengths),
        l2s=[[ln, [blk(ix, b) for b in seq]] for ln, seq in heap._len_to_seq.items()],
        s2b=[[[ix[id(k[0])], k[1]], blk(ix, b)] for k, b in heap._start_to_block.items()],
        e2b=[[[ix[id(k[0])], k[1]], blk(ix, b)] for k, b in heap._stop_to_block.items()],
        alloc=sorted(blk(ix, b) for b in heap._allocated_blocks),
        arenas=[a.size for a in heap._arenas],
        nsize=heap._size,
        pending=[blk(ix, b) for b in heap._pending_free_blocks],
    )


def n_free(heap):
    return sum(len(s) for s in heap._len_to_seq.values())


def deferred_free(heap, b):
    """heap.free(b) while ANOTHER thread holds the heap lock (whatever kind of lock it is)"""
    held = threading.Event()
    done = threading.Event()

    def holder():
        heap._lock.acquire()
        held.set()
        done.wait()
        heap._lock.release()
    th = threading.Thread(target=holder)
    th.daemon = True
    th.start()
    held.wait()
    try:
        heap.free(b)
    finally:
        done.set()
        th.join()


def force_unlock(lock):
    """after an exception escaped from malloc/free: leave the lock released, whatever its kind"""
    for _ in range(8):
        try:
            lock.release()
        except RuntimeError:
            return


HEAP_FILE = bh.Heap.malloc.__code__.co_filename
NESTED_EXC = (KeyError, IndexError, ValueError, AssertionError, TypeError, AttributeError, RuntimeError)


class Nested:
    """heap.free(victim) issued by the thread that is inside heap.malloc()/heap.free() -- what a finaliser
    does when the garbage collector runs at that moment.  The point is chosen with sys.settrace:
    t = -1: on entry to _free_pending_blocks; t >= 0: at the t-th heap.py line after it returned.
    An exception of the nested free is recorded and swallowed (as for a finaliser), the outer op goes on."""

    def __init__(self, heap, victim, t):
        self.heap, self.victim, self.t = heap, victim, t
        self.state = 'wait'       # wait -> drain -> post
        self.count = 0
        self.fired = 0
        self.err = None
        self.drain_frame = None

    def fire(self):
        # (runs inside the trace function: Python does not trace what is called from here)
        self.fired = 1
        try:
            self.heap.free(self.victim)
        except NESTED_EXC as exc:
            self.err = type(exc).__name__

    def on_call(self, frame, event, arg):
        if self.fired or frame.f_code.co_filename != HEAP_FILE:
            return None
        if self.state == 'wait' and frame.f_code.co_name == '_free_pending_blocks':
            if self.t < 0:
                self.fire()
                return None
            self.state = 'drain'
            self.drain_frame = frame
            return self.on_drain
        if self.state == 'drain':
            return None
        return self.on_line

    def on_drain(self, frame, event, arg):
        if event == 'return' and frame is self.drain_frame:
            self.state = 'post'
        return self.on_drain

    def on_line(self, frame, event, arg):
        if event == 'line' and self.state == 'post' and not self.fired:
            if self.count == self.t:
                self.fire()
            self.count += 1
        return self.on_line

    def run(self, call):
        ACTIVE[0] = self
        try:
            return call()
        finally:
            ACTIVE[0] = None


# sys.settrace is switched on once for the whole run (switching it per op re-instruments every code
# object, which is slow); while no Nested is active no frame is traced
ACTIVE = [None]


def dispatch(frame, event, arg):
    cur = ACTIVE[0]
    if cur is None:
        return None
    return cur.on_call(frame, event, arg)


def malloc_with_gc(heap, n, victim):
    """heap.malloc(n); while it holds the lock (at its first _roundup call, i.e. after
    _free_pending_blocks) a 'finaliser' frees `victim`"""
    orig = bh.Heap._roundup
    fired = []

    def hooked(x, alignment):
        if not fired:
            fired.append(1)
            heap.free(victim)          # lock is held by malloc -> goes to the pending list
        return orig(x, alignment)
    heap._roundup = hooked
    try:
        return heap.malloc(n)
    finally:
        del heap._roundup


def pattern(k, size):
    return bytes(((k * 37 + j * 11 + 5) & 0xFF) for j in range(size))


STUCK = [0]


def run_threads_case(c):
    """T real threads allocate and free on one heap (thorough tier): validates that the heap lock
    serialises them -- judged on the final state only"""
    import random
    import threading
    bh.Arena = StubArena
    bh.mmap = types.SimpleNamespace(PAGESIZE=c['pg'])
    heap = bh.Heap(c['size'])
    old = sys.getswitchinterval()
    sys.setswitchinterval(1e-6)
    lives = [[] for _ in range(c['threads'])]
    errors = []

    def work(t):
        rng = random.Random(c['seed'] * 1000 + t)
        live = lives[t]
        try:
            for _ in range(c['n']):
                if live and rng.random() < 0.48:
                    heap.free(live.pop(rng.randrange(len(live))))
                else:
                    live.append(heap.malloc(rng.choice([0, 1, 8, 9, 24, 64, 100, 300])))
        except Exception as exc:
            errors.append('%s: %s' % (type(exc).__name__, exc))
    ths = [threading.Thread(target=work, args=(t,)) for t in range(c['threads'])]
    for th in ths:
        th.start()
    for th in ths:
        th.join(120)
    sys.setswitchinterval(old)
    # apply frees that found the lock taken
    b = heap.malloc(8)
    heap.free(b)
    ix = arena_index(heap)
    return dict(obs=[], snap=snapshot(heap), errors=errors, alive=[th.is_alive() for th in ths],
                live=sorted(blk(ix, x) for l in lives for x in l))


def run_prefix(heap, ops):
    """sequential prefix of a conc / fork case: ['m', n] | ['f', k] | ['d', k]; returns the blocks by malloc number"""
    got = []
    for op in ops:
        if op[0] == 'm':
            got.append(heap.malloc(op[1]))
        elif op[0] == 'f':
            heap.free(got[op[1]])
        elif op[0] == 'd':
            deferred_free(heap, got[op[1]])
        else:
            raise SystemExit('bad prefix op %r' % (op,))
    return got


def run_conc_case(c):
    """real threads under a forced schedule (harness/heap_conc.py)"""
    import heap_conc
    bh.Arena = StubArena
    bh.mmap = types.SimpleNamespace(PAGESIZE=c['pg'])
    signal.setitimer(signal.ITIMER_REAL, 30.0)
    try:
        return heap_conc.run_conc(bh.Heap, c, snapshot, arena_index, blk, lambda heap: run_prefix(heap, c['ops']))
    except Stuck:
        return dict(obs=[], snap=None, stuck=True, events=[], trace=[], log=[], results=[], got=[])
    finally:
        signal.setitimer(signal.ITIMER_REAL, 0)


def run_fork_case(c):
    """the prefix runs here; a forked child then uses the heap object it inherited (['m', n] | ['f', k] own block |
    ['p', k] a block of the parent) and reports; the parent's state is reported afterwards"""
    import os
    bh.Arena = StubArena
    bh.mmap = types.SimpleNamespace(PAGESIZE=c['pg'])
    heap = bh.Heap(c['size'])
    pgot = run_prefix(heap, c['ops'])
    parent_arenas = list(heap._arenas)
    r, w = os.pipe()
    pid = os.fork()
    if pid == 0:
        code = 0
        try:
            os.close(r)
            obs, got = [], []
            for op in c['fork']:
                try:
                    signal.setitimer(signal.ITIMER_REAL, 3.0)
                    res = None
                    if op[0] == 'm':
                        res = heap.malloc(op[1])
                        got.append(res)
                    elif op[0] == 'f':
                        heap.free(got[op[1]])
                    else:
                        heap.free(pgot[op[1]])
                    signal.setitimer(signal.ITIMER_REAL, 0)
                except (KeyError, IndexError, ValueError, AssertionError, TypeError, AttributeError, Stuck) as exc:
                    signal.setitimer(signal.ITIMER_REAL, 0)
                    obs.append([True, [-1, -1, -1], -1, -1, type(exc).__name__])
                    break
                ix = arena_index(heap)
                if res is not None and id(res[0]) not in ix:
                    obs.append([False, [-2, res[1], res[2]], len(heap._arenas), n_free(heap)])
                else:
                    obs.append([False, blk(ix, res) if res is not None else [-1, -1, -1],
                                len(heap._arenas), n_free(heap)])
            inherited = sum(1 for a in heap._arenas if any(a is p for p in parent_arenas))
            try:
                snap = snapshot(heap)
            except KeyError:
                snap = None
            out = dict(obs=obs, snap=snap, arenas_shared_with_parent=inherited)
            os.write(w, json.dumps(out).encode())
        except BaseException:
            code = 3
        finally:
            os._exit(code)
    os.close(w)
    data = b''
    while True:
        chunk = os.read(r, 65536)
        if not chunk:
            break
        data += chunk
    os.close(r)
    os.waitpid(pid, 0)
    child = json.loads(data.decode()) if data else dict(obs=[], snap=None, died=True)
    return dict(obs=[], snap=snapshot(heap), child=child, dsize=bh.Heap.__init__.__defaults__[0])


def run_case(c):
    if 'threads' in c:
        return run_threads_case(c)
    if 'conc' in c:
        return run_conc_case(c)
    if 'fork' in c:
        return run_fork_case(c)
    if STUCK[0] >= 2:      # the heap lock deadlocks: do not wait for every remaining case
        return dict(obs=[], snap=None, skipped=True)
    real = bool(c.get('real'))
    if real:
        bh.Arena = REAL_ARENA
        bh.mmap = real_mmap
    else:
        bh.Arena = StubArena
        bh.mmap = types.SimpleNamespace(PAGESIZE=c['pg'])
    heap = bh.Heap(c['size'])
    got = []          # block objects by malloc number
    want = {}         # malloc number -> (requested size) for live pattern checks (real only)
    obs = []
    aux = []
    damage = []

    def write_pat(k, n):
        b = got[k]
        if n:
            memoryview(b[0].buffer)[b[1]:b[1] + n] = pattern(k, n)
        want[k] = n

    def check_pats(at):
        for k, n in want.items():
            b = got[k]
            if bytes(memoryview(b[0].buffer)[b[1]:b[1] + n]) != pattern(k, n):
                damage.append([at, k])

    for j, op in enumerate(c['ops']):
        nested = None
        try:
            signal.setitimer(signal.ITIMER_REAL, 3.0)
            r = None
            if op[0] == 'm':
                r = heap.malloc(op[1])
                got.append(r)
                if real:
                    write_pat(len(got) - 1, op[1])
            elif op[0] == 'g':
                r = malloc_with_gc(heap, op[1], got[op[2]])
                got.append(r)
                if real:
                    want.pop(op[2], None)
                    write_pat(len(got) - 1, op[1])
            elif op[0] == 'f':
                if real:
                    want.pop(op[1], None)
                heap.free(got[op[1]])
            elif op[0] == 'd':
                if real:
                    want.pop(op[1], None)
                deferred_free(heap, got[op[1]])
            elif op[0] == 'M':
                nested = Nested(heap, got[op[3]], op[2])
                r = nested.run(lambda: heap.malloc(op[1]))
                got.append(r)
                if real:
                    if nested.fired:
                        want.pop(op[3], None)
                    write_pat(len(got) - 1, op[1])
            elif op[0] == 'F':
                nested = Nested(heap, got[op[3]], op[2])
                if real:
                    want.pop(op[1], None)
                    want.pop(op[3], None)
                nested.run(lambda: heap.free(got[op[1]]))
            else:
                raise SystemExit('bad op %r' % (op,))
        except (KeyError, IndexError, ValueError, AssertionError, TypeError, AttributeError, Stuck) as exc:
            signal.setitimer(signal.ITIMER_REAL, 0)
            if isinstance(exc, Stuck):
                STUCK[0] += 1
            force_unlock(heap._lock)
            obs.append([True, [-1, -1, -1], -1, -1, type(exc).__name__])
            aux.append(dict(pending=[], fired=nested.fired if nested else 0,
                            nested_err=nested.err if nested else None))
            break
        signal.setitimer(signal.ITIMER_REAL, 0)
        ix = arena_index(heap)
        obs.append([False, blk(ix, r) if r is not None else [-1, -1, -1],
                    len(heap._arenas), n_free(heap)])
        aux.append(dict(pending=[blk(ix, b) for b in heap._pending_free_blocks],
                        fired=nested.fired if nested else 0, nested_err=nested.err if nested else None))
        if real:
            check_pats(j)
    out = dict(obs=obs, snap=snapshot(heap), aux=aux)
    if real:
        out['damage'] = damage
        for a in heap._arenas:
            try:
                a.buffer.close()
            except Exception:
                pass
    return out


if __name__ == '__main__':
    signal.signal(signal.SIGALRM, _on_alarm)
    cases = json.load(sys.stdin)
    if any(op[0] in ('M', 'F') for c in cases for op in c.get('ops', [])):
        sys.settrace(dispatch)
    outs = [run_case(c) for c in cases]
    sys.settrace(None)
    bh.Arena = REAL_ARENA
    bh.mmap = real_mmap
    print(json.dumps(outs))
