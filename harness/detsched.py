"""detsched: deterministic cooperative scheduler + fake `ctx` / fake `_semlock`.

billiard's REAL Lock / RLock / Semaphore / BoundedSemaphore / Condition / Event classes are
instantiated over FakeSemLock objects (billiard.synchronize._billiard is replaced by a stub
module whose SemLock is the fake).  Every acquire / release / _is_zero of a fake semaphore is a
yield point: the logical thread parks BEFORE the operation; when the scheduler picks it, the
operation is performed atomically, logged, and the thread runs on to its next yield point.
Exactly one logical thread runs at any time, so a run is a function of the schedule
    [(thread index, go: bool)]      go=False: a timed acquire gives up now (returns False).

The primitive semantics implemented here is the one of coq/Model/SemProg.v (sem_acq/sem_rel);
harness/c17_driver.py cross-checks it against the real _multiprocessing.SemLock on sequential
histories.  One logical thread = one process: hold counts are kept per logical thread.
"""
import threading
import types

E_ASSERT, E_VALUE, E_FULL, E_EMPTY = -2, -3, -4, -5
V_NONE = -1
RECURSIVE_MUTEX, SEMAPHORE = 0, 1
SEM_VALUE_MAX = 2147483647


class Killed(BaseException):
    """raised inside a parked logical thread when the run is over"""


class FakeSemLock:
    SEM_VALUE_MAX = SEM_VALUE_MAX

    def __init__(self, kind, value, maxvalue, name=None, unlink=None):
        sched = Scheduler.current
        self.sched = sched
        self.kind, self.value, self.maxvalue = kind, value, maxvalue
        self.sid = sched.alloc_sid()
        self.cnt = {}            # logical thread -> hold count
        self.handle = 1000 + self.sid
        sched.sems.append(self)

    # ---- the primitive semantics (mirror of SemProg.sem_acq / sem_rel)
    def _avail(self, t):
        if self.kind == RECURSIVE_MUTEX and self.cnt.get(t, 0) > 0:
            return True
        return self.value > 0

    def _do_acquire(self, t):
        if not (self.kind == RECURSIVE_MUTEX and self.cnt.get(t, 0) > 0):
            self.value -= 1
        self.cnt[t] = self.cnt.get(t, 0) + 1

    def _do_release(self, t):
        h = self.cnt.get(t, 0)
        if self.kind == RECURSIVE_MUTEX:
            if h <= 0:
                return E_ASSERT
            if h > 1:
                self.cnt[t] = h - 1
                return 0
        elif self.value >= self.maxvalue:
            return E_VALUE
        self.value += 1
        self.cnt[t] = h - 1
        return 0

    # ---- the interface billiard uses
    def acquire(self, block=True, timeout=None):
        # SemLock.acquire: a deadline that has already passed behaves like block=False
        expired = timeout is not None and timeout <= 0
        blocking = bool(block) and not expired
        return self.sched.sem_op(self, 'acq', blocking, blocking and timeout is not None)

    def release(self):
        return self.sched.sem_op(self, 'rel', False, False)

    def __enter__(self):
        return self.acquire()

    def __exit__(self, *a):
        return self.release()

    def _count(self):
        return self.cnt.get(self.sched.running, 0)

    def _is_mine(self):
        return self.cnt.get(self.sched.running, 0) > 0

    def _get_value(self):
        return self.value

    def _is_zero(self):
        return self.sched.sem_op(self, 'zero', False, False)

    def _after_fork(self):
        pass


class FakeCtx:
    """what billiard's classes need from a context; constructs the REAL billiard classes"""

    def get_start_method(self, allow_none=False):
        return 'fork'

    def get_context(self):
        return self

    def Lock(self):
        from billiard.synchronize import Lock
        return Lock(ctx=self)

    def RLock(self):
        from billiard.synchronize import RLock
        return RLock(ctx=self)

    def Semaphore(self, value=1):
        from billiard.synchronize import Semaphore
        return Semaphore(value, ctx=self)

    def BoundedSemaphore(self, value=1):
        from billiard.synchronize import BoundedSemaphore
        return BoundedSemaphore(value, ctx=self)

    def Condition(self, lock=None):
        from billiard.synchronize import Condition
        return Condition(lock, ctx=self)

    def Event(self):
        from billiard.synchronize import Event
        return Event(ctx=self)


def install():
    """point billiard.synchronize at the fake primitive (once per process)"""
    import billiard.synchronize as bs
    if getattr(bs._billiard, '_detsched_fake', False):
        return
    stub = types.SimpleNamespace(SemLock=FakeSemLock, _detsched_fake=True)
    bs._billiard = stub
    bs.SEM_VALUE_MAX = SEM_VALUE_MAX
    # nothing to register / unlink for fakes
    import billiard.util as bu
    bs.util = types.SimpleNamespace(debug=lambda *a, **k: None,
                                    register_after_fork=lambda *a, **k: None,
                                    Finalize=bu.Finalize)


class LThread:
    def __init__(self, sched, idx, body):
        self.sched, self.idx, self.body = sched, idx, body
        self.resume = threading.Semaphore(0)
        self.pending = None          # (sem, kind, blocking, timed) while parked
        self.go = True
        self.done = False
        self.callidx = 0
        self.results = []
        self.error = None
        self.dormant = False          # a feeder thread that has not been started yet
        self.th = threading.Thread(target=self._main, daemon=True)

    def _main(self):
        try:
            self.body(self)
        except Killed:
            pass
        except BaseException as exc:      # harness bug: make it visible
            self.error = repr(exc)
        self.done = True
        self.pending = None
        self.sched.back.release()


class Scheduler:
    current = None

    def __init__(self):
        Scheduler.current = self
        self.sems = []
        self.threads = []
        self.running = None           # LThread whose code is executing (None: set-up code)
        self.back = threading.Semaphore(0)
        self.events = []              # (thread, sem, op, result)
        self.callidx = []
        self.schedule = []
        self.killing = False
        self.sid_plan = []            # explicit semaphore ids for the next creations (else: creation order)
        self.pipe = []                # FakePipe contents (whole messages)
        self.activated = []           # logical threads started by a Thread.start() during the current step

    def alloc_sid(self):
        if self.sid_plan:
            return self.sid_plan.pop(0)
        used = {s.sid for s in self.sems}
        n = 0
        while n in used:
            n += 1
        return n

    # ---- called on logical threads
    def pipe_op(self, kind, data=None, timed=False):
        """yield point for a pipe operation: kind 'send' | 'recv' | 'poll'"""
        t = self.running
        if t is None:
            raise RuntimeError('pipe operation outside a logical thread')
        if self.killing:
            raise Killed()
        t.pending = (None, kind, data, timed)
        self.back.release()
        t.resume.acquire()
        if self.killing:
            raise Killed()
        t.pending = None
        if kind == 'send':
            self.pipe.append(data)
            self.log(t.idx, 100, 3, self.decode(data), t)
            return None
        if kind == 'recv':
            m = self.pipe.pop(0)
            self.log(t.idx, 100, 4, self.decode(m), t)
            return m
        if kind == 'poll':
            res = 1 if (t.go and self.pipe) else 0
            self.log(t.idx, 100, 5, res, t)
            return bool(res)
        raise RuntimeError(kind)

    decode = staticmethod(lambda b: b)

    def clock_op(self, remaining=1000.0):
        """yield point for `deadline - monotonic()`: the scheduler decides whether the deadline has
        passed (go=False: the remaining time is negative) or time is left (go=True)"""
        t = self.running
        if t is None:
            raise RuntimeError('clock reading outside a logical thread')
        if self.killing:
            raise Killed()
        t.pending = (None, 'clock', None, False)
        self.back.release()
        t.resume.acquire()
        if self.killing:
            raise Killed()
        t.pending = None
        expired = 0 if t.go else 1
        self.log(t.idx, 101, 6, expired, t)
        return -1.0 if expired else remaining

    def start_op(self, perform):
        """yield point inside Queue._start_thread (at its buffer.clear()): the caller parks; when picked,
        perform() clears the buffer and returns the number of items it dropped (logged as the result)"""
        t = self.running
        if t is None:
            return perform()
        if self.killing:
            raise Killed()
        t.pending = (None, 'start', None, False)
        self.back.release()
        t.resume.acquire()
        if self.killing:
            raise Killed()
        t.pending = None
        n = perform()
        self.log(t.idx, 102, 7, n, t)
        return n

    def sem_op(self, sem, kind, blocking, timed):
        t = self.running
        if t is None:
            # set-up code outside any logical thread: perform directly, never blocks
            return self._perform(None, sem, kind, blocking, True, log=False)
        if self.killing:
            raise Killed()
        t.pending = (sem, kind, blocking, timed)
        self.back.release()           # give control back to the scheduler ...
        t.resume.acquire()            # ... and park until picked
        if self.killing:
            raise Killed()
        t.pending = None
        return self._perform(t, sem, kind, blocking, t.go, log=True)

    def _perform(self, t, sem, kind, blocking, go, log):
        idx = t.idx if t is not None else -1
        if kind == 'acq':
            if go and sem._avail(t):
                sem._do_acquire(t)
                res = 1
            else:
                res = 0               # non-blocking failure, or a timed acquire giving up
            if log:
                self.log(idx, sem.sid, 0, res, t)
            return bool(res)
        if kind == 'rel':
            code = sem._do_release(t)
            if log:
                self.log(idx, sem.sid, 1, code, t)
            if code == E_ASSERT:
                raise AssertionError('attempt to release recursive lock not owned by thread')
            if code == E_VALUE:
                raise ValueError('semaphore or lock released too many times')
            return None
        if kind == 'zero':
            res = 1 if sem.value == 0 else 0
            if log:
                self.log(idx, sem.sid, 2, res, t)
            return bool(res)
        raise RuntimeError(kind)

    def log(self, idx, sid, op, res, t):
        self.events.append((idx, sid, op, res))
        self.callidx.append(t.callidx if t is not None else 0)

    # ---- called on the main thread
    def spawn(self, body):
        t = LThread(self, len(self.threads), body)
        self.threads.append(t)
        return t

    def start_all(self):
        for t in self.threads:
            if t.dormant:
                continue
            self.running = t
            t.th.start()
            self.back.acquire()       # until it parks at its first yield point or finishes
        self.running = None

    def activate(self, t, body):
        """called from a logical thread (Thread.start()): t begins after the current step"""
        t.body = body
        self.activated.append(t)

    def _run_activated(self):
        while self.activated:
            t = self.activated.pop(0)
            t.dormant = False
            self.running = t
            t.th.start()
            self.back.acquire()
        self.running = None

    def options(self):
        """enabled (thread index, go) choices in the current state"""
        out = []
        for t in self.threads:
            if t.done or t.dormant or t.pending is None:
                continue
            sem, kind, blocking, timed = t.pending
            if kind == 'acq':
                if not blocking or sem._avail(t):
                    out.append((t.idx, True))
                if timed:
                    out.append((t.idx, False))
            elif kind in ('rel', 'zero', 'send', 'start'):
                out.append((t.idx, True))
            elif kind == 'clock':
                out.append((t.idx, True))
                out.append((t.idx, False))
            elif kind == 'recv':
                if self.pipe:
                    out.append((t.idx, True))
            elif kind == 'poll':
                if self.pipe or not timed:
                    out.append((t.idx, True))
                if timed:
                    out.append((t.idx, False))
            else:
                raise RuntimeError(kind)
        return out

    def step(self, idx, go):
        t = self.threads[idx]
        t.go = go
        self.running = t
        self.schedule.append((idx, go))
        t.resume.release()
        self.back.acquire()
        self.running = None
        self._run_activated()
        if t.error:
            raise RuntimeError('logical thread %d crashed: %s' % (idx, t.error))

    def run(self, chooser, max_steps=5000):
        """chooser(options, step_no) -> option or None (stop).  Returns why it stopped."""
        n = 0
        while True:
            opts = self.options()
            if not opts:
                return 'finished' if all(t.done or t.dormant for t in self.threads) else 'deadlock'
            if n >= max_steps:
                return 'step-limit'
            c = chooser(opts, n)
            if c is None:
                return 'stopped'
            if c not in opts:
                return 'not-enabled'
            self.step(*c)
            n += 1

    def kill(self):
        self.killing = True
        for t in self.threads:
            if not t.done and not t.dormant:
                self.running = t
                t.resume.release()
                self.back.acquire()
        self.running = None
        for t in self.threads:
            if t.th.is_alive():
                t.th.join(5)

    def pending_sems(self):
        return [(-1 if (t.done or t.dormant or t.pending is None)
                 else (({'clock': 101, 'start': 102}.get(t.pending[1], 100)) if t.pending[0] is None else t.pending[0].sid))
                for t in self.threads]
