"""C19 driver: runs the real billiard process / popen code.

stdin : JSON list of cases, each a dict with 'kind':
  world  -- real BaseProcess.start/join/is_alive/exitcode/active_children and the real
            popen_fork.Popen.poll/wait over scripted os.waitpid / sentinel-wait / os.getpid
            (only Popen._launch is replaced: no fork, pid = 1000 + index)
  sweep  -- real popen_fork.Popen.poll on a fresh object for every wait status lo..lo+n-1,
            plus CPython's os.W* macros on the same statuses
  real   -- a real child (fork / spawn / forkserver) ending in the requested way
  seq    -- a history over SEVERAL real children of one start method: start / join(t) /
            is_alive / exitcode / active_children interleaved with "child i ends now",
            "child i closes its end of the sentinel pipe and goes on running", "the joined
            process object i is dropped and garbage collected", "an unrelated file is
            opened" (descriptor numbers are reused across the children of one history)
  fs     -- real popen_forkserver.Popen.poll over scripted sentinel-wait / read_unsigned
  human  -- common.human_status
stdout: last line = JSON list of observations (same order).
"""
import errno
import fcntl
import gc
import json
import os
import re
import shutil
import signal
import sys
import tempfile
import time

import billiard
from billiard import process as bprocess
from billiard import popen_fork
from billiard import connection as bconnection
from billiard.common import human_status

import proc_targets

REAL_WAITPID = os.waitpid
REAL_GETPID = os.getpid
REAL_CONN_WAIT = bconnection.wait
FIRST_PID = 1000
MAIN_PID = os.getpid()


class Hang(BaseException):
    """a blocking call that would never return under the scripted oracle"""


class ScenarioTimeout(Exception):
    """a real-child scenario did not finish in time (e.g. a timed join that blocks)"""


STAGE = ['']


HANG_MODE = [False]


def _on_alarm(signum, frame):
    if HANG_MODE[0]:
        raise Hang()
    raise ScenarioTimeout('no progress for %ss during: %s' % (REAL_CASE_LIMIT, STAGE[0]))


REAL_CASE_LIMIT = 10
TIMEOUTS = [0]


# --------------------------------------------------------------------------- world
class World:
    def __init__(self, case):
        self.cur = case['cur0']
        self.orc = {}
        self.sent = {}
        self.procs = []
        self.case = case

    def getpid(self):
        return self.cur

    def waitpid(self, pid, flag):
        o = self.orc.get(pid)
        if o is None:
            raise ChildProcessError(errno.ECHILD, 'no such scripted child')
        blocking = not (flag & os.WNOHANG)
        while True:
            if o['pre']:
                a = o['pre'].pop(0)
            else:
                a = o['fin']
                if a[0] == 'ans' and a[1] == 0 and blocking:
                    raise Hang()
            if a[0] == 'eintr':
                raise InterruptedError(errno.EINTR, 'scripted EINTR')
            if a[0] == 'err':
                raise ChildProcessError(errno.ECHILD, 'scripted ECHILD')
            if a[1] == 0 and blocking:
                continue            # a blocking waitpid never says "not yet"
            return (a[1], a[2])

    def conn_wait(self, object_list, timeout=None):
        out = []
        for fd in object_list:
            idx = self.sent[fd]
            r = self.orc[FIRST_PID + idx]['rdy']
            ready = r.pop(0) if r else True
            if ready:
                out.append(fd)
        return out


def res_json(v):
    if v is None:
        return ['none']
    if isinstance(v, bool):
        return ['bool', v]
    if isinstance(v, int):
        return ['int', v]
    if isinstance(v, list):
        return ['list', v]
    return ['exc', 'value:' + type(v).__name__]


def run_world(case):
    w = World(case)

    class FakePopen(popen_fork.Popen):
        def _launch(self, process_obj):      # the only replaced method: no fork
            self.pid = FIRST_PID + process_obj._vidx
            self.sentinel = os.open(os.devnull, os.O_RDONLY)
            w.sent[self.sentinel] = process_obj._vidx

    class VProc(bprocess.BaseProcess):
        _start_method = None

        @staticmethod
        def _Popen(process_obj):
            return FakePopen(process_obj)

    bprocess._children.clear()
    os.waitpid, os.getpid, bconnection.wait = w.waitpid, w.getpid, w.conn_wait
    obs = []
    try:
        for i, sp in enumerate(case['specs']):
            w.cur = sp['creator']
            p = VProc(target=None)
            p._vidx = i
            w.procs.append(p)
            w.orc[FIRST_PID + i] = dict(pre=[list(a) for a in sp['pre']], fin=list(sp['fin']),
                                        rdy=list(sp['rdy']))
        w.cur = case['cur0']
        for o in case['ops']:
            try:
                k = o[0]
                if k == 'setpid':
                    w.cur = o[1]
                    r = ['none']
                elif k == 'active':
                    r = ['list', sorted(p._vidx for p in bprocess.active_children())]
                else:
                    p = w.procs[o[1]]
                    if k == 'start':
                        r = res_json(p.start())
                    elif k == 'join':
                        t = o[2]
                        r = res_json(p.join(None if t is None else float(t)))
                    elif k == 'alive':
                        r = res_json(p.is_alive())
                    elif k == 'code':
                        r = res_json(p.exitcode)
                    else:
                        raise ValueError(o)
            except AssertionError:
                r = ['assert']
            except Hang:
                r = ['hang']
            except Exception as exc:      # noqa -- reported, the model has no counterpart
                r = ['exc', type(exc).__name__]
            obs.append(dict(res=r,
                            children=sorted(p._vidx for p in bprocess._children),
                            rcs=[(p._popen.returncode if p._popen is not None else None)
                                 for p in w.procs]))
    finally:
        os.waitpid, os.getpid, bconnection.wait = REAL_WAITPID, REAL_GETPID, REAL_CONN_WAIT
        for p in w.procs:
            if p._popen is not None and p._popen.sentinel is not None:
                try:
                    os.close(p._popen.sentinel)
                except OSError:
                    pass
        bprocess._children.clear()
    return dict(obs=obs)


# --------------------------------------------------------------------------- sweep
def run_sweep(case):
    lo, n = case['lo'], case['n']
    pp = popen_fork.Popen.__new__(popen_fork.Popen)
    pp.pid = 4242
    pp.sentinel = None
    cur = [0]
    os.waitpid = lambda pid, flag: (4242, cur[0])
    decoded, macros = [], []
    try:
        for sts in range(lo, lo + n):
            cur[0] = sts
            pp.returncode = None
            try:
                r = pp.poll()
                decoded.append(r + 1000 if isinstance(r, int) else -1)
            except AssertionError:
                decoded.append(0)
            macros.append((1 if os.WIFSIGNALED(sts) else 0) + (2 if os.WIFEXITED(sts) else 0)
                          + (4 if os.WIFSTOPPED(sts) else 0) + 8 * os.WTERMSIG(sts)
                          + 1024 * os.WEXITSTATUS(sts))
    finally:
        os.waitpid = REAL_WAITPID
    return dict(decoded=decoded, macros=macros)


# --------------------------------------------------------------------------- real children
def arg_kind(a):
    if isinstance(a, bool):
        return ['bool', a]
    if isinstance(a, int):
        return ['int', a]
    if isinstance(a, str):
        return ['str']
    if a is None:
        return ['none']
    return ['other']


def sysexit_args(path):
    """SystemExit.args as CPython builds them for this way of exiting"""
    try:
        if path[0] == 'sysexit':
            sys.exit(proc_targets.build_value(path[1]))
        elif path[0] == 'sysexit0':
            sys.exit()
        else:
            raise SystemExit(*[proc_targets.build_value(x) for x in path[1]])
    except SystemExit as exc:
        return [arg_kind(a) for a in exc.args]


def run_real(case, tmpdir, seq):
    method, path = case['method'], list(case['path'])
    ctx = billiard.get_context(method)
    gate = os.path.join(tmpdir, 'gate%d' % seq)
    if path[0] == 'killed':
        path = path + [os.path.join(tmpdir, 'ready%d' % seq)]
    out = dict(args=None)
    if path[0] in ('sysexit', 'sysexit0', 'systemexit'):
        out['args'] = sysexit_args(path)
    p = ctx.Process(target=proc_targets.child, args=(gate, path))
    p.daemon = True
    out['code_unstarted'] = res_json(p.exitcode)
    out['alive_unstarted'] = p.is_alive()
    STAGE[0] = 'start()'
    p.start()
    STAGE[0] = 'exitcode / is_alive() / active_children() on a running child'
    out['none_before'] = p.exitcode is None
    out['alive_before'] = bool(p.is_alive())
    out['child_before'] = p in bprocess.active_children()
    t0 = time.monotonic()
    STAGE[0] = 'join(%s) on a running child' % case.get('short', 0.02)
    p.join(case.get('short', 0.02))
    STAGE[0] = 'after the timed join' 
    out['timed_join_s'] = round(time.monotonic() - t0, 3)
    out['timed_join_ok'] = (time.monotonic() - t0) < 5.0 and p.exitcode is None and bool(p.is_alive()) \
        and p in bprocess._children
    open(gate, 'w').close()
    if path[0] == 'killed':
        t0 = time.monotonic()
        while not os.path.exists(path[2]) and time.monotonic() - t0 < 20:
            time.sleep(0.002)
        os.kill(p.pid, path[1])
    STAGE[0] = 'join(30) on an ending child'
    p.join(30)
    STAGE[0] = 'status calls after the final join' 
    out['code'] = p.exitcode
    out['child_after'] = p in bprocess._children
    out['alive_after'] = bool(p.is_alive())
    out['active_after'] = p in bprocess.active_children()
    try:
        p.start()
        out['start_twice'] = 'started'
    except AssertionError:
        out['start_twice'] = 'assert'
    # a process object that claims to have been created elsewhere
    q = ctx.Process(target=proc_targets.child, args=(None, ['return']))
    q._parent_pid = os.getpid() + 1
    try:
        q.start()
        out['start_foreign'] = 'started'
        q.join(10)
    except AssertionError:
        out['start_foreign'] = 'assert'
    if p.exitcode is None:
        try:
            os.kill(p.pid, signal.SIGKILL)
        except OSError:
            pass
    return out



# --------------------------------------------------------------------------- real histories
SEQ_SLACK = 2.0          # a timed join that has not returned SEQ_SLACK s after its timeout "hangs"
SEQ_LIFE = 4.0           # a child that closed its sentinel ends by itself after this long


def run_seq(case, tmpdir, seq):
    """several real children, one after the other and side by side; every parent-side call
    runs under an interval timer: a call that does not come back is interrupted (the
    exception leaves os.waitpid / poll without reaping anything) and recorded as 'hang'."""
    method = case['method']
    ctx = billiard.get_context(method)
    d = os.path.join(tmpdir, 'seq%d' % seq)
    os.mkdir(d)
    n = len(case['paths'])
    procs, pids, watch, last_rc, files = [], [None] * n, [None] * n, [None] * n, []
    for i, path in enumerate(case['paths']):
        p = ctx.Process(target=proc_targets.seq_child, args=(d, i, list(path), SEQ_LIFE))
        p.daemon = True
        p._vidx = i
        procs.append(p)
    p = None
    obs, timing = [], []

    def rcs():
        live = {q._vidx: q for q in bprocess._children}
        for i in range(n):
            q = procs[i] if procs[i] is not None else live.get(i)
            if q is not None and q._popen is not None:
                last_rc[i] = q._popen.returncode
        q = None
        return list(last_rc)

    def guarded(limit, fn):
        HANG_MODE[0] = True
        signal.setitimer(signal.ITIMER_REAL, limit)
        try:
            return res_json(fn())
        except AssertionError:
            return ['assert']
        except Hang:
            return ['hang']
        except Exception as exc:       # noqa -- reported: the model has no counterpart
            return ['exc', '%s: %s' % (type(exc).__name__, exc)]
        finally:
            HANG_MODE[0] = False
            signal.setitimer(signal.ITIMER_REAL, REAL_CASE_LIMIT)    # back to the scenario watchdog

    try:
        for o in case['ops']:
            k = o[0]
            STAGE[0] = 'history op %s' % (o,)
            t0 = time.monotonic()
            if k == 'end':
                i = o[1]
                open(os.path.join(d, 'gate%d' % i), 'w').close()
                if pids[i] is not None:
                    if method != 'forkserver':
                        # wait for the end without reaping: the status stays for the code under test
                        os.waitid(os.P_PID, pids[i], os.WEXITED | os.WNOWAIT)
                    elif watch[i] is not None:
                        import select
                        select.select([watch[i]], [], [], 20)
                    else:
                        time.sleep(0.5)
                r = ['none']
            elif k == 'closefds':
                i = o[1]
                open(os.path.join(d, 'close%d' % i), 'w').close()
                t1 = time.monotonic()
                while not os.path.exists(os.path.join(d, 'closed%d' % i)) and time.monotonic() - t1 < 20:
                    time.sleep(0.002)
                r = ['none']
            elif k == 'drop':
                procs[o[1]] = None
                gc.collect()
                r = ['none']
            elif k == 'openfile':
                files.append(os.open(os.devnull, os.O_RDONLY))
                r = ['none']
            elif k == 'active':
                r = guarded(5, lambda: sorted(q._vidx for q in bprocess.active_children()))
            else:
                p = procs[o[1]]
                if k == 'start':
                    r = guarded(30, p.start)
                    if p._popen is not None and pids[o[1]] is None:
                        pids[o[1]] = p.pid
                        if p.sentinel is not None:
                            try:
                                watch[o[1]] = fcntl.fcntl(p.sentinel, fcntl.F_DUPFD, 200)
                            except OSError:
                                pass
                elif k == 'join':
                    t = o[2]
                    r = guarded((t or 0) + SEQ_SLACK, lambda: p.join(t))
                elif k == 'alive':
                    r = guarded(5, p.is_alive)
                elif k == 'code':
                    r = guarded(5, lambda: p.exitcode)
                else:
                    raise ValueError(o)
                p = None
            timing.append(round(time.monotonic() - t0, 3))
            obs.append(dict(res=r, children=sorted(q._vidx for q in bprocess._children), rcs=rcs()))
    finally:
        p = None
        for pid in pids:
            if pid is not None:
                try:
                    os.kill(pid, signal.SIGKILL)
                except OSError:
                    pass
                if method != 'forkserver':
                    try:
                        REAL_WAITPID(pid, 0)
                    except OSError:
                        pass
        for fd in files + [w for w in watch if w is not None]:
            try:
                os.close(fd)
            except OSError:
                pass
        for q in procs:
            if q is not None and q._popen is not None:
                try:
                    q.close()
                except OSError:
                    pass
        bprocess._children.clear()
        del procs[:]
        gc.collect()
    return dict(obs=obs, timing=timing)


# --------------------------------------------------------------------------- forkserver poll
def run_fs(case):
    from billiard import popen_forkserver, forkserver
    pp = popen_forkserver.Popen.__new__(popen_forkserver.Popen)
    pp.pid, pp.sentinel, pp.returncode = 1, 12345, None
    cur = {}

    def fake_wait(object_list, timeout=None):
        if object_list != [12345]:
            raise RuntimeError('unexpected wait list')
        if timeout is None:
            ok = cur['rb']
        elif timeout == 0:
            ok = cur['rn']
        else:
            raise RuntimeError('unexpected timeout %r' % (timeout,))
        return list(object_list) if ok else []

    def fake_read(fd):
        rd = cur['rd']
        if rd[0] == 'ok':
            return rd[1]
        if rd[0] == 'eof':
            raise EOFError('unexpected EOF')
        raise OSError(errno.EBADF, 'scripted')
    real_read = forkserver.read_unsigned
    bconnection.wait, forkserver.read_unsigned = fake_wait, fake_read
    res = []
    try:
        for o in case['ops']:
            cur = dict(rb=o[2], rn=o[3], rd=o[4])
            try:
                res.append(res_json(pp.poll(os.WNOHANG if o[1] else 0)))
            except AssertionError:
                res.append(['assert'])
            except Exception as exc:   # noqa
                res.append(['exc', type(exc).__name__])
    finally:
        bconnection.wait, forkserver.read_unsigned = REAL_CONN_WAIT, real_read
    return dict(res=res)


def run_human(case):
    try:
        s = human_status(case['status'])
    except Exception as exc:     # noqa
        s = 'raised %s' % type(exc).__name__
    m = re.match(r'^signal (-?\d+|None)( \(\w+\))?$', s)
    if m:
        return dict(is_sig=True, num=None if m.group(1) == 'None' else int(m.group(1)), text=s)
    m = re.match(r'^exitcode (-?\d+|None)$', s)
    if m:
        return dict(is_sig=False, num=None if m.group(1) == 'None' else int(m.group(1)), text=s)
    return dict(is_sig=None, num=None, text=s)


def main():
    cases = json.load(sys.stdin)
    tmpdir = tempfile.mkdtemp(prefix='c19-')
    out = []
    try:
        for seq, c in enumerate(cases):
            k = c['kind']
            if k == 'world':
                out.append(run_world(c))
            elif k == 'sweep':
                out.append(run_sweep(c))
            elif k in ('real', 'seq') and TIMEOUTS[0] >= 2:
                out.append(dict(crash='skipped after repeated scenario timeouts', skipped=True))
            elif k in ('real', 'seq'):
                signal.signal(signal.SIGALRM, _on_alarm)
                signal.setitimer(signal.ITIMER_REAL, REAL_CASE_LIMIT)
                try:
                    out.append(run_real(c, tmpdir, seq) if k == 'real' else run_seq(c, tmpdir, seq))
                except Exception as exc:     # noqa -- the scenario itself failed: reported
                    import traceback
                    if isinstance(exc, ScenarioTimeout):
                        TIMEOUTS[0] += 1
                    out.append(dict(crash='%s: %s' % (type(exc).__name__, exc),
                                    trace=traceback.format_exc()[-800:]))
                finally:
                    if REAL_GETPID() != MAIN_PID:
                        # a forked child escaped from Popen._launch (os._exit raised): it must
                        # not go on running the driver
                        os._exit(97)
                    signal.setitimer(signal.ITIMER_REAL, 0)
                    for p in list(bprocess._children):
                        if p._popen is not None and p._popen.returncode is None:
                            try:
                                os.kill(p.pid, signal.SIGKILL)
                                REAL_WAITPID(p.pid, 0)
                            except Exception:    # noqa
                                pass
                    bprocess._children.clear()
            elif k == 'fs':
                out.append(run_fs(c))
            elif k == 'human':
                out.append(run_human(c))
            else:
                raise ValueError(k)
    finally:
        shutil.rmtree(tmpdir, ignore_errors=True)
    sys.stdout.write(json.dumps(out) + '\n')
    sys.stdout.flush()
    os._exit(0)


if __name__ == '__main__':
    main()
