"""C03 driver: run the REAL billiard.pool.Worker.workloop (with the real protected
receive built by Worker._make_child_methods) in-process on scripted inputs, and the REAL
ResultHandler.on_state_change / ApplyResult._ack/_set on scripted parent event lists.

stdin: JSON list of cases; stdout (last line): JSON list of observations.

Worker case  {"kind":"w", "maxtasks":int|null, "synfd":int|null (null = no synq), "inqfd":int,
              "pid":int|null, "ospid":int, "maxmem":int|null,
              "counter": null | {"reads":[int..], "dflt":int},
              "ins":[ev..]}
   ev  = ["shutdown"] | ["timeout"] | ["eintr"] | ["eof"] | ["ioerr"] | ["none"] | ["falsy"]
       | ["msg", ty, job, i|null, t, beh, syn, mem, term(0|1, optional)]
         term = value of common._should_have_exited[0] while the task runs
   beh = ["ret", v] | ["retu"] | ["raise", e] | ["raiseu", e] | ["base", e]
       | ["term", code]   (the termination handler runs inside the task: sets the flag, sys.exit(code))
   syn = list of the same receive events, with ["msg", ty] as message
   optional "via_call": true -- run the real Worker.__call__ (workloop, sys.exit, _do_exit) with
   os._exit faked; the "pid" argument is then os.getpid() as in the code
Observation  {"log":[..], "exit":[kind, code], "completed":int|null, "ensure":bool|null,
              "reads":int, "sleeps":int,
              "call":{"onexit":[pid,code]|null, "death":[pid,code]|null, "osexit":int|null, "sleep1":bool}}

   optional "shared_syn": true -- the SYN channel is ONE stream: a job's syn script is appended to
   whatever earlier jobs left unread (as in a real queue) instead of replacing it.  The
   observation then also has "syn_use": [[consumer job seq, owner job seq, event kind], ..] for
   every event read from the SYN channel (not part of the compared trace; judged by monitors).

Handshake case {"kind":"h", "mode":"plain"|"linked"|"dropped", worker cfg fields..., "send_ack":bool,
              "accept_cb","callback","error_cb":bool, "ins":[ev..]} where a job event carries one more field:
              ["msg", ty, job, i, t, beh, syn(delay polls), mem, term, cancel(0|1), cb_raises(0|1), late(0|1|2)]
   cb_raises: the job's accept callback raises; late: ApplyResult._cancel() is called on the job's handle WHILE
   the real _ack runs -- 1: from the timeout hook (stands for another thread cancelling while _ack is busy),
   2: by the accept callback itself (never lands when the handle has no accept callback)
   The REAL workloop and the REAL ResultHandler/ApplyResult are connected: every message the worker
   puts is handed to on_state_change at once; one ApplyResult per job id; "cancel" = _cancel() is called
   before the job's ACK is processed.  mode plain: the worker's SYN queue is what the real
   Pool.get_process_queues returns and the handles' send_ack is the real Pool.send_ack (if "send_ack");
   linked: a SYN queue exists and send_ack writes the response into it (what a pool implementing the
   handshake does); dropped: a SYN queue exists but send_ack's response never arrives.
Observation  worker observation + "parents": {job: parent observation}, "synq_none": bool

Parent case  {"kind":"p", "job_known":bool, "send_ack":bool, "accept_cb":bool, "callback":bool,
              "error_cb":bool, "evs":[pev..]}
   pev = ["ack", i|null, t, pid, fd|null, cb_raises, late(0|1|2, optional)] | ["ready", i|null, ok, v] | ["cancel"]
         late: _cancel() lands while _ack runs (1 = in the timeout hook, 2 = in the accept callback), as above
Observation  {"log":[..], "accepted":bool, "pid":int|null, "time":int|null, "ready":bool,
              "in_cache":bool, "pids":[..]}
"""
import errno
import json
import os
import sys

import billiard.common as bc
import billiard.pool as bp
from billiard.reduction import ForkingPickler


class Starved(BaseException):
    """the script has no further event: the real code would block/poll forever"""


EXC = {1: ValueError, 2: KeyError, 3: ZeroDivisionError, 4: RuntimeError}
BASE = {1: SystemExit, 2: KeyboardInterrupt, 3: GeneratorExit}
EXC_CODE = {v.__name__: k for k, v in EXC.items()}
BASE_CODE = {v.__name__: k for k, v in BASE.items()}


class End:
    def __init__(self, fd, owner=None):
        self._fd, self.owner = fd, owner

    def fileno(self):
        return self._fd

    def close(self):
        pass

    def send(self, *a, **k):
        raise AssertionError('unexpected send on a fake pipe end')

    def recv(self, *a, **k):
        raise AssertionError('unexpected recv on a fake pipe end')

    def poll(self, timeout=None):
        return self.owner.poll(timeout)


class ScriptedConn:
    """stands for inq / synq in the child: _reader.poll + get, driven by a script"""

    def __init__(self, st, name, rfd, wfd):
        self.st, self.name = st, name
        self._reader = End(rfd, self)
        self._writer = End(wfd, self)
        self.script = []
        self.owners = []
        self.pos = 0
        self.cur = None
        self.fetched = False

    def load(self, script, owner=None):
        self.script, self.pos, self.cur, self.fetched = list(script), 0, None, False
        self.owners = [owner] * len(script)

    def extend(self, script, owner=None):
        """append to what is still unread (one stream shared by successive jobs)"""
        self.script = self.script[self.pos:] + list(script)
        self.owners = self.owners[self.pos:] + [owner] * len(script)
        self.pos = 0

    def fetch(self):
        if self.pos >= len(self.script):
            raise Starved()
        self.cur = self.script[self.pos]
        if self.name == 'syn':
            self.st.syn_use.append([self.st.job_seq, self.owners[self.pos], self.cur[0]
                                    if self.cur[0] != 'msg' else 'msg%s' % (self.cur[1],)])
        self.pos += 1
        self.fetched = True
        return self.cur

    def poll(self, timeout=None):
        if not self.fetched:          # the shutdown test did not run first
            self.fetch()
        self.fetched = False
        k = self.cur[0]
        if k in ('timeout', 'shutdown'):
            return False
        if k == 'eintr':
            raise IOError(errno.EINTR, 'interrupted')
        if k == 'ioerr':
            raise IOError(errno.EPIPE, 'broken pipe')
        return True

    def get(self, *a, **k):
        k = self.cur[0]
        if k == 'eof':
            raise EOFError()
        if k == 'none':
            return None
        if k == 'falsy':
            return ()
        assert k == 'msg'
        return self.st.make_msg(self.name, self.cur)


class Sentinel:
    def __init__(self, st):
        self.st = st

    def is_set(self):
        conn = self.st.active
        ev = conn.fetch()
        return ev[0] == 'shutdown'


class Counter:
    def __init__(self, st, spec):
        self.st, self.reads, self.dflt, self.k = st, list(spec['reads']), spec['dflt'], 0

    @property
    def value(self):
        self.st.log.append(['cnt'])
        v = self.reads[self.k] if self.k < len(self.reads) else self.dflt
        self.k += 1
        return v


class Unpicklable:
    """serialising it fails with an ordinary exception; WHICH one must not matter to the
    worker loop (`except Exception`), so the class rotates deterministically"""
    kinds = [TypeError, ValueError, RuntimeError, AttributeError, KeyError, ArithmeticError]
    n = [0]

    def __reduce__(self):
        cls = Unpicklable.kinds[Unpicklable.n[0] % len(Unpicklable.kinds)]
        Unpicklable.n[0] += 1
        raise cls('scripted: cannot pickle this value')


class WState:
    task_exc = None      # set by the task just before it raises; cleared by the next harness call

    def __init__(self, case):
        self.case = case
        self.log = []
        self.cur_job = None
        self.active = None
        self.syn_use = []
        self.job_seq = -1
        self.shared = bool(case.get('shared_syn')) or case['kind'] == 'h'
        self.on_job = None

    def make_msg(self, name, ev):
        if name == 'syn':
            return (ev[1], ())
        _, ty, job, i, t, beh, syn, mem = ev[:8]
        term = bool(ev[8]) if len(ev) > 8 else False
        self.cur_job = dict(job=job, i=i, t=t, beh=beh, syn=syn, mem=mem)
        self.job_seq += 1
        if self.shared:
            self.synq_conn.extend(syn, self.job_seq)
        else:
            self.synq_conn.load(syn, self.job_seq)
        if self.on_job is not None:
            self.on_job(ev)
        st = self

        def fun():
            st.log.append(['run', job, i])
            bc._should_have_exited[0] = term
            k = beh[0]
            if k == 'ret':
                return beh[1]
            if k == 'retu':
                return Unpicklable()
            if k == 'raise':
                st.task_exc = ['taskexc', 0, beh[1]]
                raise EXC[beh[1]]('scripted')
            if k == 'raiseu':
                st.task_exc = ['taskexc', 0, beh[1]]
                raise EXC[beh[1]](Unpicklable())
            if k == 'base':
                st.task_exc = ['taskexc', 1, beh[1]]
                raise BASE[beh[1]]('scripted')
            if k == 'term':
                # what common._shutdown_cleanup does on the termination signal
                bc._should_have_exited[0] = True
                st.task_exc = ['terminated', beh[1]]
                sys.exit(beh[1])
            raise AssertionError(k)
        return (ty, (job, i, fun, (), {}))


def canon_result(res):
    ok, val = res
    if ok:
        return ['ok', val if isinstance(val, int) else -999]
    exc = val.exception
    if type(exc).__name__ == 'ExceptionWithTraceback':   # not yet through pickle
        exc = exc.exc
    name = type(exc).__name__
    if name == 'MaybeEncodingError':
        return ['enc']
    if name in EXC_CODE:
        return ['fail', EXC_CODE[name]]
    if name in BASE_CODE:
        return ['base', BASE_CODE[name]]
    return ['other', name]


def run_worker(case, hs=None):
    st = WState(case)
    inq = ScriptedConn(st, 'inq', 1000, case['inqfd'])
    inq.load(case['ins'])
    synq = None
    if case['synfd'] is not None:
        synq = ScriptedConn(st, 'syn', 1001, case['synfd'])
    st.synq_conn = synq if synq is not None else ScriptedConn(st, 'syn', 0, 0)
    if hs is not None:
        synq = hs.attach(st, inq, synq)

    class OutQ:
        _reader = End(1002)
        _writer = End(1003)

        @staticmethod
        def put(obj):
            if getattr(st, 'exited', False):
                return                    # a real os._exit() never returns
            if obj[0] != bp.DEATH:
                st.task_exc = None        # the task's exception was handled by the loop
            ty, args = obj
            if ty == bp.DEATH and len(args) == 2:
                st.log.append(['death', args[0], args[1]])
                return
            if ty == bp.READY and case.get('term_in_put') is not None:
                # the termination signal lands while the worker is INSIDE the put of the k-th result:
                # the handler sets the flag and raises SystemExit there; the message is not sent
                st.ready_puts = getattr(st, 'ready_puts', 0) + 1
                if st.ready_puts == case['term_in_put']:
                    bc._should_have_exited[0] = True
                    st.log.append(['termput', args[0], args[1]])
                    sys.exit(-241)
            try:
                data = ForkingPickler.dumps(obj)
            except BaseException:
                st.log.append(['putfail', args[0], args[1]])
                raise
            ty, args = ForkingPickler.loads(data)     # what the parent will see
            if len(args) == 5:
                job, i, t, pid, fd = args
                st.log.append(['put', ty, job, i, ['ackp', t, pid, fd]])
            elif len(args) == 4:
                job, i, res, fd = args
                st.log.append(['put', ty, job, i, ['readyp', canon_result(res), fd]])
            else:
                st.log.append(['put', ty, -1, None, ['otherp', repr(args)[:80]]])
            if hs is not None:
                hs.on_message(ty, args)      # the parent consumes it at once

    counter = Counter(st, case['counter']) if case['counter'] is not None else None
    w = bp.Worker(inq, OutQ, synq, maxtasks=None, sentinel=Sentinel(st),
                  max_memory_per_child=case['maxmem'], on_ready_counter=counter)
    w.maxtasks = case['maxtasks']     # also values the constructor's assert refuses (0, negative)
    orig_make = w._make_child_methods

    def make_child_methods(*a, **k):
        orig_make(*a, **k)            # the real protected receive over the scripted conns
        real_job, real_syn = w.wait_for_job, w.wait_for_syn

        def wait_for_job(*a, **k):
            st.active = inq
            st.task_exc = None
            st.log.append(['inq'])
            return real_job(*a, **k)
        w.wait_for_job = wait_for_job
        if real_syn is not None:
            def wait_for_syn(*a, **k):
                st.active = synq
                st.log.append(['syn'])
                return real_syn(*a, **k)
            w.wait_for_syn = wait_for_syn
    w._make_child_methods = make_child_methods

    def now():
        st.log.append(['now'])
        return st.cur_job['t']

    def mem_rss():
        st.log.append(['mem'])
        return st.cur_job['mem']

    class FakeTime:
        @staticmethod
        def sleep(s):
            if st.exited:
                return
            st.log.append(['sleep1'] if s == 1 else ['sleep'])

        def __getattr__(self, n):
            return getattr(real_time, n)

    seen = dict(completed=None, ensure=None)
    real_ensure = w._ensure_messages_consumed

    def ensure(completed):
        seen['completed'] = completed
        seen['ensure'] = real_ensure(completed=completed)
        return seen['ensure']
    w._ensure_messages_consumed = ensure

    via_call = bool(case.get('via_call'))
    call = dict(onexit=None, death=None, osexit=None, sleep1=False)

    class Exited(BaseException):
        pass

    def classify(exc):
        if st.task_exc is not None:      # raised by the task and not handled by the loop
            return list(st.task_exc) + ([0] if len(st.task_exc) == 2 else [])
        if isinstance(exc, SystemExit):
            return ['sysexit', exc.code if isinstance(exc.code, int) else -1]
        if isinstance(exc, AssertionError):
            return ['assert', 0]
        if isinstance(exc, Starved):
            return ['starved', 0]
        return ['exc', type(exc).__name__]

    def fake_os_exit(code):
        if call['osexit'] is None:
            call['osexit'] = code
        st.exited = True
        raise Exited()

    def on_exit(pid, code):
        if not st.exited:
            call['onexit'] = [pid, code]
    st.exited = False

    real_time, real_mem, real_getpid = bp.time, bp.mem_rss, os.getpid
    real_error, real_warning, real_os_exit, real_sys_exit = bp.error, bp.warning, os._exit, sys.exit
    bp.time, bp.mem_rss = FakeTime(), mem_rss
    bp.error = bp.warning = lambda *a, **k: None
    os.getpid = lambda: case['ospid']
    try:
        if not via_call:
            w._make_child_methods()
            try:
                code = w.workloop(debug=lambda *a, **k: None, now=now, pid=case['pid'])
                ex = ['ret', code]
            except BaseException as exc:
                ex = classify(exc)
        else:
            # the real Worker.__call__: workloop -> sys.exit -> _do_exit -> DEATH message -> os._exit
            real_workloop = w.workloop
            ex = ['none', 0]
            box = {}

            def workloop(pid=None):
                try:
                    code = real_workloop(debug=lambda *a, **k: None, now=now, pid=pid)
                    box['ex'] = ['ret', code]
                    return code
                except BaseException as exc:
                    box['ex'] = classify(exc)
                    raise
            w.workloop = workloop
            w.after_fork = lambda: None       # would close fds and reset signal handlers
            w.on_exit = on_exit
            os._exit = fake_os_exit
            try:
                w()
            except Exited:
                pass
            except BaseException as exc:
                box.setdefault('ex', ['exc', type(exc).__name__])
                call['osexit'] = call['osexit'] if call['osexit'] is not None else -777
            ex = box.get('ex', ['none', 0])
    finally:
        bp.time, bp.mem_rss, os.getpid = real_time, real_mem, real_getpid
        bp.error, bp.warning, os._exit, sys.exit = real_error, real_warning, real_os_exit, real_sys_exit
        bc._should_have_exited[0] = False
    if via_call:
        # the DEATH message and the one-second sleep of _do_exit come after the finally clause
        tail = []
        while st.log and st.log[-1][0] in ('sleep1', 'death'):
            tail.insert(0, st.log.pop())
        for e in tail:
            if e[0] == 'death':
                call['death'] = e[1:]
            else:
                call['sleep1'] = True
    # the polling of _ensure_messages_consumed (up to 300 reads) is reported as counts
    log = st.log
    k = len(log)
    while k > 0 and log[k - 1][0] in ('cnt', 'sleep'):
        k -= 1
    tail = log[k:]
    shape_ok = all(e[0] == ('cnt' if n % 2 == 0 else 'sleep') for n, e in enumerate(tail))
    return dict(log=log[:k], exit=ex, completed=seen['completed'], ensure=seen['ensure'], call=call,
                reads=sum(1 for e in tail if e[0] == 'cnt'),
                sleeps=sum(1 for e in tail if e[0] == 'sleep') if shape_ok else -1,
                syn_use=st.syn_use)


# ------------------------------------------------------------------ closed handshake
class Handshake:
    """the REAL ResultHandler + one REAL ApplyResult per job id, fed with every message the REAL
    workloop writes, at once; the handles' send_ack and the worker's SYN queue as the mode says"""

    def __init__(self, case):
        self.case = case
        self.cache = {}
        self.handles = {}
        self.logs = {}
        self.cancels = {}
        self.flags = {}
        self.rs = FakeRestart()
        self.rh = bp.ResultHandler(None, None, self.cache, None, None, None, self.rs, None, None, None)
        self.synq_none = None

    def attach(self, st, inq, synq):
        self.st = st
        mode = self.case['mode']
        if mode == 'plain':
            # what a worker of a plain billiard.Pool is given
            class Stub:
                _inqueue, _outqueue = inq, None
            real = bp.Pool.get_process_queues(Stub())
            synq = real[2]
            self.synq_none = synq is None
            stub = Stub()
            self.send_ack = (lambda *a: bp.Pool.send_ack(stub, *a)) if self.case['send_ack'] else None
        else:
            self.synq_none = synq is None

            def send_ack(resp, pid, job, fd):
                if mode == 'linked' and synq is not None:
                    synq.extend([['msg', resp]], st.job_seq)
            self.send_ack = send_ack if self.case['send_ack'] else None
        st.on_job = self.on_job
        return synq

    def on_job(self, ev):
        """a job message reaches the worker: its handle exists in the parent (created by apply_async
        before the message was sent); cancelled now if the script says so"""
        job = ev[2]
        cancel = bool(ev[9]) if len(ev) > 9 else False
        raises = bool(ev[10]) if len(ev) > 10 else False
        late = ev[11] if len(ev) > 11 else 0
        if job in self.handles:
            return
        log = self.logs.setdefault(job, [])
        c = self.case
        box = {}

        def accept_cb(pid, t):
            log.append(['cb_accept', pid, t])
            if late == 2:
                box['ar']._cancel()          # the accept callback cancels its own job: too late to refuse it
            if raises:
                raise ValueError('scripted accept callback failure')

        def on_timeout_set(r, soft, hard):
            log.append(['timeout_set'])
            if late == 1:
                box['ar']._cancel()          # another thread cancels while _ack is busy

        ar = bp.ApplyResult(
            self.cache,
            (lambda v: log.append(['cb_result', canon_cbvalue(v)])) if c['callback'] else None,
            accept_cb if c['accept_cb'] else None,
            error_callback=(lambda v: log.append(['cb_error', canon_cbvalue(v)])) if c['error_cb'] else None,
            on_timeout_set=on_timeout_set,
            on_timeout_cancel=lambda r: log.append(['timeout_cancel']),
            send_ack=self.wrap_send_ack(log))
        box['ar'] = ar
        del self.cache[ar._job]
        ar._job = job
        self.cache[job] = ar
        self.handles[job] = ar
        self.cancels[job] = cancel
        self.flags[job] = dict(raises=raises, late=late,
                               late_lands=late == 1 or (late == 2 and bool(c['accept_cb'])))
        if cancel:
            ar._cancel()
            log.append(['cancelled'])

    def wrap_send_ack(self, log):
        if self.send_ack is None:
            return None
        inner = self.send_ack

        def send_ack(resp, pid, job, fd):
            log.append(['send_ack', resp, pid, 41, fd])
            return inner(resp, pid, job, fd)
        return send_ack

    def on_message(self, ty, args):
        job = args[0]
        log = self.logs.setdefault(job, [])
        if ty == bp.ACK and len(args) == 5:
            self.rs.R = 7
            self.rh.on_state_change((ty, args))
            log.append(['acked', self.rs.R])
        elif ty == bp.READY and len(args) == 4:
            self.rh.on_state_change((ty, args))
            log.append(['readied'])

    def parents(self):
        out = {}
        for job, ar in self.handles.items():
            out[str(job)] = dict(
                cancel=self.cancels[job], raises=self.flags[job]['raises'], late=self.flags[job]['late'],
                late_lands=self.flags[job]['late_lands'], cancelled_now=bool(ar._cancelled),
                log=self.logs[job], accepted=bool(ar._accepted), pid=ar._worker_pid,
                time=ar._time_accepted, ready=ar.ready(), in_cache=job in self.cache,
                pids=list(ar.worker_pids()))
        return out


def canon_cbvalue(v):
    """what the callbacks get: the value, or the ExceptionInfo of a failure (model: its kind)"""
    if isinstance(v, int) and not isinstance(v, bool):
        return v
    exc = getattr(v, 'exception', None)
    if exc is not None:
        r = canon_result((False, v))
        return r[1] if r[0] in ('fail', 'base') else -1 if r[0] == 'enc' else -998
    return -999


def run_handshake(case):
    hs = Handshake(case)
    out = run_worker(case, hs)
    out['parents'] = hs.parents()
    out['synq_none'] = hs.synq_none
    return out


# ------------------------------------------------------------------ parent side
class FakeRestart:
    R = 7


def run_parent(case):
    log = []
    cache = {}
    JOB = 41

    def accept_cb(pid, t):
        log.append(['cb_accept', pid, t])
        if flags['late'] == 2:
            ar._cancel()                 # the accept callback cancels its own job
        if flags['raise']:
            raise ValueError('scripted accept callback failure')

    def callback(v):
        log.append(['cb_result', canon_value(v)])

    def error_cb(v):
        log.append(['cb_error', canon_value(v)])

    def send_ack(resp, pid, job, fd):
        log.append(['send_ack', resp, pid, job, fd])

    def on_timeout_set(r, soft, hard):
        log.append(['timeout_set'])
        if flags['late'] == 1:
            ar._cancel()                 # another thread cancels while _ack is busy

    def on_timeout_cancel(r):
        log.append(['timeout_cancel'])

    flags = dict()
    flags['raise'] = False
    flags['late'] = 0
    ar = bp.ApplyResult(cache, callback if case['callback'] else None,
                        accept_cb if case['accept_cb'] else None,
                        error_callback=error_cb if case['error_cb'] else None,
                        on_timeout_set=on_timeout_set, on_timeout_cancel=on_timeout_cancel,
                        send_ack=send_ack if case['send_ack'] else None)
    del cache[ar._job]
    ar._job = JOB
    if case['job_known']:
        cache[JOB] = ar
    rs = FakeRestart()
    rh = bp.ResultHandler(None, None, cache, None, None, None, rs, None, None, None)
    for ev in case['evs']:
        k = ev[0]
        if k == 'cancel':
            ar._cancel()
            log.append(['cancelled'])
        elif k == 'ack':
            _, i, t, pid, fd, raises = ev[:6]
            flags['raise'] = bool(raises)
            flags['late'] = ev[6] if len(ev) > 6 else 0
            rs.R = 7
            rh.on_state_change((bp.ACK, (JOB, i, t, pid, fd)))
            flags['late'] = 0
            log.append(['acked', rs.R])
        elif k == 'ready':
            _, i, ok, v = ev
            rh.on_state_change((bp.READY, (JOB, i, (bool(ok), v), 5)))
            log.append(['readied'])
    return dict(log=log, accepted=bool(ar._accepted), pid=ar._worker_pid, time=ar._time_accepted,
                ready=ar.ready(), in_cache=JOB in cache, pids=list(ar.worker_pids()),
                cancelled_now=bool(ar._cancelled),
                success=getattr(ar, '_success', None),
                value=canon_value(getattr(ar, '_value', None)) if ar.ready() else None)


def canon_value(v):
    return v if isinstance(v, int) and not isinstance(v, bool) else -999


# ------------------------------------------------------------------ a real pool
def run_real(case):
    """a REAL billiard.Pool(1, synack=...) with a real worker process: the only worker is kept busy,
    a second job is submitted and (if "cancel") cancelled before any worker can accept it"""
    import signal
    import time
    import worker_targets
    log = []
    out = dict(error=None)

    def alarm(*a):
        raise RuntimeError('watchdog: real-pool scenario took more than 40 s')
    old = signal.signal(signal.SIGALRM, alarm)
    signal.alarm(40)
    p = None
    try:
        p = bp.Pool(1, synack=bool(case['synack']))
        w = p._pool[0]._target
        out['worker_has_syn_queue'] = w.synq is not None
        r0 = p.apply_async(worker_targets.slow, (0.6,))
        r1 = p.apply_async(worker_targets.double, (7,),
                           callback=lambda v: log.append(['cb_result', v]),
                           accept_callback=lambda pid, t: log.append(['cb_accept', 1 if pid == w_pid() else 0]))

        def w_pid():
            return p._pool[0].pid
        if case['cancel']:
            r1._cancel()
        out['accepted_at_cancel'] = bool(r1.accepted())
        try:
            out['value'] = r1.get(timeout=15)
        except BaseException as exc:
            out['value'] = type(exc).__name__
        r0.wait(5)
        time.sleep(0.2)
        out.update(accepted=bool(r1.accepted()), pids=len(r1.worker_pids()), log=log)
    except BaseException as exc:
        out['error'] = '%s: %s' % (type(exc).__name__, exc)
    finally:
        try:
            if p is not None:
                p.terminate()
        except BaseException as exc:
            out['error'] = out['error'] or 'terminate: %s' % (exc,)
        signal.alarm(0)
        signal.signal(signal.SIGALRM, old)
    return out


def run_case(c):
    if c['kind'] == 'real':
        return run_real(c)
    if c['kind'] == 'h':
        return run_handshake(c)
    return run_worker(c) if c['kind'] == 'w' else run_parent(c)


if __name__ == '__main__':
    cases = json.load(sys.stdin)
    out = [run_case(c) for c in cases]
    sys.stdout.write(json.dumps(out) + '\n')
    sys.stdout.flush()
    os._exit(0)
