"""C17 driver: run billiard's real Condition / Event / Lock / RLock / Semaphore / BoundedSemaphore
under harness/detsched.py.

stdin : JSON {"jobs": [job, ...]}
  job = {"lockrec": bool, "k": int, "scripts": [[[cid, a0, a1], ...], ...],
         "mode": "random", "seed": int, "n": int, "ptimeout": float}      n random schedules
      | {..., "mode": "replay", "sched": [[thread, go], ...]}              one given schedule
      | {..., "mode": "enumerate", "max_leaves": int}                      all schedules (DFS)
      | {"mode": "primitive", "seed": int, "n": int}     fake _semlock vs real _multiprocessing.SemLock
stdout: last line JSON {"records": [{"job": index, "lockrec", "k", "scripts", "sched", "events",
         "callidx", "results", "fins", "vals", "pend", "end"}, ...], "primitive": {...}}
"""
import json
import os
import random
import sys

import detsched
from detsched import Scheduler, FakeCtx, E_ASSERT, E_VALUE, V_NONE
import c17_clients as cl

detsched.install()

TIMEOUT = 1.0


def enc(v):
    if v is None:
        return V_NONE
    if v is True:
        return 1
    if v is False:
        return 0
    raise RuntimeError('unexpected return value %r' % (v,))


class World:
    def __init__(self, lockrec, k):
        self.sched = Scheduler()
        ctx = FakeCtx()
        if lockrec:
            self.ev = None
            self.cond = ctx.Condition()          # default lock: RLock  (ids 0..3)
            ctx.Semaphore(0)                      # id 4 unused in this world
        else:
            self.ev = ctx.Event()                # Lock, S, W, T, flag  (ids 0..4)
            self.cond = self.ev._cond
        self.usem = ctx.Semaphore(k)
        self.ubsem = ctx.BoundedSemaphore(k)
        self.ulock = ctx.Lock()
        self.urlock = ctx.RLock()
        assert [s.sid for s in self.sched.sems] == list(range(9))

    def do_call(self, cid, a0, a1):
        to = TIMEOUT if a0 else None
        blk = bool(a1)
        if cid == 0:
            return cl.c_wait(self.cond, to)
        if cid == 1:
            return cl.c_notify(self.cond)
        if cid == 2:
            return cl.c_notify_all(self.cond)
        if cid == 3:
            return cl.e_is_set(self.ev)
        if cid == 4:
            return cl.e_set(self.ev)
        if cid == 5:
            return cl.e_clear(self.ev)
        if cid == 6:
            return cl.e_wait(self.ev, to)
        if cid == 7:
            return cl.u_acquire(self.usem, blk, to)
        if cid == 8:
            return cl.u_release(self.usem)
        if cid == 9:
            return cl.ub_acquire(self.ubsem, blk, to)
        if cid == 10:
            return cl.ub_release(self.ubsem)
        if cid == 11:
            return cl.ul_acquire(self.ulock, blk, to)
        if cid == 12:
            return cl.ul_release(self.ulock)
        if cid == 13:
            return cl.ur_acquire(self.urlock, blk, to)
        if cid == 14:
            return cl.ur_release(self.urlock)
        if cid == 15:
            return cl.c_wait2(self.cond, to)
        raise RuntimeError('unknown call id %r' % cid)

    def body(self, script):
        def run(t):
            for n, (cid, a0, a1) in enumerate(script):
                t.callidx = n
                try:
                    r = enc(self.do_call(cid, a0, a1))
                except AssertionError:
                    r = E_ASSERT
                except ValueError:
                    r = E_VALUE
                t.results.append(r)
        return run


def run_once(job, chooser):
    w = World(job['lockrec'], job['k'])
    s = w.sched
    for sc in job['scripts']:
        s.spawn(w.body([tuple(c) for c in sc]))
    s.start_all()
    opts_at = []

    def ch(opts, n):
        opts_at.append(list(opts))
        return chooser(opts, n)
    end = s.run(ch)
    rec = dict(lockrec=job['lockrec'], k=job['k'], scripts=job['scripts'],
               sched=[[i, bool(g)] for i, g in s.schedule],
               events=[list(e) for e in s.events], callidx=list(s.callidx),
               results=[list(t.results) for t in s.threads],
               fins=[bool(t.done) for t in s.threads],
               vals=[sm.value for sm in s.sems], pend=s.pending_sems(), end=end)
    s.kill()
    return rec, opts_at


def random_chooser(rng, ptimeout):
    def ch(opts, n):
        gos = [o for o in opts if o[1]]
        tos = [o for o in opts if not o[1]]
        if tos and (not gos or rng.random() < ptimeout):
            return rng.choice(tos)
        return rng.choice(gos)
    return ch


def replay_chooser(sched):
    def ch(opts, n):
        if n >= len(sched):
            return None
        return (sched[n][0], bool(sched[n][1]))
    return ch


def enumerate_all(job):
    todo = [[]]
    out = []
    limit = job.get('max_leaves', 2000)
    truncated = False
    while todo:
        if len(out) >= limit:
            truncated = True
            break
        prefix = todo.pop()

        def ch(opts, n, prefix=prefix):
            return prefix[n] if n < len(prefix) else opts[0]
        rec, opts_at = run_once(job, ch)
        out.append(rec)
        s = [tuple(x) for x in rec['sched']]
        for n in range(len(prefix), len(s)):
            for alt in opts_at[n][1:]:
                todo.append(s[:n] + [alt])
    return out, truncated


# ---------------------------------------------------------------- primitive cross-check
def primitive_check(seed, n):
    """sequential histories on the fake _semlock and on the real _multiprocessing.SemLock"""
    import _multiprocessing
    rng = random.Random(seed)
    bad = []
    ops_run = 0
    for case in range(n):
        kind = rng.choice([0, 1])
        if kind == 0:
            value, maxv = 1, 1
        else:
            maxv = rng.choice([1, 1, 2, 3, detsched.SEM_VALUE_MAX])
            value = rng.randint(0, min(maxv, 3))
        s = Scheduler()
        fake = detsched.FakeSemLock(kind, value, maxv)
        real = _multiprocessing.SemLock(kind, value, maxv, '/bv-c17-%d-%d' % (os.getpid(), case), True)
        hist = []
        for _ in range(rng.randint(1, 14)):
            op = rng.choice(['acq_nb', 'acq_nb', 'rel', 'rel', 'acq_timed', 'acq_block'])
            obs = []
            for sl in (fake, real):
                try:
                    if op == 'acq_nb':
                        r = sl.acquire(False)
                    elif op == 'acq_timed':
                        # the fake is run with choice `go`; on an unavailable semaphore the real
                        # one times out, the fake (outside logical threads) reports failure
                        r = sl.acquire(True, 0.001)
                    elif op == 'acq_block':
                        # only issued when it cannot block
                        if sl is fake:
                            can = fake._avail(None)
                        r = sl.acquire(True) if can else 'skipped'
                    else:
                        r = sl.release()
                except AssertionError:
                    r = 'AssertionError'
                except ValueError:
                    r = 'ValueError'
                obs.append([r, sl._get_value(), sl._count(), sl._is_mine(),
                            (sl.value == 0) if sl is fake else sl._is_zero()])
            ops_run += 1
            hist.append(op)
            if obs[0] != obs[1]:
                bad.append(dict(kind=kind, value=value, maxv=maxv, hist=hist, fake=obs[0], real=obs[1]))
                break
    return dict(cases=n, ops=ops_run, mismatches=bad[:5])


def main():
    req = json.load(sys.stdin)
    records = []
    prim = None
    truncated = []
    for j, job in enumerate(req['jobs']):
        mode = job['mode']
        if mode == 'primitive':
            prim = primitive_check(job['seed'], job['n'])
        elif mode == 'random':
            rng = random.Random(job['seed'])
            for _ in range(job['n']):
                rec, _ = run_once(job, random_chooser(rng, job.get('ptimeout', 0.25)))
                rec['job'] = j
                records.append(rec)
        elif mode == 'replay':
            rec, _ = run_once(job, replay_chooser(job['sched']))
            rec['job'] = j
            records.append(rec)
        elif mode == 'enumerate':
            recs, trunc = enumerate_all(job)
            for rec in recs:
                rec['job'] = j
            records.extend(recs)
            if trunc:
                truncated.append(j)
        else:
            raise RuntimeError('unknown mode %r' % mode)
    print(json.dumps(dict(records=records, primitive=prim, truncated=truncated)))
    sys.stdout.flush()
    os._exit(0)


if __name__ == '__main__':
    main()
