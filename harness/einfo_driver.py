"""Drive the real billiard.einfo / billiard.pool code for C12.

stdin: JSON list of cases; stdout (last line): JSON list of observations.

case kinds
  rt  : raise a real exception at the bottom of a real call chain, build ExceptionInfo from
        the live traceback, pickle round trips; observe type/args/text/frame chain each time
  tb  : Traceback(tb, max_frames=m) directly, then round trips of the Traceback object
  mee : MaybeEncodingError(a, b) constructed directly
  wl  : the real Worker.workloop run in-process over a scripted request list, with an outq
        whose put really pickles (so unserialisable results fail by themselves) and can be
        scripted to raise
  ns  : like rt, but the live frames are observed WITH their namespaces (dunder keys of f_globals,
        __traceback_hide__ of f_locals) and so are the stand-in frames of the record
  slots : dir() of a real frame / code / traceback object
  nsput : ExceptionInfo from a live traceback some of whose namespace values do not pickle (frame kinds
        18-20, known finding F-C12-2); observed: what the pool's pickler raises on the record
  seq : a HISTORY: several failures recorded one after the other in this one process.  The failing code
        of every step is compiled afresh (compile/exec under a file name fixed for the case, lambdas and
        generator expressions on one source line, a "reloaded" module, generated methods), so later steps
        run through code objects that share (co_filename, co_name, co_firstlineno) with earlier ones but
        differ in body.  Per step the record is compared with the REAL traceback of that very failure:
        per node co_filename, co_name, tb_lineno, co_firstlineno, f_lineno, tb_lasti, the co_positions()
        entry of the failing instruction, and what traceback.extract_tb / format_exception make of the
        record (taken from the live traceback BEFORE the record is built)

The call chains (pat) run over FUNCS: 0-3 ordinary module-level functions, 4.. frames of code run
by exec/eval in fresh or odd globals, lambdas, generator expressions, generators, class bodies,
frames under C-level callers (sorted(key=), map), frames hiding themselves, chained exceptions.

Values are JSON-encoded: {"i":n} {"s":str} {"n":0} {"b":bool} {"t":[..]} {"l":[..]}
{"u":k} (object whose pickling raises) and, for observations only, {"o":repr}.
"""
import itertools
import json
import pickle
import re
import sys
import traceback
import types

RECLIMIT_AT_IMPORT = sys.getrecursionlimit()

import billiard.einfo as einfo_mod                      # noqa: E402
import billiard.pool as pool_mod                        # noqa: E402
from billiard.einfo import (                            # noqa: E402
    ExceptionInfo, ExceptionWithTraceback, RemoteTraceback, Traceback)
from billiard.pool import MaybeEncodingError, Worker    # noqa: E402
from billiard.common import pickle_loads                # noqa: E402
from billiard.reduction import ForkingPickler           # noqa: E402
import billiard.exceptions as bexc                      # noqa: E402


# ------------------------------------------------------------------ values
class Unp:
    """an object that cannot be pickled"""

    def __init__(self, k):
        self.k = k

    def __repr__(self):
        return '<Unp %d>' % self.k

    def __reduce__(self):
        raise TypeError('cannot pickle Unp %d' % self.k)


def dec(j):
    if 'i' in j:
        return j['i']
    if 's' in j:
        return j['s']
    if 'n' in j:
        return None
    if 'b' in j:
        return bool(j['b'])
    if 't' in j:
        return tuple(dec(x) for x in j['t'])
    if 'l' in j:
        return [dec(x) for x in j['l']]
    if 'u' in j:
        return Unp(j['u'])
    raise ValueError('bad value %r' % (j,))


def enc(v):
    if isinstance(v, bool):
        return {'b': v}
    if isinstance(v, int):
        return {'i': v}
    if isinstance(v, str):
        return {'s': v}
    if v is None:
        return {'n': 0}
    if type(v) is tuple:
        return {'t': [enc(x) for x in v]}
    if type(v) is list:
        return {'l': [enc(x) for x in v]}
    if isinstance(v, Unp):
        return {'u': v.k}
    return {'o': repr(v)}


# ------------------------------------------------------------- exceptions
class UserError(Exception):
    pass


class UserSub(ValueError):
    pass


class UserBase(BaseException):
    pass


CLASSES = {c.__name__: c for c in (
    ValueError, KeyError, RuntimeError, TypeError, ZeroDivisionError, AssertionError,
    LookupError, IndexError, StopIteration, ArithmeticError, OSError, MemoryError,
    KeyboardInterrupt, SystemExit, GeneratorExit, BaseException, Exception,
    UserError, UserSub, UserBase)}
CLASSES.update({n: getattr(bexc, n) for n in (
    'SoftTimeLimitExceeded', 'TimeLimitExceeded', 'WorkerLostError', 'Terminated',
    'RestartFreqExceeded')})
CLASSES['MaybeEncodingError'] = MaybeEncodingError


def cname(c):
    return '%s.%s' % (c.__module__, c.__qualname__)


def make_exc(spec):
    """spec: [class name, [args], [[attr, value], ...]]"""
    exc = CLASSES[spec[0]](*[dec(a) for a in spec[1]])
    for k, v in (spec[2] if len(spec) > 2 else []):
        setattr(exc, k, dec(v))
    return exc


def exc_desc(exc):
    return dict(cls=cname(type(exc)), args=[enc(a) for a in exc.args],
                attrs=[[k, enc(v)] for k, v in exc.__dict__.items()])


# ---------------------------------------------------- real call chains
def f0(p, i, exc):
    if i >= len(p):
        raise exc
    return FUNCS[p[i]](p, i + 1, exc)


def f1(p, i, exc):
    if i >= len(p):
        raise exc
    if p[i] == 1:
        return f1(p, i + 1, exc)
    return FUNCS[p[i]](p, i + 1, exc)


def f2(p, i, exc):
    if i < len(p):
        if i % 2:
            return FUNCS[p[i]](p, i + 1, exc)
        return FUNCS[p[i]](p, i + 1, exc)
    raise exc


def f3(p, i, exc):
    # raises from inside a nested helper: one more frame
    def inner():
        if i >= len(p):
            raise exc
        return FUNCS[p[i]](p, i + 1, exc)
    return inner()


FUNCS = [f0, f1, f2, f3]

# ---- frames that are not ordinary module-level functions of an imported module ----
# Code run by exec()/eval() in a caller-supplied globals dict: the interpreter adds __builtins__
# and nothing else, so __name__ / __file__ / __loader__ are missing unless the caller put them there.
_STEP_SRC = (
    "def step(p, i, exc):\n"
    "    if i >= len(p):\n"
    "        raise exc\n"
    "    return FUNCS[p[i]](p, i + 1, exc)\n")


def _exec_step(globs, filename, src=_STEP_SRC):
    globs['FUNCS'] = FUNCS
    exec(compile(src, filename, 'exec'), globs)
    return globs['step']


f4 = _exec_step({}, '<generated>')                                  # no __name__, no __file__
f5 = _exec_step({'__name__': 'gen.mod'}, '<template>')             # __name__ only
f6 = _exec_step({'__file__': '/srv/app/rules.py'}, '/srv/app/rules.py')      # __file__ only
f7 = _exec_step({'__name__': None, '__file__': None, '__loader__': 'not a loader',
                 '__spec__': None}, 'odd name.py')                  # present, but None / odd
f8 = _exec_step({'__name__': 7, '__file__': ('a', 1)}, '<odd>')    # present, not strings
# a lambda made by eval() in fresh globals; at the bottom it raises from a generator expression
f9 = eval(compile("lambda p, i, exc: FUNCS[p[i]](p, i + 1, exc) if i < len(p) "
                  "else (_ for _ in ()).throw(exc)", '<lambda-src>', 'eval'), {'FUNCS': FUNCS})


def _gen(p, i, exc):
    if i >= len(p):
        raise exc
    yield FUNCS[p[i]](p, i + 1, exc)


def f10(p, i, exc):                    # a generator's frame
    return next(_gen(p, i, exc))


def f11(p, i, exc):                    # a class body's frame (f_locals is the class namespace)
    class Body:
        if i >= len(p):
            raise exc
        v = FUNCS[p[i]](p, i + 1, exc)
    return Body.v


def f12(p, i, exc):                    # under a C-level caller: sorted(key=...)
    def key(_):
        if i >= len(p):
            raise exc
        return FUNCS[p[i]](p, i + 1, exc)
    return sorted([0], key=key)[0]


def f13(p, i, exc):                    # under a C-level caller: map + a lambda
    if i >= len(p):
        raise exc
    return list(map(lambda q: FUNCS[p[q]](p, q + 1, exc), [i]))[0]


def f14(p, i, exc):                    # a frame that asks to be hidden (copied into the stand-in)
    __traceback_hide__ = True          # noqa
    if i >= len(p):
        raise exc
    return FUNCS[p[i]](p, i + 1, exc)


def f15(p, i, exc):                    # explicit chaining: raise ... from
    if i >= len(p):
        try:
            {}['inner']
        except KeyError as inner:
            raise exc from inner
    return FUNCS[p[i]](p, i + 1, exc)


def f16(p, i, exc):                    # implicit chaining: raised while handling another exception
    try:
        [].pop()
    except IndexError:
        if i >= len(p):
            raise exc
        return FUNCS[p[i]](p, i + 1, exc)


def f17(p, i, exc):                    # module-level code (co_name <module>) run by exec in fresh globals
    g = {'FUNCS': FUNCS, 'p': p, 'i': i, 'exc': exc}
    exec(_MODULE_CODE, g)
    return g['r']


_MODULE_CODE = compile("if i >= len(p):\n    raise exc\nr = FUNCS[p[i]](p, i + 1, exc)\n",
                       '<string>', 'exec')



# ---- known finding F-C12-2: a namespace value the stand-in copies does not pickle (wl / nsput only)
def f18(p, i, exc):                    # the hide marker is an object that does not pickle
    __traceback_hide__ = lambda: True  # noqa
    if i >= len(p):
        raise exc
    return FUNCS[p[i]](p, i + 1, exc)


def _unp_globals():
    return {'__name__': 'gen.rules', '__file__': (lambda: 0)}


f19 = _exec_step(_unp_globals(), '<rules>')                        # __file__ does not pickle
f20 = _exec_step({'__name__': Unp(20)}, '<unp-name>')             # __name__ does not pickle

FUNCS += [f4, f5, f6, f7, f8, f9, f10, f11, f12, f13, f14, f15, f16, f17, f18, f19, f20]


def inf(n):
    return inf(n + 1)


def expand_pat(rle):
    out = []
    for f, k in rle:
        out.extend([f] * k)
    return out


def raise_through(pat, exc):
    """raise exc at the bottom of a chain of real frames described by pat"""
    p = expand_pat(pat)
    FUNCS[p[0]](p, 1, exc)


# ----------------------------------------------------------- observation
class Tables:
    def __init__(self):
        self.strs, self.sidx = [], {}
        self.texts, self.tidx = [], {}

    def s(self, x):
        if x not in self.sidx:
            self.sidx[x] = len(self.strs)
            self.strs.append(x)
        return self.sidx[x]

    def t(self, x):
        if x not in self.tidx:
            self.tidx[x] = len(self.texts)
            self.texts.append(x)
        return self.tidx[x]

    def cause(self, s):
        """RemoteTraceback text / ExceptionWithTraceback.tb -> id of the quoted text"""
        if s is None:
            return None
        for i, t in enumerate(self.texts):
            if s == '\n"""\n%s"""' % t:
                return i
        return 1000 + self.t(s)


def frames_of(tb):
    out = []
    seen = 0
    while tb is not None:
        code = tb.tb_frame.f_code
        out.append((code.co_filename, code.co_name, tb.tb_lineno))
        tb = tb.tb_next
        seen += 1
        if seen > 100000:
            raise RuntimeError('cyclic tb chain')
    return out


def rle_of(frames, T):
    out = []
    for fr in frames:
        key = [T.s(fr[0]), T.s(fr[1]), fr[2] if fr[2] is not None else -2]
        if out and out[-1][:3] == key:
            out[-1][3] += 1
        else:
            out.append(key + [1])
    return out


def fmt_check(e, frames):
    """the stdlib traceback module must be able to format the (stand-in) tb object and
    must name exactly the frames of the chain"""
    try:
        lines = traceback.format_exception(e.type, e.exception, e.tb)
        tbl = traceback.format_tb(e.tb)
        ex = traceback.extract_tb(e.tb)
    except BaseException as exc:          # noqa
        return 'raised %s: %s' % (type(exc).__name__, exc)
    if not lines or not all(isinstance(x, str) for x in lines):
        return 'format_exception returned %r' % (lines[:1],)
    if len(ex) != len(frames):
        return 'extract_tb gave %d entries for %d frames' % (len(ex), len(frames))
    got = [(fs.filename, fs.name, fs.lineno) for fs in ex]
    if got != [tuple(f) for f in frames]:
        return 'extract_tb names other frames than the chain'
    # format_tb collapses runs of identical entries; every distinct frame must be named
    joined = ''.join(tbl)
    for fr in set(tuple(f) for f in frames):
        if 'File "%s", line %s, in %s' % (fr[0], fr[2], fr[1]) not in joined:
            return 'format_tb does not name %r' % (fr,)
    if joined not in ''.join(lines):
        return 'format_exception does not contain format_tb'
    return None


def view(e, T, ex=False):
    exc = e.exception
    wrapped = type(exc) is ExceptionWithTraceback
    inner = exc.exc if wrapped else exc
    text = T.t(e.traceback)
    if wrapped:
        cause = T.cause(exc.tb)
    else:
        c = inner.__cause__
        cause = None if c is None else (T.cause(c.tb) if isinstance(c, RemoteTraceback) else 2000)
    frames = frames_of(e.tb)
    d = exc_desc(inner)
    out = dict(type=cname(e.type), wrapped=wrapped, cls=d['cls'], args=d['args'], attrs=d['attrs'],
               cause=cause, text=text, tb=rle_of(frames, T), internal=bool(e.internal),
               fmt=fmt_check(e, frames), str=str(inner) if isinstance(inner, MaybeEncodingError) else None)
    if ex and len(frames) <= 40:
        out['ex'] = extract_of(e.tb)
    return out


def names_raiser(text, frames):
    last = frames[-1]
    return ('File "%s", line %s, in %s' % (last[0], last[2], last[1])) in text


# ----------------------------------------------------------------- kinds
def run_rt(c):
    T = Tables()
    live = None
    e = None
    try:
        if c.get('deep'):
            inf(0)
        else:
            raise_through(c['pat'], make_exc(c['exc']))
    except BaseException:
        ei = sys.exc_info()
        live = frames_of(ei[2])
        live_exc = exc_desc(ei[1])
        only = ''.join(traceback.format_exception_only(ei[0], ei[1]))
        live_text = T.t(''.join(traceback.format_exception(*ei)))
        build_error = None
        try:
            e = ExceptionInfo()
        except BaseException as exc:      # noqa -- building the record must never raise
            build_error = '%s: %s' % (type(exc).__name__, exc)
        del ei
    out = dict(reclimit=RECLIMIT_AT_IMPORT, dmf=einfo_mod.DEFAULT_MAX_FRAMES,
               live=rle_of(live, T), live_len=len(live), live_exc=live_exc, live_text=live_text,
               views=[], error=None)
    if build_error:
        out['build_error'] = build_error
        out['strs'] = T.strs
        return out
    out['text_names_raiser'] = names_raiser(e.traceback, live) and e.traceback.endswith(only)
    try:
        out['views'].append(view(e, T))
        for r in range(c['rounds']):
            e = pickle.loads(pickle.dumps(e, c.get('proto', pickle.DEFAULT_PROTOCOL)))
            out['views'].append(view(e, T))
    except BaseException as exc:      # noqa
        out['error'] = 'round %d: %s: %s' % (len(out['views']), type(exc).__name__, exc)
    out['strs'] = T.strs
    out['text_lens'] = [len(t) for t in T.texts]
    return out


def run_tb(c):
    T = Tables()
    try:
        raise_through(c['pat'], ValueError('tb'))
    except ValueError:
        tb = sys.exc_info()[2]
        live = frames_of(tb)
        build_error = None
        try:
            t = Traceback(tb, max_frames=c['m'])
        except BaseException as exc:      # noqa
            build_error = '%s: %s' % (type(exc).__name__, exc)
        del tb
    out = dict(live=rle_of(live, T), live_len=len(live), chains=[], error=None, fmt=None)
    if build_error:
        out['build_error'] = build_error
        out['strs'] = T.strs
        return out
    try:
        out['chains'].append(rle_of(frames_of(t), T))
        for r in range(c['rounds']):
            t = pickle.loads(pickle.dumps(t))
            out['chains'].append(rle_of(frames_of(t), T))
        try:
            traceback.format_tb(t)
            n = len(traceback.extract_tb(t))
            if n != len(frames_of(t)):
                out['fmt'] = 'extract_tb gave %d entries' % n
        except BaseException as exc:      # noqa
            out['fmt'] = 'raised %s: %s' % (type(exc).__name__, exc)
    except BaseException as exc:          # noqa
        out['error'] = '%s: %s' % (type(exc).__name__, exc)
    out['strs'] = T.strs
    return out


def run_mee(c):
    m = MaybeEncodingError(dec(c['a']), dec(c['b']))
    d = exc_desc(m)
    return dict(args=d['args'], attrs=d['attrs'], str=str(m))



# ------------------------------------------------------------ namespaces
_ADDR = re.compile(r' at 0x[0-9a-fA-F]+')
_PICKLES = {}


def gval(v, T, key=None):
    """a namespace value: str / None / another object by a short repr (addresses removed) / an object
    whose pickling raises (by the repr of what the pool's pickler raises on the value alone)"""
    if isinstance(v, str):
        return ['s', T.s(v)]
    if v is None:
        return ['n']
    r = _ADDR.sub('', repr(v))
    r = r if len(r) <= 40 else r[:37] + '...'
    if key == '__builtins__':
        return ['o', T.s('<builtins>')]
    ck = id(v)
    if ck not in _PICKLES:
        try:
            ForkingPickler.dumps(v)
            _PICKLES[ck] = (v, None)
        except Exception as exc:      # noqa
            _PICKLES[ck] = (v, repr(exc))
    err = _PICKLES[ck][1]
    return ['u', T.s(err)] if err is not None else ['o', T.s(r)]


def live_nodes(tb, T):
    out = []
    while tb is not None:
        fr = tb.tb_frame
        code = fr.f_code
        g = [[T.s(k), gval(v, T, k)] for k, v in fr.f_globals.items()
             if isinstance(k, str) and k.startswith('__') and k.endswith('__')]
        loc = fr.f_locals
        lo = [[T.s('__traceback_hide__'), gval(loc['__traceback_hide__'], T)]] \
            if '__traceback_hide__' in loc else []
        out.append([T.s(code.co_filename), T.s(code.co_name),
                    tb.tb_lineno if tb.tb_lineno is not None else -2, g, lo])
        tb = tb.tb_next
    return out


def standin_nodes(tb, T):
    out = []
    while tb is not None:
        fr = tb.tb_frame
        code = fr.f_code
        g = [[T.s(k), gval(v, T)] for k, v in fr.f_globals.items()]
        lo = [[T.s(k), gval(v, T)] for k, v in getattr(fr, 'f_locals', {}).items()]
        out.append([T.s(code.co_filename), T.s(code.co_name),
                    tb.tb_lineno if tb.tb_lineno is not None else -2, g, lo])
        tb = tb.tb_next
    return out


def run_ns(c):
    T = Tables()
    _PICKLES.clear()
    try:
        raise_through(c['pat'], make_exc(c['exc']))
    except BaseException:
        ei = sys.exc_info()
        live = live_nodes(ei[2], T)
        frames = frames_of(ei[2])
        build_error = None
        try:
            e = ExceptionInfo()
        except BaseException as exc:      # noqa
            build_error = '%s: %s' % (type(exc).__name__, exc)
        del ei
    out = dict(reclimit=RECLIMIT_AT_IMPORT, dmf=einfo_mod.DEFAULT_MAX_FRAMES, live=live,
               live_len=len(live), chains=[], error=None, fmt=None)
    if build_error:
        out['build_error'] = build_error
        out['strs'] = T.strs
        return out
    out['text_names_raiser'] = names_raiser(e.traceback, frames)
    try:
        out['chains'].append(standin_nodes(e.tb, T))
        for r in range(c['rounds']):
            e = pickle.loads(pickle.dumps(e, c.get('proto', pickle.DEFAULT_PROTOCOL)))
            out['chains'].append(standin_nodes(e.tb, T))
        out['fmt'] = fmt_check(e, frames_of(e.tb))
    except BaseException as exc:          # noqa
        out['error'] = 'round %d: %s: %s' % (len(out['chains']), type(exc).__name__, exc)
    out['strs'] = T.strs
    return out


def live_unp(tb, T):
    """every unpicklable dunder global / hide local of the live chain: [frame index, 'g'|'l', key, err id]"""
    out = []
    for idx, node in enumerate(live_nodes(tb, T)):
        out += [[idx, 'g', T.strs[kv[0]], kv[1][1]] for kv in node[3] if kv[1][0] == 'u']
        out += [[idx, 'l', T.strs[kv[0]], kv[1][1]] for kv in node[4] if kv[1][0] == 'u']
    return out


def run_nsput(c):
    T = Tables()
    _PICKLES.clear()
    try:
        raise_through(c['pat'], make_exc(c['exc']))
    except BaseException:
        ei = sys.exc_info()
        live = live_nodes(ei[2], T)
        build_error = None
        try:
            e = ExceptionInfo()
        except BaseException as exc:      # noqa
            build_error = '%s: %s' % (type(exc).__name__, exc)
        del ei
    out = dict(reclimit=RECLIMIT_AT_IMPORT, dmf=einfo_mod.DEFAULT_MAX_FRAMES, live=live,
               live_len=len(live), err=None)
    if build_error:
        out['build_error'] = build_error
    else:
        try:
            ForkingPickler.dumps(e)
        except Exception as exc:          # noqa
            out['err'] = T.s(repr(exc))
    out['strs'] = T.strs
    return out


def run_slots(c):
    def public(o):
        return sorted(a for a in dir(o) if not a.startswith('__'))
    try:
        raise_through([[4, 1], [10, 1], [11, 1]], ValueError('slots'))
    except ValueError:
        tb = sys.exc_info()[2]
        frs, cos, tbs = None, None, None
        while tb is not None:            # the names every node / frame / code object of the chain has
            a, b, d = set(public(tb.tb_frame)), set(public(tb.tb_frame.f_code)), set(public(tb))
            frs = a if frs is None else frs & a
            cos = b if cos is None else cos & b
            tbs = d if tbs is None else tbs & d
            tb = tb.tb_next
    return dict(frame=sorted(frs), code=sorted(cos), tb=sorted(tbs))


# --------------------------------------------------------------- histories
# One failure of a history.  Its code is compiled afresh from a source text that depends on the step's
# parameters, under a file name that depends only on the case (tag): the code objects of different steps
# have equal (co_filename, co_name, co_firstlineno) and different bodies (number of lines, raise line,
# bytecode length, name table).  The shapes:
#   def       def task(exc, depth) compiled with compile()/exec, `pad` statements before the raise
#   reload    a module source executed again into the SAME module namespace (importlib.reload does that)
#             after an edit: handler() keeps its first line, its body and everything below it move
#   lambda    three lambdas on ONE source line (co_name <lambda>, first line 1), step picks one
#   genexpr   three generator expressions on one line inside one lambda
#   method    a generated method in the style of dataclasses / namedtuple: `def __create_fn__(..):
#             def __init__(self, f0=.., ..)` with pad+1 fields, field `which` calls a failing factory
#   dataclass the real thing: dataclasses.make_dataclass, a default_factory raises ("<string>", __init__)
_PADF = ['abs', 'int', 'str', 'float', 'bool', 'repr']
SEQ_FILES = ['<generated-%d>', '/srv/app/tasks_%d.py', '<string-%d>']
_SEQ_MODS = {}          # file name -> the "module" that shape reload executes its source into


def _pad(n, ind, base=0):
    return ''.join('%sv%d = %s(%d)\n' % (ind, base + i, _PADF[(base + i) % 6], i) for i in range(n))


class _Rec:
    pass


def seq_build(tag, fidx, st):
    """(file name, source text, callable(exc) failing through the freshly compiled code)"""
    shape, pad, which, depth = st['shape'], st.get('pad', 0), st.get('which', 0), st.get('depth', 0)
    fname = SEQ_FILES[fidx % len(SEQ_FILES)] % tag + ('.orig' if st.get('alt') else '')
    ns = {'__name__': 'generated'}
    if shape == 'def':
        src = ('def task(exc, depth=0):\n' + _pad(pad, '    ') +
               '    if depth:\n        return task(exc, depth - 1)\n'
               '    if exc is not None:\n        raise exc\n' + _pad(st.get('tail', 0), '    ', 50))
        exec(compile(src, fname, 'exec'), ns)

        def call(exc):
            return ns['task'](exc, depth)
    elif shape == 'reload':
        src = ('import sys\ndef handler(exc, depth=0):\n' + _pad(pad, '    ') +
               '    if depth:\n        return handler(exc, depth - 1)\n    return inner(exc)\n'
               'def inner(exc):\n    raise exc\n')
        mod = _SEQ_MODS.setdefault(fname, types.ModuleType('seqmod'))
        mod.__file__ = fname
        exec(compile(src, fname, 'exec'), mod.__dict__)

        def call(exc):
            return mod.handler(exc, depth)
    elif shape == 'lambda':
        nl = '\n    ' * pad
        # all three start on line 1; the body of the last one continues over `pad` more lines
        src = ('fs = [lambda exc: thrower(exc), lambda exc: (abs(0), int(1), thrower(exc))[2], '
               'lambda exc: [str(2), float(3), bool(4),%s repr(5), thrower(exc)][-1]]\n'
               'def thrower(exc):\n    raise exc\n' % nl)
        exec(compile(src, fname, 'exec'), ns)

        def call(exc):
            return ns['fs'][which % 3](exc)
    elif shape == 'genexpr':
        nl = '\n    ' * pad
        src = ('gs = lambda exc: [(thrower(exc) for _ in (0,)), (str(abs(w)) + thrower(exc) for w in (0,)), '
               '(repr(int(w)) + str(w) + repr(w) +%s thrower(exc) for w in (1,))]\n'
               'def thrower(exc):\n    raise exc\n' % nl)
        exec(compile(src, fname, 'exec'), ns)

        def call(exc):
            return next(ns['gs'](exc)[which % 3])
    elif shape == 'method':
        n = pad + 1
        bad = which % n
        src = ('def __create_fn__(thrower, MISSING):\n def __init__(self, %s):\n%s return __init__\n' % (
            ', '.join('f%d=MISSING' % i for i in range(n)),
            ''.join('  self.f%d = %s() if f%d is MISSING else f%d\n' % (i, 'thrower' if i == bad else 'int', i, i)
                    for i in range(n))))
        exec(compile(src, fname, 'exec'), ns)

        def call(exc):
            def thrower():
                raise exc
            return ns['__create_fn__'](thrower, object())(_Rec())
    elif shape == 'dataclass':
        import dataclasses
        n = pad + 1
        bad = which % n
        fname = '<string>'
        src = '(dataclasses.make_dataclass: %d fields, the default_factory of field %d raises)' % (n, bad)

        def call(exc):
            def thrower():
                raise exc
            cls = dataclasses.make_dataclass('Rec%d' % n, [
                ('f%d' % i, int, dataclasses.field(default_factory=thrower if i == bad else int))
                for i in range(n)])
            return cls()
    else:
        raise ValueError('unknown shape %r' % (shape,))
    return fname, src, call


def position_at(code, lasti):
    """the co_positions() entry of the instruction at lasti, read the way the traceback module reads it;
    [] = the object keeps no positions, [-9]*4 = it has none for that instruction; None -> -2"""
    cp = getattr(code, 'co_positions', None)
    if cp is None or not isinstance(lasti, int):
        return []
    try:
        p = next(itertools.islice(cp(), lasti // 2, None))
    except StopIteration:
        return [-9, -9, -9, -9]
    return [(-2 if x is None else x) for x in p]


def _num(x):
    return x if isinstance(x, int) and not isinstance(x, bool) else -2


def code_nodes(tb, T, alive=1):
    """per traceback node what it says about the code object it ran: [file, name, tb_lineno,
    co_firstlineno, f_lineno, tb_lasti, position of the failing instruction].  f_lineno of the first
    `alive` nodes is not reported (-3): those frames are still running, their line moves on."""
    out = []
    while tb is not None:
        fr = tb.tb_frame
        code = fr.f_code
        lasti = getattr(tb, 'tb_lasti', None)
        out.append([T.s(code.co_filename), T.s(code.co_name), _num(tb.tb_lineno),
                    _num(getattr(code, 'co_firstlineno', None)),
                    -3 if len(out) < alive else _num(getattr(fr, 'f_lineno', None)),
                    _num(lasti), position_at(code, lasti)])
        tb = tb.tb_next
        if len(out) > 100000:
            raise RuntimeError('cyclic tb chain')
    return out


def extract_of(tb):
    """what the traceback module makes of a tb object: per entry [file, name, line, end line, column,
    end column] (None -> -2), or a string when it raises"""
    try:
        ex = traceback.extract_tb(tb)
        return [[fs.filename, fs.name] + [_num(x) for x in (
            fs.lineno, getattr(fs, 'end_lineno', None), getattr(fs, 'colno', None),
            getattr(fs, 'end_colno', None))] for fs in ex]
    except BaseException as exc:          # noqa
        return 'raised %s: %s' % (type(exc).__name__, exc)


def seq_step(tag, fidx, st):
    T = Tables()
    fname, src, call = seq_build(tag, fidx, st)
    exc = make_exc(st['exc'])
    e = None
    try:
        call(exc)
    except BaseException:
        ei = sys.exc_info()
        # everything about the REAL failure is taken here, before the record is built
        live = frames_of(ei[2])
        nodes_live = code_nodes(ei[2], T)
        real_ex = extract_of(ei[2])
        live_exc = exc_desc(ei[1])
        only = ''.join(traceback.format_exception_only(ei[0], ei[1]))
        real_text = ''.join(traceback.format_exception(*ei))
        live_text = T.t(real_text)
        build_error = None
        try:
            e = ExceptionInfo()
        except BaseException as exc2:     # noqa
            build_error = '%s: %s' % (type(exc2).__name__, exc2)
        del ei
    else:
        raise AssertionError('step did not fail')
    del call, exc
    out = dict(file=fname, src=src, live=rle_of(live, T), live_len=len(live), live_exc=live_exc,
               live_text=live_text, nodes_live=nodes_live, real_ex=real_ex, views=[], nodes=[], ex=[],
               fmt_text=None, error=None)
    if build_error:
        out['build_error'] = build_error
        out['strs'] = T.strs
        return out
    out['text_names_raiser'] = names_raiser(e.traceback, live) and e.traceback.endswith(only)
    try:
        for r in range(st.get('rounds', 1) + 1):
            if r:
                e = pickle.loads(pickle.dumps(e, st.get('proto', pickle.DEFAULT_PROTOCOL)))
            out['views'].append(view(e, T))
            out['nodes'].append(code_nodes(e.tb, T))
            out['ex'].append(extract_of(e.tb))
        # the received record, formatted by the standard module, must name the real raising frame
        try:
            inner = e.exception.exc if type(e.exception) is ExceptionWithTraceback else e.exception
            text = ''.join(traceback.format_exception(e.type, inner, e.tb))
            want = 'File "%s", line %s, in %s' % (live[-1][0], live[-1][2], live[-1][1])
            if want not in text:
                out['fmt_text'] = 'format_exception of the received record does not name %s' % want
        except BaseException as exc2:     # noqa
            out['fmt_text'] = 'format_exception raised %s: %s' % (type(exc2).__name__, exc2)
    except BaseException as exc2:         # noqa
        out['error'] = 'round %d: %s: %s' % (len(out['views']), type(exc2).__name__, exc2)
    out['strs'] = T.strs
    return out


def run_seq(c):
    steps = [seq_step(c['tag'], c.get('file', 0), st) for st in c['steps']]
    return dict(reclimit=RECLIMIT_AT_IMPORT, dmf=einfo_mod.DEFAULT_MAX_FRAMES, steps=steps)


# ------------------------------------------------------------ worker loop
class ScriptEnd(BaseException):
    pass


class End:
    def __init__(self, fd):
        self.fd = fd

    def fileno(self):
        return self.fd

    def send(self, obj):
        raise AssertionError('not used')

    recv = send

    def send_offset(self, *a):
        raise AssertionError('not used')


class FakeQ:
    def __init__(self, base):
        self._reader, self._writer = End(base), End(base + 1)


def task_fn(spec):
    if 'ret' in spec:
        return dec(spec['ret'])
    if 'seq' in spec:
        # a task whose code is compiled afresh (see seq_build): tasks of one script share file name,
        # function name and first line, and differ in body
        q = spec['seq']
        return seq_build(q['tag'], q.get('file', 0), q)[2](make_exc(spec['exc']))
    raise_through(spec['pat'], make_exc(spec['exc']))


class OutQ(FakeQ):
    """put really pickles with the pool's own pickler; may be scripted to raise"""

    def __init__(self, env, T):
        FakeQ.__init__(self, 20)
        self.env, self.T = env, T
        self.n = 0
        self.received = []        # messages as the parent would read them
        self.oracle = {}          # "job,i" -> live chains / text ids for the model
        self.unser = []
        self.env_reprs = {}
        self.last_exc = None
        self.failed = {}          # "job,i" -> exception raised by the first READY put

    def put(self, obj):
        n = self.n
        self.n += 1
        kind, payload = obj
        key = '%d,%d' % (payload[0], payload[1])
        if kind == pool_mod.READY:
            val = payload[2][1]
            o = self.oracle.setdefault(key, {})
            if isinstance(val, ExceptionInfo):
                inner = val.exception.exc
                if 'seen' not in o and inner.__traceback__ is not None:
                    # the task's own exception: its live traceback is still attached
                    o['live'] = rle_of(frames_of(inner.__traceback__), self.T)
                    o['text'] = self.T.t(''.join(traceback.format_exception(
                        type(inner), inner, inner.__traceback__)))
                    o['live_exc'] = exc_desc(inner)
                    # independent of the record: which namespace values of the live frames do not pickle
                    o['live_unp'] = live_unp(inner.__traceback__, self.T)
                    if sum(r[3] for r in o['live']) <= 40:
                        # what the standard module makes of the REAL traceback (compared with what it
                        # makes of the record the parent reads)
                        o['real_ex'] = extract_of(inner.__traceback__)
                    o['put_n'] = n
                elif 'seen' in o:
                    # the record made by the `except Exception` handler around the first put
                    o['ptb'] = rle_of(frames_of(self.last_exc.__traceback__), self.T)
                    o['ptext'] = self.T.t(''.join(traceback.format_exception(
                        MaybeEncodingError, inner, self.last_exc.__traceback__)))
                    o['pfmt'] = fmt_check(val, frames_of(val.tb))
            o['seen'] = True
        act = self.env[n] if n < len(self.env) else 'ok'
        try:
            if act == 'base':
                raise KeyboardInterrupt('scripted')
            if act != 'ok':
                raise make_exc(act[1:])
            data = ForkingPickler.dumps(obj)
        except Exception as exc:
            self.last_exc = exc
            self.env_reprs[str(n)] = repr(exc)
            if kind == pool_mod.READY:
                self.unser.append([payload[0], payload[1]])
                self.failed.setdefault(key, exc)
            raise
        self.received.append(pickle_loads(bytes(data)))

    def finish_oracle(self):
        """a failed READY put that the worker did not answer with a second put: the traceback
        of the failure is still needed by the model (it predicts the encoding-error record)"""
        for key, exc in self.failed.items():
            o = self.oracle.setdefault(key, {})
            if 'ptb' not in o:
                fr = frames_of(exc.__traceback__)
                while fr and fr[0][1] != 'workloop':
                    fr = fr[1:]
                o['ptb'] = rle_of(fr, self.T)
                o['ptext'] = 999

    def describe(self):
        out = []
        for kind, payload in self.received:
            if kind == pool_mod.ACK:
                out.append(['ack', payload[0], payload[1]])
            elif kind == pool_mod.READY:
                ok, val = payload[2]
                if isinstance(val, ExceptionInfo):
                    out.append(['info', payload[0], payload[1], bool(ok), view(val, self.T, ex=True)])
                else:
                    out.append(['val', payload[0], payload[1], bool(ok), enc(val)])
            else:
                out.append(['other', kind])
        return out


def run_wl(c):
    T = Tables()
    _PICKLES.clear()
    outq = OutQ(c['env'], T)
    w = Worker(FakeQ(10), outq, synq=None, maxtasks=c['maxtasks'])
    script = list(c['script'])

    def wait_for_job():
        if not script:
            raise ScriptEnd()
        r = script.pop(0)
        if r is None:
            return None
        return (pool_mod.TASK, (r['job'], r['i'], task_fn, (r['spec'],), {}))

    w.wait_for_job = wait_for_job
    w.wait_for_syn = None
    try:
        code = w.workloop(pid=4242, now=lambda: 0.0)
        ending = ['exit', code]
    except ScriptEnd:
        ending = ['end']
    except BaseException as exc:       # noqa
        ending = ['crash', type(exc).__name__]
    outq.finish_oracle()
    return dict(reclimit=RECLIMIT_AT_IMPORT, dmf=einfo_mod.DEFAULT_MAX_FRAMES, msgs=outq.describe(),
                ending=ending, oracle=outq.oracle, unser=outq.unser, env_reprs=outq.env_reprs,
                strs=T.strs, nput=outq.n)


def run_case(c):
    return {'rt': run_rt, 'tb': run_tb, 'mee': run_mee, 'wl': run_wl, 'ns': run_ns,
            'slots': run_slots, 'nsput': run_nsput, 'seq': run_seq}[c['kind']](c)


if __name__ == '__main__':
    cases = json.load(sys.stdin)
    res = []
    for c in cases:
        try:
            res.append(run_case(c))
        except BaseException as exc:   # noqa
            res.append(dict(driver_error='%s: %s' % (type(exc).__name__, exc),
                            tb=traceback.format_exc()[-1500:]))
    sys.stdout.write(json.dumps(res) + '\n')
    sys.stdout.flush()
