"""C11 start-up burst: run the REAL Supervisor.body (its 0.8 s sleep, the ten burst passes on the
laxer limiter, the restoring of the pool's own limiter) over the real Pool._maintain_pool /
_join_exited_workers / _repopulate_pool / grow / did_start_ok with fake worker objects and a
fake clock (tenths of a second, exact).  stdin: JSON list of cases
  {slots, live (worker objects present when the supervisor wakes: slots - live slots were added by
   grow() or lost to did_start_ok()), via: 'grow'|'start_failed', crash: per pass, how many of the
   live workers exit abnormally before it (-1 = all), code}
stdout (last line): JSON list of {forks_per_pass, raised_at_pass|null, forks, restored, budget}"""
import itertools
import json
import os
import sys
from unittest import mock

import billiard.common
import billiard.pool as bp
from billiard.common import restart_state
from billiard.exceptions import RestartFreqExceeded


class Clock:
    def __init__(self):
        self.tenths = 1000          # exact: the clock is an integer number of tenths
        self.sleeps = 0
        self.on_sleep = None

    def monotonic(self):
        return self.tenths / 10.0

    def sleep(self, n):
        self.tenths += int(round(n * 10))
        self.sleeps += 1
        if self.on_sleep:
            self.on_sleep(self.sleeps)


def run_case(c):
    pids = itertools.count(1000)

    class FakeWorker:
        def __init__(self, index, exitcode):
            self.pid = next(pids)
            self.index = index
            self.name = 'PoolWorker-%d' % self.pid
            self.exitcode = exitcode
            self._popen = object()
            self._controlled_termination = False

        def join(self, timeout=None):
            pass

        def _is_alive(self):
            return self.exitcode is None

    class FakePool(bp.Pool):
        def __init__(self, processes):
            self._state = bp.RUN
            self._processes = processes
            self._pool = []
            self._poolctrl = {}
            self._on_ready_counters = {}
            self._cache = {}
            self._putlock = None
            self.on_process_up = self.on_process_down = None
            self.own_limiter = self.restart_state = restart_state(c.get('max_restarts'), 1)
            self.forks = 0
            for i in range(processes):
                self._create_worker_process(i)
            self.forks = 0

        def _create_worker_process(self, i):
            w = FakeWorker(i, None)
            self._pool.append(w)
            self._poolctrl[w.pid] = None
            self._on_ready_counters[w.pid] = None
            self.forks += 1
            return w

        def close(self):
            self._state = bp.CLOSE

        def join(self):
            pass

    slots, live = c['slots'], c['live']
    if c.get('via', 'grow') == 'grow':
        pool = FakePool(live)
        if slots > live:
            pool.grow(slots - live)
    else:
        pool = FakePool(slots)
        for w in pool._pool[live:]:
            w.exitcode = 1                     # died while starting
        if slots > live:
            pool.did_start_ok()                # reaps them (and throws their statuses away)
    assert pool._processes == slots and len(pool._pool) == live, (pool._processes, len(pool._pool))
    clock = Clock()
    sup = bp.Supervisor(pool)
    per_pass = []
    seen = [0]
    raised = [None]

    def crash_some():
        k = c.get('crash', -1)
        victims = pool._pool if k < 0 else pool._pool[:k]
        for w in victims:
            if w.exitcode is None:
                w.exitcode = c.get('code', 1)

    def on_sleep(n):
        # sleep 1 = the 0.8 s before the burst; sleeps 2..11 follow burst passes 1..10
        if n >= 2:
            per_pass.append(pool.forks - seen[0])
            seen[0] = pool.forks
        if n == 11:
            pool._state = bp.CLOSE             # the burst is over: stop before the steady-state loop
        else:
            crash_some()
    clock.on_sleep = on_sleep
    during = {}
    real_maintain = pool._maintain_pool

    def maintain():
        during.setdefault('budget', getattr(pool.restart_state, 'maxR', None))
        during.setdefault('window', getattr(pool.restart_state, 'maxT', None))
        return real_maintain()
    pool._maintain_pool = maintain
    with mock.patch.object(billiard.common, 'monotonic', clock.monotonic), \
            mock.patch.object(bp, 'monotonic', clock.monotonic, create=True), \
            mock.patch('time.sleep', clock.sleep):
        try:
            sup.body()
        except RestartFreqExceeded:
            raised[0] = len(per_pass) + 1
            per_pass.append(pool.forks - seen[0])
    return dict(forks_per_pass=per_pass, raised_at_pass=raised[0], forks=pool.forks,
                restored=pool.restart_state is pool.own_limiter, budget=during.get('budget'), window=during.get('window'))


def main():
    cases = json.load(sys.stdin)
    out = []
    for c in cases:
        try:
            out.append(run_case(c))
        except BaseException as exc:      # noqa
            import traceback
            out.append(dict(crashed='%s: %s' % (type(exc).__name__, exc), where=traceback.format_exc()[-600:]))
    sys.stdout.write('\n' + json.dumps(out) + '\n')
    sys.stdout.flush()
    os._exit(0)


if __name__ == '__main__':
    main()
