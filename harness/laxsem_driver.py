"""Drive the real billiard.pool.LaxBoundedSemaphore.  A blocking acquire that
cannot proceed raises Blocked instead of waiting (the stdlib wait is modelled,
not exercised)."""
import json
import sys
from billiard.pool import LaxBoundedSemaphore


class Blocked(Exception):
    pass


class Sem(LaxBoundedSemaphore):
    def acquire(self, blocking=True, timeout=None):
        if blocking and self._value == 0:
            raise Blocked()
        return super().acquire(blocking, timeout)


def run_case(c):
    s = Sem(c['n'])
    obs = []
    pending = 0
    for op in c['ops']:
        blocked = False
        if op == 'Acquire':
            blocked = not s.acquire(False)
        elif op == 'Release':
            s.release()
        elif op == 'Grow':
            s.grow()
        elif op == 'Clear':
            s.clear()
        elif op == 'Shrink':
            try:
                s.shrink()
            except Blocked:
                blocked = True
                pending += 1
        elif op == 'ShrinkFinish':
            if pending > 0 and s._value > 0:
                s.acquire(False)
                pending -= 1
            else:
                blocked = True
        obs.append([blocked, s._value, s._initial_value])
    return obs


if __name__ == '__main__':
    cases = json.load(sys.stdin)
    print(json.dumps([run_case(c) for c in cases]))
