"""Drive the real billiard.pool.LaxBoundedSemaphore.  A blocking acquire that
cannot proceed raises Blocked instead of waiting (the stdlib wait is modelled,
not exercised)."""
import json
import sys
from billiard.pool import LaxBoundedSemaphore


class Blocked(Exception):
    pass


class Sem(LaxBoundedSemaphore):
    def acquire(self, blocking=True, timeout=None):
        if blocking and self._value == 0:
            raise Blocked()
        return super().acquire(blocking, timeout)


def run_case(c):
    s = Sem(c['n'])
    obs = []
    pending = 0
    for op in c['ops']:
        blocked = False
        if op == 'Acquire':
            blocked = not s.acquire(False)
        elif op == 'Release':
            s.release()
        elif op == 'Grow':
            s.grow()
        elif op == 'Clear':
            s.clear()
        elif op == 'Shrink':
            try:
                s.shrink()
            except Blocked:
                blocked = True
                pending += 1
        elif op == 'ShrinkFinish':
            if pending > 0 and s._value > 0:
                s.acquire(False)
                pending -= 1
            else:
                blocked = True
        obs.append([blocked, s._value, s._initial_value])
    return obs


class ProbeCond:
    """wraps the semaphore's condition: every thread entering the lock first waits for the
    other one, so two concurrent callers are both past anything they did BEFORE taking the
    lock when the first of them gets in"""

    def __init__(self, real, barrier):
        self.real, self.barrier = real, barrier

    def __enter__(self):
        try:
            self.barrier.wait(timeout=1.0)
        except threading.BrokenBarrierError:
            pass
        return self.real.__enter__()

    def __exit__(self, *a):
        return self.real.__exit__(*a)

    def __getattr__(self, name):
        return getattr(self.real, name)


def race_probe(n, missing, op):
    """two threads call `op` concurrently on a semaphore of size n with `missing` slots taken"""
    s = Sem(n)
    for _ in range(missing):
        s.acquire(False)
    s._cond = ProbeCond(s._cond, threading.Barrier(2))
    ths = [threading.Thread(target=getattr(s, op)) for _ in range(2)]
    for t in ths:
        t.start()
    for t in ths:
        t.join(5)
    return dict(n=n, missing=missing, op=op, value=s._value, bound=s._initial_value,
                hung=any(t.is_alive() for t in ths))


if __name__ == '__main__':
    import threading
    req = json.load(sys.stdin)
    if isinstance(req, dict):
        print(json.dumps(dict(cases=[run_case(c) for c in req['cases']],
                              probes=[race_probe(*p) for p in req['probes']])))
    else:
        print(json.dumps([run_case(c) for c in req]))
