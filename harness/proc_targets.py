"""Targets for real child processes of the C19 harness (importable, so that spawn and
forkserver children can unpickle them)."""
import os
import signal
import sys
import time


def build_value(spec):
    """JSON description -> the Python object handed to sys.exit / SystemExit"""
    k = spec[0]
    if k == 'int':
        return int(spec[1])
    if k == 'bool':
        return bool(spec[1])
    if k == 'str':
        return spec[1] if len(spec) > 1 else 'bye'
    if k == 'none':
        return None
    if k == 'float':
        return 2.5
    if k == 'tuple':
        return tuple(build_value(x) for x in spec[1])
    if k == 'list':
        return [build_value(x) for x in spec[1]]
    raise ValueError(spec)


def _gate(path):
    """block until the parent creates `path` (so that the parent can look at a child
    that is certainly still running)"""
    if path:
        t0 = time.time()
        while not os.path.exists(path):
            if time.time() - t0 > 30:
                os._exit(99)
            time.sleep(0.002)


def child(gate, path):
    _gate(gate)
    sys.stderr = open(os.devnull, 'w')      # tracebacks / exit messages are not observed
    k = path[0]
    if k == 'return':
        return 17                           # the return value is ignored by _bootstrap
    if k == 'raise':
        raise ValueError('boom')
    if k == 'sysexit':                      # sys.exit(x)
        sys.exit(build_value(path[1]))
    if k == 'sysexit0':                     # sys.exit()
        sys.exit()
    if k == 'systemexit':                   # raise SystemExit(*xs)
        raise SystemExit(*[build_value(x) for x in path[1]])
    if k == 'signal':
        import resource
        resource.setrlimit(resource.RLIMIT_CORE, (0, 0))
        s = path[1]
        if s not in (signal.SIGKILL, signal.SIGSTOP):
            signal.signal(s, signal.SIG_DFL)
        os.kill(os.getpid(), s)
        time.sleep(30)
        os._exit(98)
    if k == 'killed':                       # the parent sends the signal
        if path[1] not in (signal.SIGKILL, signal.SIGSTOP):
            signal.signal(path[1], signal.SIG_DFL)
        open(path[2], 'w').close()          # tell the parent we are ready to be shot
        time.sleep(30)
        os._exit(98)
    raise RuntimeError('unknown path %r' % (path,))


def seq_child(d, idx, path, life):
    """child of a `seq` history: runs until the parent creates <d>/gate<idx>, then ends by
    `path`.  When the parent creates <d>/close<idx> the child closes every inherited
    descriptor above stderr (among them its end of the sentinel pipe, as a daemonising or
    closerange-happy target would), acknowledges with <d>/closed<idx> and goes on running;
    it then ends by itself `life` seconds later at the latest, so that a parent blocked in
    waitpid gets away."""
    gate = os.path.join(d, 'gate%d' % idx)
    cue = os.path.join(d, 'close%d' % idx)
    t0 = time.time()
    closed_at = None
    while not os.path.exists(gate):
        now = time.time()
        if closed_at is None and os.path.exists(cue):
            os.closerange(3, 1024)
            open(os.path.join(d, 'closed%d' % idx), 'w').close()
            closed_at = now
        if closed_at is not None and now - closed_at > life:
            break
        if now - t0 > 30:
            os._exit(99)
        time.sleep(0.002)
    child(None, path)
