"""Forced interleavings of two pool threads inside ApplyResult._set for ONE job (the result
handler delivering the worker's result while the timeout handler / the supervisor fails the same
job): the second caller arrives while the first is inside its critical section.  Whatever the
order, the job must keep the FIRST outcome and exactly one of its callbacks must run once.

The first caller is held inside `_set` by the `on_timeout_cancel` hook, which ApplyResult calls
under its mutex; while it is held, a second thread calls `_set` with a different outcome.
stdin: list of cases {first: 'value'|'failure', second: ..., hold_s: float}; stdout: JSON results."""
import json
import os
import sys
import threading
import time


def run_case(c):
    import billiard.pool as bp
    from billiard.einfo import ExceptionInfo

    calls = []
    cache = {}
    entered = threading.Event()
    second_done = threading.Event()
    second_started = threading.Event()

    def on_timeout_cancel(job):
        # called by the first _set while it holds the job's mutex (only when the job has limits)
        if not entered.is_set():
            entered.set()
            # give the second caller time to reach (and wait on, or slip past) the mutex
            second_started.wait(2.0)
            time.sleep(c.get('hold_s', 0.15))

    r = bp.ApplyResult(cache, callback=lambda v: calls.append(['callback', repr(v)[:40]]),
                       error_callback=lambda e: calls.append(['error_callback', type(getattr(e, 'exception', e)).__name__]),
                       timeout=5, on_timeout_cancel=on_timeout_cancel)

    def outcome(kind, tag):
        if kind == 'value':
            return (True, tag)
        try:
            raise bp.TimeLimitExceeded(tag)
        except bp.TimeLimitExceeded:
            return (False, ExceptionInfo())

    def first():
        r._set(None, outcome(c['first'], 41))

    def second():
        entered.wait(2.0)
        second_started.set()
        r._set(None, outcome(c['second'], 42))
        second_done.set()

    t1 = threading.Thread(target=first, daemon=True)
    t2 = threading.Thread(target=second, daemon=True)
    t1.start()
    t2.start()
    t1.join(5)
    t2.join(5)
    res = dict(case=c, calls=calls, hung=t1.is_alive() or t2.is_alive(), entered=entered.is_set())
    try:
        res['final'] = ['value', r.get(timeout=0)]
    except Exception as exc:    # noqa
        res['final'] = ['failure', type(getattr(exc, 'exc', exc)).__name__]
    res['ready'] = r.ready()
    return res


def main():
    cases = json.load(sys.stdin)
    out = [run_case(c) for c in cases]
    sys.stdout.write('\n' + json.dumps(out) + '\n')
    sys.stdout.flush()
    os._exit(0)


if __name__ == '__main__':
    try:
        main()
    except BaseException:
        import traceback
        traceback.print_exc()
        sys.stderr.flush()
        os._exit(2)
