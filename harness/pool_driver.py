"""Deterministic in-process driver for the PARENT side of billiard.pool.Pool.

The pool runs with fake worker processes (no fork), threads=False, a fake clock,
recorded signals.  The harness plays the workers by writing ACK/READY/DEATH
tuples on the real result pipe and calling the real handlers.  One event of a
history = one call into real pool code.  After every event the full observable
state is recorded.

stdin : JSON list of cases {cfg:{...}, events:[[name, args...], ...]}
stdout: JSON list of per-case lists of observations
"""
import json
import os
import re
import signal
import sys

import billiard.pool as bp
from billiard.exceptions import RestartFreqExceeded

CLOCK = [1000.0]
SIGNALS = []          # (pid, signum) in order, cumulative per case
bp.monotonic = lambda: CLOCK[0]
import billiard.common as _bc
_bc.monotonic = lambda: CLOCK[0]     # restart_state.step reads the clock through common.py


def _fake_kill(pid, sig):
    SIGNALS.append((pid, int(sig)))
    p = FakeProcess.by_pid.get(pid)
    if p is not None:
        p.signalled(int(sig))
    else:
        raise ProcessLookupError(3, 'No such process')


bp._kill = _fake_kill
def _fake_getpgid(pid):
    # every second fake worker leads its own process group (a task that called os.setpgrp()): the
    # time-limit kill then goes through os.killpg instead of terminate()/_kill -- same signals
    p = FakeProcess.by_pid.get(pid)
    if p is None:
        raise ProcessLookupError(3, 'No such process')
    return pid if p.ref % 2 == 1 else -1


def _fake_killpg(pgid, sig):
    return _fake_kill(pgid, sig)


os.getpgid = _fake_getpgid
os.killpg = _fake_killpg
_real_os_kill = os.kill
os.kill = _fake_kill                # ResultHandler.on_death uses os.kill


class FakePopen:
    def __init__(self, proc):
        self.proc = proc
        self.sentinel = -1

    def poll(self):
        return self.proc._exit

    @property
    def returncode(self):
        return self.proc._exit

    def wait(self, timeout=None):
        return self.proc._exit


class FakeProcess:
    next_pid = [0]
    by_pid = {}
    all = []           # creation order: index = pid reference used in events

    def __init__(self, target=None, **kw):
        self._target = target
        self._name = 'Process-%d' % (len(FakeProcess.all) + 1)
        self._popen = None
        self._exit = None
        self._controlled_termination = False
        self.daemon = False
        self.pid = None
        self.dies_on_term = True

    @property
    def name(self):
        return self._name

    @name.setter
    def name(self, v):
        self._name = v

    def start(self):
        FakeProcess.next_pid[0] += 1
        self.pid = 5000 + FakeProcess.next_pid[0]
        self.ref = len(FakeProcess.all)
        FakeProcess.all.append(self)
        FakeProcess.by_pid[self.pid] = self
        self._popen = FakePopen(self)

    @property
    def exitcode(self):
        return self._exit

    def signalled(self, sig):
        if self._exit is not None:
            return
        if sig == signal.SIGKILL:
            self._exit = -9
        elif sig == signal.SIGTERM and self.dies_on_term:
            self._exit = -15

    def terminate(self):
        SIGNALS.append((self.pid, int(signal.SIGTERM)))
        self.signalled(int(signal.SIGTERM))

    def terminate_controlled(self):
        self._controlled_termination = True
        self.terminate()

    def join(self, timeout=None):
        return None

    def _is_alive(self):
        return self._popen is not None and self._exit is None

    is_alive = _is_alive


class DrivenPool(bp.Pool):
    def Process(self, *a, **kw):
        return FakeProcess(*a, **kw)


class Exc:
    """stand-in for a worker-made ExceptionInfo"""
    def __init__(self, tag):
        self.tag = tag
        self.exception = RuntimeError(tag)


def canon_value(job, success, value, jobmap):
    if value is None:
        return None
    if isinstance(value, Exc):
        return ['exc', value.tag]
    if isinstance(value, bp.ExceptionInfo):
        exc = value.exception
        inner = getattr(exc, 'exc', exc)
        name = type(inner).__name__
        args = inner.args
        if name == 'WorkerLostError':
            m = re.match(r'Worker exited prematurely: (.*) Job: (\d+)\.$', args[0])
            hs, jid = m.group(1), int(m.group(2))
            m2 = re.match(r'signal (\d+)', hs)
            st = -int(m2.group(1)) if m2 else (None if hs == 'exitcode None' else int(hs.split()[1]))
            return ['lost', st, jobmap.get(jid, -1)]
        if name == 'TimeLimitExceeded':
            return ['timelimit', args[0] if args else None]
        if name == 'Terminated':
            return ['terminated', args[0] if args else None]
        return ['putfailed', name]
    if success:
        return ['ok', value]
    return ['other', repr(value)[:40]]


class Case:
    def __init__(self, cfg):
        FakeProcess.all = []
        FakeProcess.by_pid = {}
        FakeProcess.next_pid = [0]
        del SIGNALS[:]
        CLOCK[0] = 1000.0
        self.cfg = cfg
        self.pool = DrivenPool(
            processes=cfg.get('n', 2), threads=False,
            timeout=cfg.get('hard'), soft_timeout=cfg.get('soft'),
            lost_worker_timeout=cfg.get('lost'),
            max_restarts=cfg.get('max_restarts'), max_restart_freq=cfg.get('max_restart_freq', 1),
            putlocks=cfg.get('putlocks', False),
            enable_timeouts=cfg.get('enable_timeouts', False),
        )
        self.pool._task_handler.tell_others = lambda: None
        self.jobs = []          # result objects in creation order
        self.cb = []            # per job dict of callback counters
        self.sig_seen = 0
        self.feed_fail = None

    # ---- helpers
    def all_procs(self):
        return FakeProcess.all

    def jobmap(self):
        return {j._job: k for k, j in enumerate(self.jobs)}

    def pidref(self, pid):
        p = FakeProcess.by_pid.get(pid)
        return p.ref if p is not None else -1

    def send(self, msg):
        self.pool._outqueue._writer.send(msg)
        self.pool.handle_result_event()

    def new_cb(self):
        d = dict(succ=[], err=[], acc=[], tmo=[])
        self.cb.append(d)
        return d

    # ---- events
    def ev_apply(self, soft=None, hard=None, lost=None, slot=None):
        p = self.pool
        wait = p.putlocks if slot is None else slot
        if p._state != bp.RUN:
            # a pool that is not running must refuse at once, whatever the slots: call it for real
            r = p.apply_async(abs, (1,), soft_timeout=soft, timeout=hard, lost_worker_timeout=lost, waitforslot=slot)
            if r is not None:
                self.new_cb()
                self.jobs.append(r)
                return 'Accepted'
            return 'Refused'
        if wait and p._putlock is not None and p._putlock._value == 0:
            return 'Blocked'       # the real call would wait for a slot
        d = self.new_cb()
        nth = len(self.jobs)

        def accept(pid, t):
            d['acc'].append(self.pidref(pid))
            if self.cfg.get('accept_raises') and nth % 2 == 1:
                raise RuntimeError('accept callback of job %d raises' % nth)    # a user callback may raise

        r = p.apply_async(
            abs, (1,), soft_timeout=soft, timeout=hard, lost_worker_timeout=lost, waitforslot=slot,
            callback=lambda v: (d['succ'].append(canon_value(None, True, v, {})), d.__setitem__('sem_at_cb', p._putlock._value)),
            error_callback=lambda v: (d['err'].append(1), d.__setitem__('sem_at_cb', p._putlock._value)),
            accept_callback=accept,
            timeout_callback=lambda soft, timeout: d['tmo'].append([bool(soft), timeout]),
        )
        self.jobs.append(r)
        # the task itself sits on the real in-pipe; drain it (the harness is the worker)
        if p._inqueue._reader.poll(0):
            p._inqueue._reader.recv()

    def ev_applyq(self, soft=None, hard=None, lost=None, slot=None):
        """apply_async as a pool WITH helper threads runs it: the task is queued for the task handler
        (the next `feed` event sends it, or fails to)"""
        p = self.pool
        started = p._timeout_handler_started
        p._timeout_handler_started = True      # the harness is the scanner: no real thread is started
        p.threads = True
        try:
            return self.ev_apply(soft, hard, lost, slot)
        finally:
            p.threads = False
            p._timeout_handler_started = started

    def ev_apply_unsendable(self, slot=None):
        """apply_async on this pool (no helper threads) when the write to the pipe raises"""
        p = self.pool
        wait = p.putlocks if slot is None else slot
        if p._state == bp.RUN and wait and p._putlock is not None and p._putlock._value == 0:
            return 'Blocked'
        real = p._quick_put

        def failing(task):
            raise ValueError('scripted put failure')
        p._quick_put = failing
        njobs = len(self.jobs)
        try:
            r = p.apply_async(abs, (1,), waitforslot=slot)
        finally:
            p._quick_put = real
        if r is not None:
            self.new_cb()
            self.jobs.append(r)
            return 'Accepted'
        return 'Refused'

    def ev_map(self, n, cs):
        p = self.pool
        if p._state != bp.RUN:
            r = p.map_async(abs, list(range(n)), cs)
            if r is not None:
                self.new_cb()
                self.jobs.append(r)
                return 'Accepted'
            return 'Refused'
        d = self.new_cb()
        r = p.map_async(abs, list(range(n)), cs,
                        callback=lambda v: d['succ'].append(['ok', list(v)]),
                        error_callback=lambda v: d['err'].append(1))
        self.jobs.append(r)

    def ev_imap(self, n, unordered=False):
        p = self.pool
        f = p.imap_unordered if unordered else p.imap
        if p._state != bp.RUN:
            r = f(abs, list(range(n)))
            if r is not None:
                self.new_cb()
                self.jobs.append(r)
                return 'Accepted'
            return 'Refused'
        self.new_cb()
        self.jobs.append(f(abs, list(range(n))))

    def ev_imapu(self, n):
        return self.ev_imap(n, True)

    def ev_feed(self, fail_at=None, kind=None):
        """run the task handler over everything queued so far"""
        p = self.pool
        th = p._task_handler
        count = [0]
        real_put = p._quick_put

        def put(task):
            k = count[0]
            count[0] += 1
            if fail_at is not None and k == fail_at:
                if kind == 'io':
                    raise IOError('scripted')
                raise ValueError('scripted put failure')
            real_put(task)
            if p._inqueue._reader.poll(0):
                p._inqueue._reader.recv()
        th.put = put
        p._taskqueue.put(None)
        try:
            th.body()
        finally:
            # sequences left behind by an IOError stop stay queued; sentinels do not
            left = []
            while not p._taskqueue.empty():
                it = p._taskqueue.get()
                if it is not None:
                    left.append(it)
            for it in left:
                p._taskqueue.put(it)
        return ['fed', count[0] - (1 if fail_at is not None and count[0] > fail_at else 0)]

    def ev_ack(self, j, i, pref):
        job = self.jobs[j]
        self.send((bp.ACK, (job._job, i, CLOCK[0], FakeProcess.all[pref].pid, None)))

    def ev_ack_scan(self, j, i, pref, dt, lingers=False):
        """the acknowledgement of job j is handled, and WHILE ApplyResult._ack runs its on_timeout_set
        hook (under the job's mutex) the clock moves on by dt and the timeout handler scans: the
        scanner thread interleaved with the result handler inside _ack.  Only soft limits may be due
        (a hard timeout would need the job's mutex)."""
        job = self.jobs[j]
        case = self
        ran = []

        def hook(job_, soft, hard):
            if not ran:
                ran.append(1)
                CLOCK[0] += dt
                case.ev_scan(lingers)
        job._on_timeout_set = hook
        try:
            self.send((bp.ACK, (job._job, i, CLOCK[0], FakeProcess.all[pref].pid, None)))
        finally:
            job._on_timeout_set = None
        return ['hook-ran', len(ran)]

    def ev_ready_scan(self, j, i, ok, tag, dt, lingers=False):
        """the result of job j is handled, and WHILE ApplyResult._set runs the job's result callback the
        clock moves on by dt and the timeout handler scans (a slow user callback; the scanner is another
        thread).  The job's result has been processed: nothing may be signalled on its behalf."""
        case = self
        ran = []
        d = self.cb[j]

        class Hooked(list):
            def append(self_, item):
                list.append(self_, item)
                if not ran:
                    ran.append(1)
                    CLOCK[0] += dt
                    case.ev_scan(lingers)
        for key in ('succ', 'err'):
            d[key] = Hooked(d[key])
        try:
            self.ev_ready(j, i, ok, tag)
        finally:
            for key in ('succ', 'err'):
                d[key] = list(d[key])
        return ['hook-ran', len(ran)]

    def ev_ready(self, j, i, ok, tag):
        job = self.jobs[j]
        if ok:
            val = tag
            if isinstance(job, bp.MapResult):
                cs = job._chunksize
                val = [tag] * max(0, min(cs, job._length - i * cs)) if cs > 0 else []
        else:
            val = Exc(tag)
        self.send((bp.READY, (job._job, i, (bool(ok), val), None)))

    def ev_stale_ack(self, pref):
        self.send((bp.ACK, (10 ** 9, None, CLOCK[0], FakeProcess.all[pref].pid, None)))

    def ev_stale_ready(self, ok):
        self.send((bp.READY, (10 ** 9, None, (bool(ok), 7), None)))

    def ev_death(self, pref, code):
        self.send((bp.DEATH, (FakeProcess.all[pref].pid, code)))

    def ev_junk(self):
        self.send((99, (1, 2)))

    def ev_exit(self, pref, status):
        pr = FakeProcess.all[pref]
        if pr._exit is None:
            pr._exit = status

    def ev_tick(self):
        self.pool._maintain_pool()

    def ev_tick_close(self, k):
        """a supervision pass during which close() is called from the start-up hook of the
        (k+1)-th worker the pass starts"""
        p = self.pool
        started = [0]
        prev = p.on_process_up

        def hook(proc):
            started[0] += 1
            if started[0] == k + 1:
                p.close()
        p.on_process_up = hook
        try:
            p._maintain_pool()
        finally:
            p.on_process_up = prev

    def ev_join_shutdown(self):
        """what ResultHandler.finish_at_shutdown does on every round of its drain loop"""
        try:
            self.pool._join_exited_workers(shutdown=True)
        except bp.WorkersJoined:
            raise WorkersJoinedSeen()

    def drain_block(self, events):
        """events = [drain_begin, (ack | ready | advance | join_shutdown)*, drain_end]: ONE real call of
        ResultHandler.finish_at_shutdown (the drain loop a closed pool's result handler runs until its
        cache is empty).  Its poll() is scripted: a message event is handed to the loop as the next
        message, an `advance` is an idle round (the clock moves on, nothing arrives); the history names
        the supervision pass the loop runs after each round as `join_shutdown`.  One observation per
        event; a pass the history expects and the loop does not run is observed as 'PassSkipped'."""
        p = self.pool
        rh = p._result_handler
        plan = list(events[1:-1])
        out = [self.observe(None, None)]
        case = self
        pending = []

        def flush_pending():
            while pending:
                pending.pop(0)
                out.append(case.observe(None, None))

        def fake_poll(timeout=None):
            flush_pending()
            while plan and plan[0][0] == 'join_shutdown':
                plan.pop(0)
                out.append(case.observe('PassSkipped', None))
            while plan and plan[0][0] == 'wait':
                # time passes while the loop is waiting in poll(); then the next message arrives
                CLOCK[0] += plan.pop(0)[1]
                out.append(case.observe(None, None))
            if not plan:
                raise EOFError('script over')
            ev = plan.pop(0)
            if ev[0] == 'advance':
                CLOCK[0] += ev[1]
                out.append(case.observe(None, None))
                return False, None
            job = case.jobs[ev[1]]
            if ev[0] == 'ack':
                msg = (bp.ACK, (job._job, ev[2], CLOCK[0], FakeProcess.all[ev[3]].pid, None))
            else:
                ok, tag = ev[3], ev[4]
                val = tag if ok else Exc(tag)
                msg = (bp.READY, (job._job, ev[2], (bool(ok), val), None))
            pending.append(ev)
            return True, msg

        real_join = rh.join_exited_workers

        def join(shutdown=False):
            flush_pending()
            if plan and plan[0][0] == 'join_shutdown':
                plan.pop(0)
                try:
                    real_join(shutdown=shutdown)
                except bp.WorkersJoined:
                    out.append(case.observe(None, 'WorkersJoined'))
                    raise
                out.append(case.observe(None, None))
            else:
                real_join(shutdown=shutdown)     # a pass the history did not name: shows as a difference
        saved = rh.poll, rh.join_exited_workers
        rh.poll, rh.join_exited_workers = fake_poll, join
        try:
            rh.finish_at_shutdown()
        finally:
            rh.poll, rh.join_exited_workers = saved
        flush_pending()
        while plan:
            ev = plan.pop(0)
            out.append(self.observe('NotReached' if ev[0] != 'join_shutdown' else 'PassSkipped', None))
        out.append(self.observe(None, None))
        return out

    def ev_scan(self, lingers=False):
        p = self.pool
        if p._timeout_handler is None:
            return 'NoScanner'
        for pr in FakeProcess.all:
            pr.dies_on_term = not lingers
        try:
            p._timeout_handler.handle_event()
        finally:
            for pr in FakeProcess.all:
                pr.dies_on_term = True

    def scan_block(self, events):
        """events = [scan_begin, (scan_step | other event)*, scan_end]: ONE real call of the
        timeout scan, paused between the jobs of its cache snapshot through the dict copy it
        takes (`copy.copy(self.cache)`): the copy's items() runs the interleaved events
        before handing out the next job.  Returns one observation per event."""
        p = self.pool
        out = []
        if p._timeout_handler is None:
            return [self.observe('NoScanner', None)] + [self.observe(None, None) for _ in events[1:]]
        plan = list(events[1:-1])
        case = self

        class Snap(dict):
            def items(snap):
                real = list(dict.items(snap))
                k = 0
                while True:
                    # run everything scheduled before the next step
                    while plan and plan[0][0] != 'scan_step':
                        out.extend(case.run([plan.pop(0)]))
                    if not plan:
                        return
                    ev = plan.pop(0)
                    for pr in FakeProcess.all:
                        pr.dies_on_term = not ev[1]
                    if k < len(real):
                        yield real[k]
                    k += 1
                    out.append(case.observe(None, None))

        real_copy = bp.copy.copy
        orig_cache = p._timeout_handler.cache

        def fake_copy(obj):
            if obj is orig_cache:
                return Snap(obj)
            return real_copy(obj)
        bp.copy.copy = fake_copy
        first = []
        try:
            # the snapshot is taken when the generator starts; observe right after
            it_obs = {}
            th = p._timeout_handler
            # begin: run the generator up to the snapshot by letting items() be called lazily;
            # the state right after the snapshot equals the state before the first step
            first.append(None)
            try:
                th.handle_event()
            except Exception as e:      # the scan itself raised: an observation
                out.append(self.observe(None, type(e).__name__))
                if plan and plan[0][0] == 'scan_step':
                    plan.pop(0)
        finally:
            bp.copy.copy = real_copy
            for pr in FakeProcess.all:
                pr.dies_on_term = True
        # anything left in the plan (more steps than snapshot entries / trailing events)
        while plan:
            ev = plan.pop(0)
            if ev[0] == 'scan_step':
                out.append(self.observe(None, None))
            else:
                out.extend(self.run([ev]))
        return ['BEGIN'] + out + [self.observe(None, None)]

    def ev_advance(self, dt):
        CLOCK[0] += dt

    def ev_discard(self, j):
        self.jobs[j].discard()

    def ev_terminate_job(self, pref, sig=None):
        self.pool.terminate_job(FakeProcess.all[pref].pid, sig)

    def ev_grow(self, n):
        self.pool.grow(n)

    def ev_shrink(self, n):
        p = self.pool
        # a shrink that would block in the semaphore is not issued (Blocked)
        idle = len(list(p._iterinactive()))
        if idle and p._putlock is not None and p._putlock._value < min(max(n, 1), idle):
            return 'Blocked'
        self.pool.shrink(n)

    def ev_shrink_tick(self, n):
        """shrink(n) with a supervision pass of the supervisor thread interleaved where shrink() waits for
        the semaphore (`_putlock.shrink()` blocks while every slot is taken): the pass must not undo the
        shrink by replacing the worker that is being stopped"""
        p = self.pool
        lock = p._putlock
        if lock is None:
            return self.ev_shrink(n)
        real = lock.shrink
        case = self
        ran = []

        def shrink_with_pass():
            if not ran:
                ran.append(1)
                case.ev_tick()
            return real()
        lock.shrink = shrink_with_pass
        try:
            p.shrink(n)
        finally:
            del lock.shrink
        return ['hook-ran', len(ran)]

    def ev_close(self):
        self.pool.close()

    def ev_next(self, j):
        job = self.jobs[j]
        try:
            return ['item', next_item(job)]
        except StopIteration:
            return ['stop']
        except bp.TimeoutError:
            return ['empty']
        except Exception as exc:
            a = exc.args[0] if exc.args else None
            if isinstance(a, Exc):
                return ['raised', ['exc', a.tag]]
            return ['raised', canon_value(None, False, a, self.jobmap())]

    # ---- observation
    def observe(self, ret, exc):
        p = self.pool
        jm = self.jobmap()
        jobs = []
        for k, j in enumerate(self.jobs):
            cb = self.cb[k]
            if isinstance(j, bp.MapResult):
                kind = 'map'
                acc = list(map(bool, j._accepted)) if isinstance(j._accepted, list) else bool(j._accepted)
                val = canon_value(j, getattr(j, '_success', None), j._value, jm) if j.ready() and not j._success else (
                    ['ok', list(j._value)] if j.ready() else None)
                extra = [j._number_left]
            elif isinstance(j, bp.IMapIterator):
                kind = 'imapu' if isinstance(j, bp.IMapUnorderedIterator) else 'imap'
                acc = None
                val = None
                extra = [j._index, j._length, len(j._items), sorted(str(x) for x in j._unsorted)]
            else:
                kind = 'apply'
                acc = bool(j._accepted)
                val = canon_value(j, getattr(j, '_success', None), getattr(j, '_value', None), jm) if j.ready() else None
                extra = [j._time_accepted]
            wl = j._worker_lost
            jobs.append(dict(kind=kind, incache=(j._job in p._cache), ready=bool(j.ready()),
                             acc=acc, wpids=list(dict.fromkeys(self.pidref(x) for x in j.worker_pids())),
                             val=val, lost=[wl[0], wl[1]] if wl else None,
                             cb=[len(cb['succ']), len(cb['err']), len(cb['acc']), [list(x) for x in cb['tmo']]],
                             sem_at_cb=cb.get('sem_at_cb'),
                             extra=extra))
        workers = [[w.ref, w.index, bool(w._controlled_termination), bool(getattr(w, '_job_terminated', False)),
                    p._on_ready_counters[w.pid].value if w.pid in p._on_ready_counters else None]
                   for w in p._pool]
        sigs = [[self.pidref(pid), s] for pid, s in SIGNALS[self.sig_seen:]]
        self.sig_seen = len(SIGNALS)
        return dict(ret=ret, exc=exc, jobs=jobs, workers=workers, nprocs=p._processes,
                    sem=[p._putlock._value, p._putlock._initial_value], R=p.restart_state.R,
                    sigs=sigs, state=p._state, now=CLOCK[0], ncache=len(p._cache))

    def run_gen(self, gen):
        """state-aware generation: returns (events, observations)"""
        from pool_gen import Gen
        g = Gen(self, gen['seed'], gen.get('focus'))
        evs, out = [], []
        for _ in range(gen['length']):
            ev = g.next_event()
            block = ev if ev and isinstance(ev[0], list) else [ev]
            evs.extend(block)
            out.extend(self.run(block))
            if out[-1]['exc'] == 'Hang':
                break
        return evs, out

    def run_closed(self, spec):
        """the closed crash-free system of coq/Model/PoolSys.v: the harness keeps the task queue,
        the pipe, the workers' protocol state and the result pipe; the REAL parent-side code is
        the parent.  A random enabled step at a time, until nothing is enabled (or `stop_after`
        steps).  Returns (schedule, parent events, observations, maximal)."""
        import random
        rng = random.Random(spec['seed'])
        p = self.pool
        todo = spec['n']
        taskq, inq, outq = [], [], []
        wk = [None] * len(p._pool)
        sched, evs, out = [], [], []
        limit = spec.get('stop_after')
        maximal = False
        while True:
            en = []
            if todo > 0 and (p._state != bp.RUN or not (p.putlocks and p._putlock is not None and p._putlock._value == 0)):
                en.append(['submit'])
            if taskq:
                en.append(['put'])
            for i, w in enumerate(wk):
                if w is None and inq:
                    en.append(['take', i])
                if w is not None:
                    en.append(['finish', i])
            if outq:
                en.append(['recv'])
            work_left = bool(en)           # a step other than close() is enabled
            if p._state == bp.RUN and spec.get('may_close') and (todo == 0 or rng.random() < spec.get('close_early', 0.05)):
                en.append(['close'])
            if not en or (limit is not None and len(sched) >= limit):
                maximal = not work_left    # nothing but close() can move
                break
            st = rng.choice(en)
            sched.append(st)
            ev = None
            if st[0] == 'submit':
                todo -= 1
                if p._state == bp.RUN:
                    taskq.append(len(self.jobs))
                ev = ['apply', None, None, None, None]
            elif st[0] == 'close':
                ev = ['close']
            elif st[0] == 'put':
                inq.append(taskq.pop(0))
            elif st[0] == 'take':
                j = inq.pop(0)
                wk[st[1]] = j
                outq.append(['ack', j, None, p._pool[st[1]].ref])
            elif st[0] == 'finish':
                j = wk[st[1]]
                wk[st[1]] = None
                outq.append(['ready', j, None, j not in spec.get('bad', ()), j])
            else:
                ev = outq.pop(0)
            if ev is not None:
                evs.append(ev)
                out.extend(self.run([ev]))
                if out[-1]['exc'] == 'Hang':
                    break
        return sched, evs, out, maximal

    def run_crash_closed(self, spec):
        """the closed system WITH WORKER CRASHES of coq/Model/PoolCrash.v: as run_closed (the harness
        keeps task queue, pipe, the live workers' protocol state and the result pipe; the REAL
        parent-side code is the parent), plus: kill (a worker that is executing a job exits with a
        status), tick (one supervision pass; called tick_early when a message of an exited, not yet
        reaped worker is still in the result pipe), advance (the clock).  A random enabled step at
        a time.  Passes and waits that have no point are taken with a small probability only.
        Returns a dict (sched, events, obs, maximal, killed, doomed)."""
        import random
        rng = random.Random(spec['seed'])
        p = self.pool
        todo = spec['n']
        kills = spec.get('kills', 0)
        codes = spec.get('codes') or [-9, -11, -15, 1, 2, 70, 155, 0]
        allow_early = spec.get('early', False)
        idle_p = spec.get('idle_prob', 0.04)
        bad = spec.get('bad', ())
        taskq, inq, outq = [], [], []            # outq: (parent event, sender ref)
        wk = dict((w.ref, None) for w in p._pool)   # live workers (insertion ordered): ref -> job
        killed = {}                              # job -> [ref, status]
        lost = []                                # jobs of killed workers not resolved yet
        sched, evs, out = [], [], []
        limit = spec.get('stop_after', 400)
        maximal = doomed = False
        while True:
            dead = set(w.ref for w in p._pool if w.exitcode is not None)
            drained = not any(snd in dead for _, snd in outq)
            now = CLOCK[0]
            marked = [j for j in list(p._cache.values()) if not j.ready() and j._worker_lost]
            due = [j for j in marked if now - j._worker_lost[0] > j._lost_worker_timeout]
            useful_tick = bool(dead) or bool(due) or len(p._pool) < p._processes
            useful_adv = len(due) < len(marked)
            lost = [j for j in lost if not self.jobs[j].ready()]
            en = []
            if todo > 0 and not (p.putlocks and p._putlock is not None and p._putlock._value == 0):
                en.append(['submit'])
            if taskq:
                en.append(['put'])
            for ref, j in wk.items():
                if j is None and inq:
                    en.append(['take', ref])
                if j is not None:
                    en.append(['finish', ref])
            if outq:
                en.append(['recv'])
            work_left = bool(en) or bool(lost)
            progress = bool(en)
            if kills > 0:
                for ref, j in wk.items():
                    if j is not None and rng.random() < spec.get('kill_prob', 0.5):
                        en.append(['kill', ref, rng.choice(codes)])
            tick = ['tick'] if drained else (['tick_early'] if allow_early else None)
            if tick is not None and (useful_tick or rng.random() < idle_p):
                en.append(tick)
                if useful_tick:
                    progress = True
            if useful_adv or rng.random() < idle_p:
                en.append(['advance', rng.choice([1, 1, 2, 3, 5, 11])])
                if useful_adv:
                    progress = True
            if not progress or len(sched) >= limit:
                maximal = not work_left
                doomed = bool(lost) and not progress
                break
            st = rng.choice(en)
            sched.append(st)
            ev = None
            if st[0] == 'submit':
                todo -= 1
                taskq.append(len(self.jobs))
                ev = ['apply', None, None, None, None]
            elif st[0] == 'put':
                inq.append(taskq.pop(0))
            elif st[0] == 'take':
                j = inq.pop(0)
                wk[st[1]] = j
                outq.append((['ack', j, None, st[1]], st[1]))
            elif st[0] == 'finish':
                j = wk[st[1]]
                wk[st[1]] = None
                outq.append((['ready', j, None, j not in bad, j], st[1]))
            elif st[0] == 'recv':
                ev = outq.pop(0)[0]
            elif st[0] == 'kill':
                kills -= 1
                j = wk.pop(st[1])
                killed[j] = [st[1], st[2]]
                lost.append(j)
                ev = ['exit', st[1], st[2]]
            elif st[0] in ('tick', 'tick_early'):
                ev = ['tick']
            else:
                ev = ['advance', st[1]]
            if ev is not None:
                evs.append(ev)
                out.extend(self.run([ev]))
                if out[-1]['exc'] == 'Hang':
                    break
                if ev[0] == 'tick':
                    for w in p._pool:
                        if w.ref not in wk and w.exitcode is None:
                            wk[w.ref] = None           # a replacement: live, idle
        return dict(sched=sched, events=evs, obs=out, maximal=maximal, doomed=doomed,
                    killed=[[j, v[0], v[1]] for j, v in sorted(killed.items())],
                    live=[[ref, j] for ref, j in wk.items()])

    def run_limit_closed(self, spec):
        """the closed system WITH HARD TIME LIMITS of coq/Model/PoolLimit.v: as run_closed, plus: every
        call carries its own hard limit (spec['lims'][k], None = the pool default), scan (one pass of
        the real timeout handler; the fake processes it signals are dead at once and leave the live
        workers; called scan_racy when it is not `clean`: it would signal a dead worker, two overdue
        jobs of one worker, or a worker that has gone on to another job), tick (supervision pass,
        taken only when the dead workers' messages have been drained from the result pipe), advance.
        Returns a dict (sched, events, obs, maximal, racy, marks)."""
        import random
        rng = random.Random(spec['seed'])
        p = self.pool
        lims = list(spec['lims'])
        todo = list(lims)
        allow_racy = spec.get('racy', False)
        idle_p = spec.get('idle_prob', 0.04)
        bad = spec.get('bad', ())
        taskq, inq, outq = [], [], []            # outq: (parent event, sender ref)
        wk = dict((w.ref, None) for w in p._pool)
        sched, evs, out = [], [], []
        marks = []                               # per scan: [index of its event, clean?, [[job, owner ref]...] it should fail]
        limit = spec.get('stop_after', 400)
        maximal = False

        def due_pairs():
            now = CLOCK[0]
            res = []
            if p._timeout_handler is None:
                return res
            for k, j in enumerate(self.jobs):
                if j._job in p._cache and not j.ready() and j._time_accepted:
                    h = j._timeout if j._timeout is not None else p.timeout
                    if h and j._time_accepted + h <= now:
                        res.append([k, self.pidref(j._worker_pid)])
            return res

        while True:
            dead = set(w.ref for w in p._pool if w.exitcode is not None)
            drained = not any(snd in dead for _, snd in outq)
            now = CLOCK[0]
            dp = due_pairs()
            owners = [o for _, o in dp]
            clean = len(set(owners)) == len(owners) and all(
                o in wk and (wk[o] is None or wk[o] == k) for k, o in dp)
            pending = any((not j.ready()) and j._time_accepted and
                          (j._timeout if j._timeout is not None else p.timeout) and
                          now < j._time_accepted + (j._timeout if j._timeout is not None else p.timeout)
                          for j in self.jobs)
            marked = [j for j in list(p._cache.values()) if not j.ready() and j._worker_lost]
            due_lost = [j for j in marked if now - j._worker_lost[0] > j._lost_worker_timeout]
            useful_tick = bool(dead) or bool(due_lost) or len(p._pool) < p._processes
            useful_adv = pending or len(due_lost) < len(marked)
            useful_scan = bool(dp)
            en = []
            if todo and not (p.putlocks and p._putlock is not None and p._putlock._value == 0):
                en.append(['submit'])
            if taskq:
                en.append(['put'])
            for ref, j in wk.items():
                if j is None and inq:
                    en.append(['take', ref])
                if j is not None:
                    en.append(['finish', ref])
            if outq:
                en.append(['recv'])
            unresolved = any(not j.ready() for j in self.jobs)
            work_left = bool(en) or unresolved or bool(dead)
            progress = bool(en)
            lingers = rng.random() < 0.4
            scan = ['scan', lingers] if clean else (['scan_racy', lingers] if allow_racy else None)
            if scan is not None and (useful_scan and rng.random() < spec.get('scan_prob', 0.7) or rng.random() < idle_p):
                en.append(scan)
                if useful_scan:
                    progress = True
            if drained and (useful_tick or rng.random() < idle_p):
                en.append(['tick'])
                if useful_tick:
                    progress = True
            if (useful_adv and rng.random() < spec.get('adv_prob', 0.5)) or rng.random() < idle_p:
                en.append(['advance', rng.choice([1, 1, 2, 3, 5, 11])])
                if useful_adv:
                    progress = True
            if useful_adv or (useful_scan and scan is not None):
                progress = True        # not offered this round by chance: not the end
            if not progress or len(sched) >= limit:
                maximal = not work_left
                break
            if not en:
                continue
            st = rng.choice(en)
            sched.append(st)
            ev = None
            if st[0] == 'submit':
                h = todo.pop(0)
                taskq.append(len(self.jobs))
                ev = ['apply', None, h, None, None]
            elif st[0] == 'put':
                inq.append(taskq.pop(0))
            elif st[0] == 'take':
                j = inq.pop(0)
                wk[st[1]] = j
                outq.append((['ack', j, None, st[1]], st[1]))
            elif st[0] == 'finish':
                j = wk[st[1]]
                wk[st[1]] = None
                outq.append((['ready', j, None, j not in bad, j], st[1]))
            elif st[0] == 'recv':
                ev = outq.pop(0)[0]
            elif st[0] in ('scan', 'scan_racy'):
                marks.append([len(evs), st[0] == 'scan', dp, sorted(wk), now])
                ev = ['scan', st[1]]
            elif st[0] == 'tick':
                ev = ['tick']
            else:
                ev = ['advance', st[1]]
            if ev is not None:
                evs.append(ev)
                out.extend(self.run([ev]))
                if out[-1]['exc'] == 'Hang':
                    break
                if ev[0] == 'scan':
                    for ref in [r for r in wk if FakeProcess.all[r]._exit is not None]:
                        del wk[ref]                    # signalled: dead at once, whatever it was doing
                if ev[0] == 'tick':
                    for w in p._pool:
                        if w.ref not in wk and w.exitcode is None:
                            wk[w.ref] = None
        return dict(sched=sched, events=evs, obs=out, maximal=maximal, marks=marks,
                    racy=any(st[0] == 'scan_racy' for st in sched),
                    live=[[ref, j] for ref, j in wk.items()])

    def run_parts_closed(self, spec):
        """the crash-free closed system for MULTI-PART jobs of coq/Model/PoolParts.v: the client makes
        the calls spec['calls'] ([kind, n, chunksize]: apply / map / imap / imapu); feed = one pass of
        the REAL task handler over everything queued (the parts go to the harness's pipe, imap
        lengths are announced); workers take parts in pipe order and write ACK then READY (a
        failing part: spec['bad'] = [[job, index], ...]); recv = the real result handler; next =
        the consumer calls next() on an iterator whenever it would not block, until StopIteration.
        Returns a dict (sched, events, obs, maximal, nexts)."""
        import random
        rng = random.Random(spec['seed'])
        p = self.pool
        todo = list(spec['calls'])
        bad = set(tuple(b) for b in spec.get('bad', ()))
        queued = []                              # (job, number of parts) of the sequences not written yet
        inq, outq = [], []
        wk = [None] * len(p._pool)
        iters = {}                               # job -> stopped?
        nexts = []
        sched, evs, out = [], [], []
        limit = spec.get('stop_after', 600)
        maximal = False
        while True:
            en = []
            if todo and not (todo[0][0] == 'apply' and p.putlocks and p._putlock is not None and p._putlock._value == 0):
                en.append(['submit'])
            if queued:
                en.append(['feed'])
            for i, w in enumerate(wk):
                if w is None and inq:
                    en.append(['take', i])
                if w is not None:
                    en.append(['finish', i])
            if outq:
                en.append(['recv'])
            for j, stopped in iters.items():
                if not stopped:
                    it = self.jobs[j]
                    if len(it._items) or (it._length is not None and it._index == it._length):
                        en.append(['next', j])
            if not en or len(sched) >= limit:
                maximal = not en and all(iters.values())
                break
            st = rng.choice(en)
            sched.append(st)
            ev = None
            if st[0] == 'submit':
                c = todo.pop(0)
                jn = len(self.jobs)
                if c[0] == 'apply':
                    ev = ['apply', None, None, None, None]
                    inq.append([jn, None])
                elif c[0] == 'map':
                    ev = ['map', c[1], c[2]]
                    n, cs = c[1], (0 if c[1] == 0 else c[2])
                    queued.append([jn, 0 if cs <= 0 else (n + cs - 1) // cs])
                else:
                    ev = [c[0], c[1]]
                    queued.append([jn, c[1]])
                    iters[jn] = False
            elif st[0] == 'feed':
                ev = ['feed']
                for jn, k in queued:
                    inq.extend([jn, i] for i in range(k))
                queued = []
            elif st[0] == 'take':
                a = inq.pop(0)
                wk[st[1]] = a
                outq.append(['ack', a[0], a[1], p._pool[st[1]].ref])
            elif st[0] == 'finish':
                a = wk[st[1]]
                wk[st[1]] = None
                outq.append(['ready', a[0], a[1], (a[0], a[1]) not in bad, a[0] * 100 + (a[1] or 0)])
            elif st[0] == 'recv':
                ev = outq.pop(0)
            else:
                ev = ['next', st[1]]
            if ev is not None:
                evs.append(ev)
                out.extend(self.run([ev]))
                if out[-1]['exc'] == 'Hang':
                    break
                if ev[0] == 'next':
                    r = out[-1]['ret']
                    nexts.append([st[1], r])
                    if r and r[0] == 'stop':
                        iters[st[1]] = True
        return dict(sched=sched, events=evs, obs=out, maximal=maximal, nexts=nexts)

    def run(self, events):
        out = []
        events = list(events)
        while events:
            ev = events.pop(0)
            if ev[0] == 'scan_begin':
                block = [ev]
                while events and block[-1][0] != 'scan_end':
                    block.append(events.pop(0))
                begin_obs = self.observe(None, None)      # nothing observable changes at the snapshot
                res = self.scan_block(block)
                if res and res[0] == 'BEGIN':
                    res[0] = begin_obs
                out.extend(res)
                continue
            if ev[0] == 'drain_begin':
                block = [ev]
                while events and block[-1][0] != 'drain_end':
                    block.append(events.pop(0))
                signal.alarm(EVENT_TIMEOUT)
                try:
                    out.extend(self.drain_block(block))
                except Hang:
                    out.append(self.observe(None, 'Hang'))
                    signal.alarm(0)
                    break
                finally:
                    signal.alarm(0)
                continue
            ret = exc = None
            signal.alarm(EVENT_TIMEOUT)
            try:
                ret = getattr(self, 'ev_' + ev[0])(*ev[1:])
            except Hang:
                exc = 'Hang'
                out.append(self.observe(ret, exc))
                signal.alarm(0)
                break                   # the pool may be wedged: stop this history
            except RestartFreqExceeded:
                exc = 'RestartFreqExceeded'
            except WorkersJoinedSeen:
                exc = 'WorkersJoined'
            except Exception as e:      # the call itself raised: an observation, not a crash
                exc = type(e).__name__
            finally:
                signal.alarm(0)
            out.append(self.observe(ret, exc))
        return out


class Hang(BaseException):
    pass


class WorkersJoinedSeen(Exception):
    pass


EVENT_TIMEOUT = 5


def _on_alarm(signum, frame):
    raise Hang()


signal.signal(signal.SIGALRM, _on_alarm)


def next_item(job):
    return job.next(timeout=0)


def main():
    import logging
    logging.disable(logging.CRITICAL)
    cases = json.load(sys.stdin)
    res = []
    for c in cases:
        case = Case(c['cfg'])
        if 'closed' in c:
            sched, evs, obs, maximal = case.run_closed(c['closed'])
            res.append(dict(events=evs, obs=obs, sched=sched, maximal=maximal))
        elif 'crash' in c:
            res.append(case.run_crash_closed(c['crash']))
        elif 'limit' in c:
            res.append(case.run_limit_closed(c['limit']))
        elif 'parts' in c:
            res.append(case.run_parts_closed(c['parts']))
        elif 'gen' in c:
            evs, obs = case.run_gen(c['gen'])
            res.append(dict(events=evs, obs=obs))
        else:
            res.append(dict(events=c['events'], obs=case.run(c['events'])))
    sys.stdout.write('\n' + json.dumps(res) + '\n')
    sys.stdout.flush()
    os._exit(0)


if __name__ == '__main__':
    try:
        main()
    except BaseException:
        import traceback
        traceback.print_exc()
        sys.stderr.flush()
        os._exit(2)      # never run the pool finalizers of fake-process pools
