"""Real threads on one billiard.heap.Heap under a forced schedule (used by heap_driver.py).

case: dict(pg, size, ops=[sequential prefix: ['m', n] | ['f', k] | ['d', k]],
           conc=dict(progs=[[['m', n] | ['f', k], ...] per thread]   (k = malloc number of the prefix),
                     sched=[[tid, count], ...],
                     stale_pid=bool))       # optional: the heap object looks inherited through fork()

Every thread runs its requests under sys.settrace; it stops before EVERY line of heap.py it is about to execute
(malloc, free, _malloc, _free, _absorb, _free_pending_blocks, _roundup, __init__) and whenever it would have to wait for
the heap lock, and hands control back to the scheduler, which lets exactly one thread run at a time:
`[tid, count]` = thread tid executes `count` such pieces (fewer if it finishes; a thread that waits for the lock
while the lock is held does nothing).  When the schedule is used up the remaining threads are run to completion,
lowest tid first.  The lock object itself is whatever Heap.__init__ creates (heap.py's `threading.Lock` is handed
out wrapped in a proxy that records who tries/acquires/releases it and turns a blocking acquire into
"try, else give control back").

Reported: events  [[tid, kind, opindex], ...] in real-time order, kind in
              want (blocking acquire requested)  acq (acquired)  try_ok / try_fail (non-blocking acquire)
              append (block appended to the pending list)  pop (a block popped from it)  drained (pop raised IndexError)
              body (about to release: everything under the lock is done)  rel (released)
          trace   [[tid, 'call'|'ret'|'exc', opindex, op, block-or-exception]] in real-time order
          log     [[tid, block]] blocks handed out, in the order of the critical sections
          snap    final state; stuck = True when all unfinished threads wait for the lock (deadlock) or a thread
                  did not come back within 5 s.
"""
import linecache
import os
import sys
import threading as real_threading
import types

import billiard.heap as bh

HEAP_FILE = bh.Heap.malloc.__code__.co_filename
CURRENT = [None]        # the active Scheduler


class LockProxy:
    def __init__(self, inner):
        self.inner = inner
        self.owner = None

    # --- what heap.py calls
    def acquire(self, blocking=True, timeout=-1):
        s = CURRENT[0]
        w = s.me() if s else None
        if w is None:
            return self.inner.acquire(blocking, timeout)
        if not blocking:
            r = self.inner.acquire(False)
            s.event(w, 'try_ok' if r else 'try_fail')
            if r:
                self.owner = w.tid
            return r
        s.event(w, 'want')
        while not self.inner.acquire(False):
            w.waiting = self
            s.give_back(w, blocked=True)
        w.waiting = None
        self.owner = w.tid
        s.event(w, 'acq')
        return True

    def release(self):
        s = CURRENT[0]
        w = s.me() if s else None
        if w is not None:
            s.event(w, 'body')
        self.owner = None
        self.inner.release()
        if w is not None:
            s.event(w, 'rel')

    def __enter__(self):
        return self.acquire()

    def __exit__(self, *exc):
        self.release()

    def locked(self):
        return self.inner.locked() if hasattr(self.inner, 'locked') else self.owner is not None

    def is_free(self):
        """can a waiting thread get it now?  (non-destructive for a plain lock)"""
        if hasattr(self.inner, 'locked'):
            return not self.inner.locked()
        return self.owner is None


class FakeThreading:
    """what heap.py sees as `threading` while a schedule runs: lock constructors hand out proxies"""
    def __getattr__(self, name):
        return getattr(real_threading, name)

    @staticmethod
    def Lock():
        return LockProxy(real_threading.Lock())

    @staticmethod
    def RLock():
        return LockProxy(real_threading.RLock())


class Worker:
    def __init__(self, tid, prog):
        self.tid = tid
        self.prog = prog
        self.go = real_threading.Semaphore(0)
        self.finished = False
        self.waiting = None         # the LockProxy it waits for
        self.budget = 0
        self.opindex = -1
        self.results = []           # [op, block|None, exception name|None]
        self.thread = None


class Scheduler:
    def __init__(self, heap, got, progs, blkfn):
        self.heap = heap
        self.got = got
        self.blkfn = blkfn
        self.workers = [Worker(i, p) for i, p in enumerate(progs)]
        self.by_ident = {}
        self.ctl = real_threading.Semaphore(0)
        self.events = []
        self.trace = []
        self.stuck = False

    def me(self):
        return self.by_ident.get(real_threading.get_ident())

    def event(self, w, kind):
        self.events.append([w.tid, kind, w.opindex])

    def give_back(self, w, blocked=False):
        """end of a piece: control returns to the scheduler only when the thread's budget of pieces is used up
        (or it has to wait for the lock) -- the other threads are standing still meanwhile either way"""
        w.budget -= 1
        if w.budget > 0 and not blocked:
            return
        self.ctl.release()
        w.go.acquire()

    # --- the trace function of a worker thread
    def tracer(self, frame, event, arg):
        if frame.f_code.co_filename != HEAP_FILE:
            return None
        return self.local

    def local(self, frame, event, arg):
        if event == 'line':
            w = self.me()
            if w is not None:
                self.give_back(w)
                # about to execute this line without interruption: say what it does to the pending list
                text = linecache.getline(HEAP_FILE, frame.f_lineno).strip()
                if text == 'block = self._pending_free_blocks.pop()':
                    self.event(w, 'pop' if frame.f_locals['self']._pending_free_blocks else 'drained')
                elif text == 'self._pending_free_blocks.append(block)':
                    self.event(w, 'append')
        return self.local

    def body(self, w):
        self.by_ident[real_threading.get_ident()] = w
        w.go.acquire()
        sys.settrace(self.tracer)
        try:
            for i, op in enumerate(w.prog):
                w.opindex = i
                try:
                    if op[0] == 'm':
                        self.trace.append([w.tid, 'call', i, op, None])
                        r = self.heap.malloc(op[1])
                        self.trace.append([w.tid, 'ret', i, op, r])
                        w.results.append([op, r, None])
                    else:
                        self.trace.append([w.tid, 'call', i, op, self.got[op[1]]])
                        self.heap.free(self.got[op[1]])
                        self.trace.append([w.tid, 'ret', i, op, None])
                        w.results.append([op, None, None])
                except (KeyError, IndexError, ValueError, AssertionError, TypeError, AttributeError,
                        RuntimeError) as exc:
                    self.trace.append([w.tid, 'exc', i, op, '%s: %s' % (type(exc).__name__, exc)])
                    w.results.append([op, None, type(exc).__name__])
                    break
        finally:
            sys.settrace(None)
            w.finished = True
            self.ctl.release()

    def runnable(self, w):
        if w.finished:
            return False
        if w.waiting is not None and not w.waiting.is_free():
            return False
        return True

    def grant(self, w, pieces=1):
        w.budget = pieces
        w.go.release()
        if not self.ctl.acquire(timeout=5):
            self.stuck = True
            return False
        return True

    def run(self, sched):
        for w in self.workers:
            w.thread = real_threading.Thread(target=self.body, args=(w,))
            w.thread.daemon = True
            w.thread.start()
        for tid, count in sched:
            if self.stuck or not (0 <= tid < len(self.workers)):
                continue
            w = self.workers[tid]
            if count > 0 and self.runnable(w):
                self.grant(w, count)
        while not self.stuck:
            left = [w for w in self.workers if not w.finished]
            if not left:
                break
            ready = [w for w in left if self.runnable(w)]
            if not ready:
                self.stuck = True       # everybody waits for a lock that nobody will release
                break
            self.grant(ready[0], 10 ** 6)
        if not self.stuck:
            for w in self.workers:
                w.thread.join(2)


def run_conc(heap_cls, c, snapshot, arena_index, blk, setup):
    """setup(heap) runs the sequential prefix and returns the list of blocks by malloc number"""
    saved = bh.threading
    bh.threading = FakeThreading()
    try:
        heap = heap_cls(c['size'])
        got = setup(heap)
        if got is None:
            return dict(obs=[], snap=snapshot(heap), setup_failed=True)
        if c['conc'].get('stale_pid'):
            heap._lastpid = -1          # as after fork(): os.getpid() != self._lastpid
        if c['conc'].get('fork'):
            # the threads run in a real forked child, on the heap object it inherited
            import json
            r, wfd = os.pipe()
            pid = os.fork()
            if pid == 0:
                code = 0
                try:
                    os.close(r)
                    out = run_threads(heap, got, c, snapshot, arena_index, blk)
                    os.write(wfd, json.dumps(out).encode())
                except BaseException:
                    code = 3
                finally:
                    os._exit(code)
            os.close(wfd)
            data = b''
            while True:
                chunk = os.read(r, 65536)
                if not chunk:
                    break
                data += chunk
            os.close(r)
            os.waitpid(pid, 0)
            if not data:
                return dict(obs=[], snap=None, stuck=True, events=[], trace=[], log=[], results=[],
                            got=[], child_died=True)
            return json.loads(data.decode())
        return run_threads(heap, got, c, snapshot, arena_index, blk)
    finally:
        bh.threading = saved


def run_threads(heap, got, c, snapshot, arena_index, blk):
    if True:
        s = Scheduler(heap, got, c['conc']['progs'], blk)
        CURRENT[0] = s
        try:
            s.run(c['conc']['sched'])
        finally:
            CURRENT[0] = None
        # blocks may live in arenas the heap no longer lists (re-initialisation): number them after the listed ones
        ix = arena_index(heap)
        extra = {}

        def b3(b):
            if b is None:
                return None
            a = ix.get(id(b[0]))
            if a is None:
                a = extra.setdefault(id(b[0]), -2 - len(extra))
            return [a, b[1], b[2]]
        log = []
        for tid, kind, opi in s.events:
            if kind == 'body' and 0 <= opi < len(s.workers[tid].prog) and s.workers[tid].prog[opi][0] == 'm':
                rs = s.workers[tid].results
                if opi < len(rs) and rs[opi][1] is not None:
                    log.append([tid, b3(rs[opi][1])])
        trace = [[t, k, i, op, (b3(x) if isinstance(x, tuple) else x)] for t, k, i, op, x in s.trace]
        try:
            snap = snapshot(heap)
        except KeyError:
            snap = None
        return dict(obs=[], snap=snap, events=[[t, k] for t, k, _ in s.events], trace=trace, log=log,
                    stuck=s.stuck, results=[[[r[0], b3(r[1]), r[2]] for r in w.results] for w in s.workers],
                    got=[b3(b) for b in got], foreign_arenas=len(extra),
                    live_raw=[b3(b) for b in heap._allocated_blocks])
