"""C16 driver: billiard's real Queue / JoinableQueue / SimpleQueue under harness/detsched.py.

stdin : JSON {"jobs": [job, ...]}
  job = {"kind": "queue"|"joinable"|"simple", "maxsize": int, "scripts": [[[cid, a0, a1, a2], ...], ...],
         "mode": "random", "seed": int, "n": int, "ptimeout": float}
      | {..., "mode": "replay", "sched": [[thread, go], ...]}
      | {..., "mode": "enumerate", "max_leaves": int}
  scripts: one per PAIR q: logical thread 2q = a main thread, 2q+1 = the feeder thread (Queue._feed) that main
  thread's call of Queue._start_thread starts.  "owners": [process of pair q, ...] (default: pair q is process q,
  one main thread per process); the main threads of one process share ONE queue object (buffer, _notempty,
  _thread), the queue objects of different processes come from __setstate__ (shared semaphores and pipe).  Call ids: 0 q_put(obj=a2, block=a1, timeout=a0)
  1 q_get  3 jq_put  4 jq_task_done  5 jq_join  6 sq_put  7 sq_get   (2 = the feeder itself)
  A message a2 >= 1000 of q_put / jq_put is put as an object that cannot be pickled.  A timed get
  reads the logical clock (`deadline - monotonic()`): the schedule decides whether its deadline has passed.
stdout: last line JSON {"records": [...], "truncated": [...]}
  record: kind maxsize scripts owners sched events callidx results fins vals pipe bufs pend end
"""
import json
import os
import pickle
import random
import sys

import detsched
from detsched import Scheduler, FakeCtx, E_ASSERT, E_VALUE, E_FULL, E_EMPTY, V_NONE
import c16_fakes
import c16_clients as cl

c16_fakes.install()
import billiard.queues as bq
from queue import Empty, Full

TIMEOUT = 1000.0


class FakeConn:
    """connection end whose transfer methods are the scheduler's pipe operations"""
    def __init__(self):
        self.send_bytes, self.recv_bytes, self.poll = c16_fakes.pipe_methods()
        self.send, self.recv = self.send_bytes, self.recv_bytes      # bound but unused by Queue

    def close(self):
        pass


class World:
    def __init__(self, kind, maxsize, nprocs, owners=None):
        owners = list(range(nprocs)) if owners is None else owners
        self.sched = s = Scheduler()
        ctx = FakeCtx()
        self.kind = kind
        self.queues = []
        if kind == 'simple':
            s.sid_plan = [1, 2]
            q = bq.SimpleQueue(ctx=ctx)
            q._reader = q._writer = FakeConn()
            self.queues = [q] * nprocs
            self.procq = {}
        else:
            cls = bq.Queue if kind == 'queue' else bq.JoinableQueue
            s.sid_plan = [1, 2, 0, 8, 9] + ([3, 4, 5, 6, 7] if kind == 'joinable' else [])
            q0 = cls(maxsize, ctx=ctx)
            q0._reader.close()
            q0._writer.close()
            q0._reader = q0._writer = FakeConn()
            self._bind_pipe(q0)
            self.procq = {0: q0}
            base = (q0._ignore_epipe, q0._maxsize, q0._reader, q0._writer,
                    q0._rlock, q0._wlock, q0._sem, q0._opid)
            for p in sorted(set(owners) - {0}):
                # what unpickling the queue in another process does: fresh buffer / _notempty / thread
                s.sid_plan = [8 + 2 * p, 9 + 2 * p]
                qp = cls.__new__(cls)
                if kind == 'joinable':
                    qp.__setstate__(base + (q0._cond, q0._unfinished_tasks))
                else:
                    qp.__setstate__(base)
                self._bind_pipe(qp)
                self.procq[p] = qp
            self.queues = [self.procq[owners[q]] for q in range(nprocs)]
        assert not s.sid_plan

    @staticmethod
    def _bind_pipe(q):
        q._send_bytes, q._recv_bytes, q._poll = c16_fakes.pipe_methods()

    def do_call(self, p, cid, a0, a1, a2):
        q = self.queues[p]
        to = TIMEOUT if a0 else None
        blk = bool(a1)
        if cid == 0:
            return cl.q_put(q, c16_fakes.message(a2), blk, to)
        if cid == 1:
            return cl.q_get(q, blk, to)
        if cid == 3:
            return cl.jq_put(q, c16_fakes.message(a2), blk, to)
        if cid == 4:
            return cl.jq_task_done(q)
        if cid == 5:
            return cl.jq_join(q)
        if cid == 6:
            return cl.sq_put(q, a2)
        if cid == 7:
            return cl.sq_get(q)
        raise RuntimeError('unknown call id %r' % cid)

    def body(self, p, script):
        def run(t):
            for n, (cid, a0, a1, a2) in enumerate(script):
                t.callidx = n
                try:
                    r = self.do_call(p, cid, a0, a1, a2)
                    r = V_NONE if r is None else int(r)
                except Full:
                    r = E_FULL
                except Empty:
                    r = E_EMPTY
                except AssertionError:
                    r = E_ASSERT
                except ValueError:
                    r = E_VALUE
                t.results.append(r)
        return run


def run_once(job, chooser):
    scripts = job['scripts']
    owners = job.get('owners') or list(range(len(scripts)))
    assert len(owners) == len(scripts) and all(0 <= p < len(scripts) for p in owners)
    w = World(job['kind'], job['maxsize'], len(scripts), owners)
    s = w.sched
    for p, sc in enumerate(scripts):
        s.spawn(w.body(p, [tuple(c) for c in sc]))
        f = s.spawn(None)
        f.dormant = True
    s.start_all()
    opts_at = []

    def ch(opts, n):
        opts_at.append(list(opts))
        return chooser(opts, n)
    end = s.run(ch)
    vals = {sm.sid: sm.value for sm in s.sems}
    nsem = 8 + 2 * len(scripts)
    dflt = [job['maxsize'], 1, 1, 0, 1, 0, 0, 0] + [1, 0] * len(scripts)   # semaphores this kind of queue does not create
    bufs = []
    for p in range(len(scripts)):
        q = w.procq.get(p)
        bufs.append([int(x) for x in getattr(q, '_buffer', [])] if q is not None else [])
    rec = dict(kind=job['kind'], maxsize=job['maxsize'], scripts=scripts, owners=owners,
               sched=[[i, bool(g)] for i, g in s.schedule],
               events=[list(e) for e in s.events], callidx=list(s.callidx),
               results=[list(t.results) for t in s.threads],
               fins=[bool(t.done) for t in s.threads],
               started=[not t.dormant for t in s.threads],
               vals=[vals.get(i, dflt[i]) for i in range(nsem)],
               pipe=[pickle.loads(m) for m in s.pipe], bufs=bufs,
               pend=s.pending_sems(), end=end)
    s.kill()
    return rec, opts_at


def random_chooser(rng, ptimeout):
    def ch(opts, n):
        gos = [o for o in opts if o[1]]
        tos = [o for o in opts if not o[1]]
        if tos and (not gos or rng.random() < ptimeout):
            return rng.choice(tos)
        return rng.choice(gos)
    return ch


def replay_chooser(sched):
    def ch(opts, n):
        if n >= len(sched):
            return None
        return (sched[n][0], bool(sched[n][1]))
    return ch


def enumerate_all(job):
    todo = [[]]
    out = []
    limit = job.get('max_leaves', 2000)
    truncated = False
    while todo:
        if len(out) >= limit:
            truncated = True
            break
        prefix = todo.pop(0) if job.get('order') == 'bfs' else todo.pop()

        def ch(opts, n, prefix=prefix):
            return prefix[n] if n < len(prefix) else opts[0]
        rec, opts_at = run_once(job, ch)
        out.append(rec)
        s = [tuple(x) for x in rec['sched']]
        for n in range(len(prefix), len(s)):
            for alt in opts_at[n][1:]:
                todo.append(s[:n] + [alt])
    return out, truncated


def preempt_all(job):
    """context-bounded schedules: the victim thread (default: thread 0) runs j of its steps
    (every j up to the length of its run), then is preempted; the other threads run, each until
    it blocks or finishes, in a fixed priority order (several orders are tried); the victim
    resumes only when nobody else can move"""
    import itertools
    nproc = len(job['scripts'])
    victim = job.get('victim', 0)
    mains = [2 * p for p in range(nproc) if 2 * p != victim]
    feeders = [2 * p + 1 for p in range(nproc)]
    orders = []
    for perm in itertools.permutations(mains):
        orders.append(feeders + list(perm))
        orders.append(list(perm) + feeders)
    out, seen = [], set()
    for order in orders[:job.get('max_orders', 8)]:
        j = 0
        while j <= 40:
            state = dict(v=0)

            def ch(opts, n, order=order, j=j, state=state):
                if state['v'] < j and (victim, True) in opts:
                    state['v'] += 1
                    return (victim, True)
                for idx in order:
                    if (idx, True) in opts:
                        return (idx, True)
                if (victim, True) in opts:
                    state['v'] += 1
                    return (victim, True)
                return opts[0]
            rec, _ = run_once(job, ch)
            key = json.dumps(rec['sched'])
            if key not in seen:
                seen.add(key)
                out.append(rec)
            if state['v'] < j:          # the victim has no j-th step
                break
            j += 1
    return out


def bounded_all(job):
    """ALL schedules with at most K preemptions (K = job['preemptions']): a preemption is a
    switch away from a thread that could have continued; switches at blocking/finishing points
    are free.  Stateless DFS: each run follows a prefix, then the non-preemptive default policy
    (keep the current thread while it is enabled, else the lowest enabled one)."""
    K = job.get('preemptions', 1)
    limit = job.get('max_leaves', 5000)
    todo = [([], 0)]
    out, truncated = [], False
    while todo:
        if len(out) >= limit:
            truncated = True
            break
        prefix, used = todo.pop()
        trace = []           # per step: (options, current thread before the step)

        def ch(opts, n, prefix=prefix, trace=trace):
            cur = trace[-1][2] if trace else None
            if n < len(prefix):
                c = prefix[n]
            else:
                c = (cur, True) if (cur, True) in opts else opts[0]
            trace.append((list(opts), cur, c[0]))
            return c
        rec, _ = run_once(job, ch)
        out.append(rec)
        s = [tuple(x) for x in rec['sched']]
        cost = used
        # cost of the prefix part is `used`; walk the free part and branch
        for n in range(len(prefix), len(s)):
            opts, cur, _ = trace[n]
            cur_enabled = cur is not None and any(o[0] == cur for o in opts)
            for alt in opts:
                if alt == s[n]:
                    continue
                c = 1 if (cur_enabled and alt[0] != cur) else 0
                if cost + c <= K:
                    todo.append((s[:n] + [alt], cost + c))
            # the default choice itself never preempts
    return out, truncated


def main():
    req = json.load(sys.stdin)
    records = []
    truncated = []
    for j, job in enumerate(req['jobs']):
        mode = job['mode']
        if mode == 'random':
            rng = random.Random(job['seed'])
            for _ in range(job['n']):
                rec, _ = run_once(job, random_chooser(rng, job.get('ptimeout', 0.25)))
                rec['job'] = j
                records.append(rec)
        elif mode == 'replay':
            rec, _ = run_once(job, replay_chooser(job['sched']))
            rec['job'] = j
            records.append(rec)
        elif mode == 'preempt':
            for rec in preempt_all(job):
                rec['job'] = j
                records.append(rec)
        elif mode == 'bounded':
            recs, trunc = bounded_all(job)
            for rec in recs:
                rec['job'] = j
            records.extend(recs)
            if trunc:
                truncated.append(j)
        elif mode == 'enumerate':
            recs, trunc = enumerate_all(job)
            for rec in recs:
                rec['job'] = j
            records.extend(recs)
            if trunc:
                truncated.append(j)
        else:
            raise RuntimeError('unknown mode %r' % mode)
    print(json.dumps(dict(records=records, truncated=truncated)))
    sys.stdout.flush()
    os._exit(0)


if __name__ == '__main__':
    main()
