"""Drive the real billiard.connection.Connection with an oracle-controlled OS.

The real `Connection._send` / `Connection._recv` loops run unchanged; only their
default-argument seams `write=` / `read=` are replaced by functions that follow a
script (short write / short read of k bytes, EINTR, I/O error) and otherwise move
the bytes through a real pipe, a real socket pair, or an in-memory buffer.

stdin: JSON list of cases; stdout (last line): JSON list of observations.
Case:  transport pipe|socket|mem, sflags [readable, writable], wo (write script),
       sops (sender operations), extra (raw bytes appended to the wire),
       cut (null | number of bytes after which the peer closes),
       rflags, ro (read script), rops (receiver operations).
A case {"probe": "huge"|"objects", ...} runs a direct check instead.
"""
import array
import ctypes
import errno
import json
import mmap
import os
import socket
import struct
import sys
import threading

from billiard.connection import Connection
from billiard import BufferTooShort

RAWMAX = 128
_pat_cache = {}


def pat(n, a, b):
    key = (n, a, b)
    if key not in _pat_cache:
        if len(_pat_cache) > 64:
            _pat_cache.clear()
        _pat_cache[key] = bytes(((((i + a) * (i + a)) >> 6) + b * i) & 255 for i in range(n))
    return _pat_cache[key]


def expand(spec):
    if spec[0] == 'raw':
        return bytes(spec[1])
    if spec[0] == 'pat':
        return pat(spec[1], spec[2], spec[3])
    raise ValueError(spec)


def blob(b):
    b = bytes(b)
    if len(b) <= RAWMAX:
        return ['raw', list(b)]
    s1 = sum(b)
    s2 = sum((i + 1) * x for i, x in enumerate(b))
    return ['dig', len(b), s1, s2]


OSERR = {'handle is closed': 101, 'connection is write-only': 102,
         'connection is read-only': 103, 'bad message length': 104,
         'got end of file during message': 105}
VALERR = {'offset is negative': 201, 'buffer length < offset': 202, 'size is negative': 203,
          'buffer length < offset + size': 204, 'negative maxlength': 205,
          'negative offset': 206, 'offset too large': 207}


def classify(exc):
    """exception -> (code, carried bytes).  Hundreds digit = exception class."""
    if isinstance(exc, BufferTooShort):
        data = exc.args[0] if exc.args and isinstance(exc.args[0], (bytes, bytearray)) else b''
        return 501, data
    if isinstance(exc, EOFError):
        return 301, b''
    if isinstance(exc, struct.error):
        return 401, b''
    if isinstance(exc, ValueError):
        return VALERR.get(str(exc), 200), b''
    if isinstance(exc, OSError):
        if getattr(exc, 'errno', None) in (errno.EPIPE, errno.ECONNRESET) \
                and getattr(exc, 'injected', False):
            return 106, b''
        return OSERR.get(str(exc), 100), b''
    if isinstance(exc, Runaway):
        return 701, b''
    if isinstance(exc, TypeError):
        return (601 if '0-dim memory has no length' in str(exc) else 600), b''
    return 900, repr(exc).encode()[:60]


class Runaway(RuntimeError):
    """the write-all loop keeps calling write() although nothing is left to write"""


def injected(code):
    e = OSError(code, os.strerror(code))
    e.injected = True
    return e


class OConn(Connection):
    """real Connection; only the OS primitives handed to _send/_recv are scripted"""

    def setup(self, wo=(), ro=(), mem_out=None, mem_in=None, nops=1):
        self.wo = list(wo)
        self.ro = list(ro)
        # a correct loop makes at most one call per script entry plus a few per
        # operation; far beyond that the loop is running away (bounded, reported)
        self.max_calls = 4 * (len(self.wo) + len(self.ro) + 8 * (nops + 1)) + 64
        self.wtrace = []             # BYTES offered at each write() call
        self.wfree = []              # per call: True when the script was already used up
        self.send_start = 0
        self.rtrace = []
        self.accepted = bytearray()
        self.consumed = 0
        self.mem_out = mem_out       # bytearray or None (real fd)
        self.mem_in = mem_in         # [bytes, pos] or None (real fd)
        return self

    def _w(self, fd, buf):
        # os.write() takes any C-contiguous buffer and writes its BYTES, whatever
        # its shape; len(buf) would be the first dimension
        mv = buf if isinstance(buf, memoryview) else memoryview(buf)
        nb = mv.nbytes
        if len(self.wtrace) - self.send_start >= self.max_calls:
            # keep what a terminating observer can see of this _send call: the calls
            # answered by the script, and the first cooperative call if it moved bytes
            i = self.send_start
            while i < len(self.wfree) and not self.wfree[i]:
                i += 1
            keep = i + 1 if i < len(self.wtrace) and self.wtrace[i] > 0 else i
            del self.wtrace[keep:]
            del self.wfree[keep:]
            raise Runaway('runaway _send loop')
        self.wtrace.append(nb)
        r = self.wo.pop(0) if self.wo else None
        self.wfree.append(r is None)
        if r is not None and r[0] == 'i':
            raise OSError(errno.EINTR, 'Interrupted system call')
        if r is not None and r[0] == 'e':
            raise injected(errno.EPIPE)
        k = nb if r is None else min(max(1, r[1]), nb)
        if mv.ndim == 1 and mv.itemsize == 1:
            data = bytes(mv[:k])
        else:
            data = mv.tobytes()[:k]
        if self.mem_out is not None:
            self.mem_out += data
        else:
            done = 0
            while done < len(data):
                done += os.write(fd, data[done:])
        self.accepted += data
        return k

    def _r(self, fd, remaining):
        if len(self.rtrace) >= self.max_calls:
            raise RuntimeError('runaway _recv loop')
        self.rtrace.append(remaining)
        r = self.ro.pop(0) if self.ro else None
        if r is not None and r[0] == 'i':
            raise OSError(errno.EINTR, 'Interrupted system call')
        if r is not None and r[0] == 'e':
            raise injected(errno.ECONNRESET)
        want = remaining if r is None else min(max(1, r[1]), remaining)
        if self.mem_in is not None:
            data, pos = self.mem_in
            out = data[pos:pos + want]
            self.mem_in[1] = pos + len(out)
        else:
            out = b''
            while len(out) < want:
                c = os.read(fd, want - len(out))
                if not c:
                    break
                out += c
        self.consumed += len(out)
        return out

    def _send(self, buf):
        self.send_start = len(self.wtrace)
        return Connection._send(self, buf, write=self._w)

    def _recv(self, size):
        return Connection._recv(self, size, read=self._r)


def flags(c):
    return [bool(c.closed), bool(c.readable), bool(c.writable)]


CT = {1: ctypes.c_ubyte, 2: ctypes.c_uint16, 4: ctypes.c_uint32, 8: ctypes.c_uint64}
TC = {1: 'B', 2: 'H', 4: 'I', 8: 'Q'}


def make_shaped(data, how, it, shape):
    """a C-contiguous buffer object with the given item size and shape over `data`"""
    shape = list(shape)
    if how == 'ctypes':                   # nested ctypes arrays (a scalar for shape [])
        t = CT[it]
        for d in reversed(shape):
            t = t * d
        buf = t.from_buffer_copy(data) if len(data) else t()
    else:
        base = {'mvcast': bytes, 'bytearraycast': bytearray,
                'arraycast': lambda d: array.array('B', bytes(d))}[how](data)
        buf = memoryview(base)
        if it > 1 or len(shape) != 1:
            buf = buf.cast(TC[it], shape=shape) if it > 1 else buf.cast('B', shape=shape)
    m = memoryview(buf)
    if not (m.itemsize == it and list(m.shape) == shape and m.nbytes == len(data) and m.c_contiguous):
        raise AssertionError('harness: built %r, wanted item %d shape %r' % (m, it, shape))
    return buf


def make_buf(data, kind):
    if isinstance(kind, list):           # ['shaped', how, itemsize, shape]
        return make_shaped(data, kind[1], kind[2], kind[3])
    if kind == 'bytes':
        return data
    if kind == 'bytearray':
        return bytearray(data)
    if kind == 'memoryview':
        return memoryview(data)
    if kind == 'array':          # items wider than one byte: send_bytes re-views them as bytes
        tc = 'H' if len(data) % 2 == 0 else 'B'
        a = array.array(tc)
        a.frombytes(data)
        return a
    raise ValueError(kind)


ITEM = {1: None, 2: 'H', 4: 'I', 8: 'Q'}


def channel(transport):
    """-> (read fd, write fd)"""
    if transport == 'pipe':
        return os.pipe()
    if transport == 'socket':
        a, b = socket.socketpair()
        return a.detach(), b.detach()
    raise ValueError(transport)


def run_sender(c):
    mem = c['transport'] == 'mem'
    captured = bytearray()
    pump = None
    if mem:
        wfd = os.open('/dev/null', os.O_RDWR)
        mem_out = captured
    else:
        rfd, wfd = channel(c['transport'])
        mem_out = None

        def drain():
            while True:
                d = os.read(rfd, 1 << 16)
                if not d:
                    break
                captured.extend(d)
            os.close(rfd)
        pump = threading.Thread(target=drain)
        pump.start()
    conn = OConn(wfd, readable=c['sflags'][0], writable=c['sflags'][1]).setup(wo=c['wo'], mem_out=mem_out, nops=len(c['sops']))
    obs = []
    try:
        for op in c['sops']:
            code = 0
            try:
                if op[0] == 'close':
                    conn.close()
                else:
                    _, spec, kind, off, size = op
                    conn.send_bytes(make_buf(expand(spec), kind), off, size)
            except BaseException as exc:    # noqa
                code, _ = classify(exc)
            obs.append([code, flags(conn)])
    finally:
        conn.close()
        if pump:
            pump.join()
    wire = bytes(captured)
    sane = wire == bytes(conn.accepted)
    return obs, wire, conn.wtrace, sane


def run_receiver(c, stream):
    mem = c['transport'] == 'mem'
    feeder = None
    if mem:
        rfd = os.open('/dev/null', os.O_RDWR)
        mem_in = [stream, 0]
    else:
        rfd, wfd = channel(c['transport'])
        mem_in = None

        def feed():
            try:
                done = 0
                while done < len(stream):
                    done += os.write(wfd, stream[done:done + (1 << 16)])
            except OSError:
                pass
            finally:
                os.close(wfd)
        feeder = threading.Thread(target=feed)
        feeder.start()
    conn = OConn(rfd, readable=c['rflags'][0], writable=c['rflags'][1]).setup(ro=c['ro'], mem_in=mem_in, nops=len(c['rops']))
    obs = []
    sane = True
    try:
        for op in c['rops']:
            code, data, ret, bufafter = 0, b'', -1, b''
            try:
                if op[0] == 'close':
                    conn.close()
                elif op[0] == 'recv':
                    data = conn.recv_bytes(op[1])
                    if not isinstance(data, bytes):
                        code, data = 900, repr(type(data)).encode()
                else:
                    spec, it, off = op[1], op[2], op[3]
                    raw = expand(spec)
                    if len(op) > 4:            # ['into', spec, it, off, how, shape]: a shaped buffer
                        buf = make_shaped(bytearray(raw) if op[4] != 'ctypes' else raw, op[4], it, op[5])
                    elif ITEM[it] is None:
                        buf = bytearray(raw)
                    else:
                        buf = array.array(ITEM[it])
                        assert buf.itemsize == it
                        buf.frombytes(raw)
                    try:
                        ret = conn.recv_bytes_into(buf, off)
                    finally:
                        bufafter = memoryview(buf).tobytes()
            except BaseException as exc:    # noqa
                code, data = classify(exc)
                ret = -1
            obs.append([code, blob(data), ret, blob(bufafter), flags(conn)])
    finally:
        left = len(stream) - conn.consumed
        if not conn.closed and not mem:
            # whatever the connection did not read must still be in the channel
            rest = 0
            while True:
                d = os.read(rfd, 1 << 16)
                if not d:
                    break
                rest += len(d)
            sane = rest == left
        conn.close()
        if feeder:
            feeder.join()
    return obs, left, conn.rtrace, sane


def probe_badlen(c):
    """a real pipe / socket pair: a message longer than recv_bytes(maxlength) allows.  Afterwards the
    receiving end refuses further receives BEFORE any I/O: a one-way reader is closed (and says so), a
    duplex end is no longer readable; nothing addressed to another descriptor is ever delivered by it"""
    import billiard.connection as bc
    duplex = bool(c.get('duplex'))
    r, w = bc.Pipe(duplex=duplex)
    out = dict(ok=True, err=None, duplex=duplex)
    try:
        w.send_bytes(b'x' * c.get('n', 100))
        try:
            r.recv_bytes(c.get('maxlength', 10))
            out.update(ok=False, err='an over-limit message was delivered')
            return out
        except OSError as exc:
            out['first'] = str(exc)
        out['closed'] = bool(r.closed)
        out['readable'] = bool(r._readable)
        # a new descriptor that may reuse the number the dead reader held, with a message of its own
        r2, w2 = bc.Pipe(duplex=False)
        w2.send_bytes(b'message for somebody else')
        import signal

        class _Blocked(Exception):
            pass

        def _on_alarm(signum, frame):
            raise _Blocked()
        prev = signal.signal(signal.SIGALRM, _on_alarm)
        signal.alarm(3)
        try:
            got = r.recv_bytes()
            out.update(ok=False, err='the connection that refused an over-limit message later delivered %r' % got[:40])
        except _Blocked:
            out.update(ok=False, err='the connection that refused an over-limit message later blocks in a read (it did not refuse before any I/O)')
        except (OSError, EOFError, ValueError) as exc:
            out['second'] = '%s: %s' % (type(exc).__name__, exc)
        finally:
            signal.alarm(0)
            signal.signal(signal.SIGALRM, prev)
        if out['ok']:
            prev = signal.signal(signal.SIGALRM, _on_alarm)
            signal.alarm(3)
            try:
                other = r2.recv_bytes()
                if other != b'message for somebody else':
                    out.update(ok=False, err='another pipe lost its message: %r' % other[:40])
            except _Blocked:
                out.update(ok=False, err='another pipe never delivers its own message')
            except Exception as exc:      # noqa
                out.update(ok=False, err='another pipe could not deliver its own message: %s' % type(exc).__name__)
            finally:
                signal.alarm(0)
                signal.signal(signal.SIGALRM, prev)
        if out['ok'] and not duplex and not out['closed']:
            out.update(ok=False, err='a one-way reader that met an over-limit message reports closed=False (readable=%s)' % out['readable'])
        if out['ok'] and duplex and out['readable']:
            out.update(ok=False, err='a duplex end that met an over-limit message is still readable')
    except Exception as exc:      # noqa
        out.update(ok=False, err='probe raised %s: %s' % (type(exc).__name__, exc))
    return out


def probe_huge(c):
    """a buffer longer than the header can express: must raise before any write()"""
    n = c['n']
    wfd = os.open('/dev/null', os.O_RDWR)
    conn = OConn(wfd, readable=False, writable=True).setup(mem_out=bytearray())
    buf = mmap.mmap(-1, n)          # anonymous zero pages, never touched
    code = 0
    try:
        conn.send_bytes(buf, c.get('off', 0), c.get('size'))
    except BaseException as exc:    # noqa
        code, _ = classify(exc)
    out = dict(code=code, writes=len(conn.wtrace), wire=len(conn.accepted), flags=flags(conn))
    conn.close()
    try:
        buf.close()
    except BufferError:
        pass
    return out


def probe_objects(c):
    """send()/recv() of picklable objects over the scripted OS: order and equality"""
    rfd, wfd = os.pipe()
    objs = [expand(['pat'] + s['__pat__']) if isinstance(s, dict) and '__pat__' in s else s
            for s in c['objs']]
    tx = OConn(wfd, readable=False, writable=True).setup(wo=c['wo'], nops=2 * len(objs))
    rx = OConn(rfd, readable=True, writable=False).setup(ro=c['ro'], nops=2 * len(objs))
    got = []

    def sender():
        try:
            for o in objs:
                tx.send(o)
        except BaseException:    # noqa -- the receiver then sees a short stream and reports it
            pass
        finally:
            tx.close()
    t = threading.Thread(target=sender)
    t.start()
    err = None
    try:
        for _ in objs:
            got.append(rx.recv())
        try:
            rx.recv()
            err = 'no EOFError after the last object'
        except EOFError:
            pass
    except BaseException as exc:    # noqa
        err = repr(exc)
    rx.close()
    t.join()
    return dict(ok=(err is None and got == objs), err=err, n=len(objs))


def run_case(c):
    if c.get('probe') == 'badlen':
        return probe_badlen(c)
    if c.get('probe') == 'huge':
        return probe_huge(c)
    if c.get('probe') == 'objects':
        return probe_objects(c)
    sobs, wire, wtrace, sane1 = run_sender(c)
    full = wire + expand(c['extra'])
    stream = full if c['cut'] is None else full[:max(0, c['cut'])]
    robs, left, rtrace, sane2 = run_receiver(c, stream)
    return dict(sobs=sobs, wire=blob(wire), wtrace=wtrace, robs=robs, left=left,
                rtrace=rtrace, sane=bool(sane1 and sane2))


if __name__ == '__main__':
    import resource
    resource.setrlimit(resource.RLIMIT_AS, (12 << 30, 12 << 30))     # a runaway mutant must not eat the machine
    cases = json.load(sys.stdin)
    out = [run_case(c) for c in cases]
    print(json.dumps(out))
