"""importable task functions for the real-pool scenario of C03 (harness/worker_driver.py, kind "real")"""
import time


def slow(t):
    time.sleep(t)
    return 0


def double(x):
    return 2 * x
