"""child-process targets of harness/sharedmem_driver.py (importable, so that spawn/forkserver
children can unpickle them)"""


def child_visibility(v, arr, raw, conn_c):
    seen = [v.value, list(arr), raw.value]
    v.value = 77
    arr[2] = 1.5
    raw.value = -9
    conn_c.send(seen)
    conn_c.recv()                      # the parent wrote again
    conn_c.send([v.value, list(arr), raw.value])
    conn_c.close()


def child_incr(v, n, locked):
    for _ in range(n):
        if locked:
            with v.get_lock():
                v.value += 1
        else:
            v.value += 1


# ---- chains: every level works on the object it received and hands it on to a process it starts itself
def snapshot(obj):
    import ctypes
    raw = obj.get_obj() if hasattr(obj, 'get_obj') else obj
    return list(raw) if isinstance(raw, ctypes.Array) else raw.value


def act(obj, level, n):
    """n times: value += level  /  every element j += level * (j + 1); under the object's lock if it has one"""
    import ctypes
    sync = hasattr(obj, 'get_lock')
    raw = obj.get_obj() if sync else obj
    if isinstance(raw, ctypes.Array):
        for _ in range(n):
            for j in range(len(raw)):
                if sync:
                    with obj.get_lock():
                        obj[j] += level * (j + 1)
                else:
                    obj[j] += level * (j + 1)
    else:
        for _ in range(n):
            if sync:
                with obj.get_lock():
                    obj.value += level
            else:
                obj.value += level


def chain_level(level, depth, method, obj, conn, n):
    import os
    rep = dict(level=level, pid=os.getpid())
    try:
        rep['saw'] = snapshot(obj)
        act(obj, level, n)
        rep['wrote'] = snapshot(obj)
        if level < depth:
            import billiard
            ctx = billiard.get_context(method)
            pc, cc = ctx.Pipe()
            p = ctx.Process(target=chain_level, args=(level + 1, depth, method, obj, cc, n))
            try:
                p.start()
            except Exception as exc:
                rep['start_error'] = '%s: %s' % (type(exc).__name__, str(exc)[:300])
            else:
                cc.close()
                try:
                    rep['sub'] = pc.recv() if pc.poll(60) else None
                except EOFError:
                    rep['sub'] = None
                p.join(30)
                rep['exitcode'] = p.exitcode
        rep['after'] = snapshot(obj)
    except Exception as exc:
        rep['error'] = '%s: %s' % (type(exc).__name__, str(exc)[:300])
    conn.send(rep)
    conn.close()


# ---- the owner drops its reference while the child still uses the object
class Holder:
    """carries a shared object into the child; the parent can drop the object without dropping the holder"""
    obj = None


def orphan_child(holder, conn, store):
    try:
        obj = holder.obj
        conn.send(snapshot(obj))
        conn.recv()                    # the parent dropped its reference and allocated another object
        seen = snapshot(obj)
        import ctypes
        raw = obj.get_obj() if hasattr(obj, 'get_obj') else obj
        if isinstance(raw, ctypes.Array):
            for j in range(len(raw)):
                raw[j] = store
        else:
            raw.value = store
        conn.send(seen)
        conn.recv()
    except Exception as exc:
        conn.send('error %s: %s' % (type(exc).__name__, str(exc)[:200]))
    conn.close()
