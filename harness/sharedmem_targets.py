"""child-process targets of harness/sharedmem_driver.py (importable, so that spawn/forkserver
children can unpickle them)"""


def child_visibility(v, arr, raw, conn_c):
    seen = [v.value, list(arr), raw.value]
    v.value = 77
    arr[2] = 1.5
    raw.value = -9
    conn_c.send(seen)
    conn_c.recv()                      # the parent wrote again
    conn_c.send([v.value, list(arr), raw.value])
    conn_c.close()


def child_incr(v, n, locked):
    for _ in range(n):
        if locked:
            with v.get_lock():
                v.value += 1
        else:
            v.value += 1


# ---- chains: every level works on the object it received and hands it on to a process it starts itself
def snapshot(obj):
    import ctypes
    raw = obj.get_obj() if hasattr(obj, 'get_obj') else obj
    return list(raw) if isinstance(raw, ctypes.Array) else raw.value


def act(obj, level, n):
    """n times: value += level  /  every element j += level * (j + 1); under the object's lock if it has one"""
    import ctypes
    sync = hasattr(obj, 'get_lock')
    raw = obj.get_obj() if sync else obj
    if isinstance(raw, ctypes.Array):
        for _ in range(n):
            for j in range(len(raw)):
                if sync:
                    with obj.get_lock():
                        obj[j] += level * (j + 1)
                else:
                    obj[j] += level * (j + 1)
    else:
        for _ in range(n):
            if sync:
                with obj.get_lock():
                    obj.value += level
            else:
                obj.value += level


def chain_level(level, depth, method, obj, conn, n):
    import os
    rep = dict(level=level, pid=os.getpid())
    try:
        rep['saw'] = snapshot(obj)
        act(obj, level, n)
        rep['wrote'] = snapshot(obj)
        if level < depth:
            import billiard
            ctx = billiard.get_context(method)
            pc, cc = ctx.Pipe()
            p = ctx.Process(target=chain_level, args=(level + 1, depth, method, obj, cc, n))
            try:
                p.start()
            except Exception as exc:
                rep['start_error'] = '%s: %s' % (type(exc).__name__, str(exc)[:300])
            else:
                cc.close()
                try:
                    rep['sub'] = pc.recv() if pc.poll(60) else None
                except EOFError:
                    rep['sub'] = None
                p.join(30)
                rep['exitcode'] = p.exitcode
        rep['after'] = snapshot(obj)
    except Exception as exc:
        rep['error'] = '%s: %s' % (type(exc).__name__, str(exc)[:300])
    conn.send(rep)
    conn.close()


# ---- the owner drops its reference while the child still uses the object
class Holder:
    """carries a shared object into the child; the parent can drop the object without dropping the holder"""
    obj = None


def orphan_child(holder, conn, store):
    try:
        obj = holder.obj
        conn.send(snapshot(obj))
        conn.recv()                    # the parent dropped its reference and allocated another object
        seen = snapshot(obj)
        import ctypes
        raw = obj.get_obj() if hasattr(obj, 'get_obj') else obj
        if isinstance(raw, ctypes.Array):
            for j in range(len(raw)):
                raw[j] = store
        else:
            raw.value = store
        conn.send(seen)
        conn.recv()
    except Exception as exc:
        conn.send('error %s: %s' % (type(exc).__name__, str(exc)[:200]))
    conn.close()


# ---- forked by the thread that HOLDS the object's lock: the child's locked updates must wait for the parent
def incr_all(obj):
    """one read-modify-write of the whole object (every element of an array), no locking here"""
    import ctypes
    raw = obj.get_obj() if hasattr(obj, 'get_obj') else obj
    if isinstance(raw, ctypes.Array):
        for j in range(len(raw)):
            raw[j] += 1
    else:
        raw.value += 1


def forklock_child(obj, lock, idx, n, wfd, through_wrapper):
    """first: what this process's copy of the lock says and one NON-blocking attempt (reported at once, the parent is
    still inside its `with lock:`); then n locked updates `with lock: obj.value += 1`"""
    import json
    import os
    import time

    def emit(rec):
        os.write(wfd, (json.dumps(rec) + '\n').encode())
    try:
        lk = obj.get_lock() if lock is None else lock
        sl = lk._semlock
        rec = dict(id=idx, ev='tried', count=sl._count(), is_mine=bool(sl._is_mine()))
        got = lk.acquire(False)
        rec['got'] = bool(got)
        if got:
            lk.release()
        emit(rec)
        first = None
        for _ in range(n):
            with lk:
                if first is None:
                    first = time.monotonic()
                if through_wrapper:
                    obj.value += 1          # the generated, lock-wrapped accessors (recursive lock)
                else:
                    incr_all(obj)
        emit(dict(id=idx, ev='done', first_update=first, updates=n))
    except BaseException as exc:          # noqa  (reported; the process exits through Popen._launch)
        emit(dict(id=idx, ev='done', error='%s: %s' % (type(exc).__name__, str(exc)[:200])))
