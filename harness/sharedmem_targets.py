"""child-process targets of harness/sharedmem_driver.py (importable, so that spawn/forkserver
children can unpickle them)"""


def child_visibility(v, arr, raw, conn_c):
    seen = [v.value, list(arr), raw.value]
    v.value = 77
    arr[2] = 1.5
    raw.value = -9
    conn_c.send(seen)
    conn_c.recv()                      # the parent wrote again
    conn_c.send([v.value, list(arr), raw.value])
    conn_c.close()


def child_incr(v, n, locked):
    for _ in range(n):
        if locked:
            with v.get_lock():
                v.value += 1
        else:
            v.value += 1
