"""C20 driver for CONCURRENT clients: a real SyncManager server process, K real client processes
(started with fork / spawn / forkserver, the proxies handed over as Process arguments), inside every
client T threads that share the client's one proxy object (each thread gets its own connection
through the proxy's thread-local), all K*T workers released together.  Every worker records, in its
own program order, [op, argument, result | {'exc': class name}] and the client sends the records
back over a Pipe.  The driver reports facts only; the monitors live in props/c20conc.py.

stdin : JSON {"cases": [case ...]}
        case = {"kind": <scenario> | "suite", "kinds": [<scenario> ...] (suite only),
                "clients": K, "threads": T, "n": N, "method": "fork" | "spawn" | "forkserver",
                optional: "switchinterval": seconds (sys.setswitchinterval in the SERVER process, default
                1e-5; 0 = leave the interpreter's 5 ms), "scenario_timeout", "timeout"}
        One case = one manager + one set of K clients; the scenarios of a suite run one after the
        other on their own referents (all created before the clients start, every client holds a
        proxy to every referent of the case).
stdout: LAST line = JSON list, one observation per case:
        {"steps": [{"step": "created" | "started" | "after:<j>" | "exited" | "dropped",
                    "rc": {<referent name>: refcount ...}, "unknown": n, "numobj": n} ...],
         "names": [<referent name> ...],
         "scen": [{"kind", "workers": [{"tid", "rec", "t0", "t1"} ...], "final": ..., ...} ...],
         "exits": [exit code ...]}       (+ "error": text when the case could not be completed)

Scenarios (worker w = client * T + thread, W = K * T workers):
  list_append     w appends w*100000+i (i < N), now and then len()
  list_pop        list of W*N items; every worker pops (even w: pop(), odd w: pop(0)) until an exception
  dict_keys       distinct keys: d[k] = v, d.update({...}), read back
  dict_setdefault shared keys 0..N-1: setdefault(k, w)
  dict_pop        shared keys 0..N-1: pop(k)
  value_lock      N times `with lock: v.value = v.value + 1` (manager Lock)
  value_nolock    the same without the lock (information only: lost updates are allowed)
  queue           producers put w*100000+i in order, the parent gets W*N items meanwhile
  slots           Array / Namespace: every worker writes and reads back its own slot
  refcount        max(4, N // 4) times: copy the proxy (pickle round trip -> incref), call through the copy, drop
                  it (-> decref); the parent samples the refcounts through debug_info() meanwhile
"""
import gc
import json
import os
import pickle
import re
import signal
import sys
import threading
import time

KEY = b'verif-key'
MAIN_PID = os.getpid()
BIG = 100000
QUEUE_TIMEOUT = 60          # generous: the machine may be heavily loaded; only a lost item waits that long

SCENARIOS = ['list_append', 'list_pop', 'dict_keys', 'dict_setdefault', 'dict_pop', 'value_lock',
             'value_nolock', 'queue', 'slots', 'refcount']


def exc_obs(e):
    d = {'exc': type(e).__name__}
    if type(e).__name__ == 'RemoteError':          # the server's traceback: keep its last line
        lines = [ln for ln in str(e.args[0]).strip().split('\n') if ln.strip()]
        d['remote'] = lines[-1][:200] if lines else ''
    return d


# ------------------------------------------------------------------ what one worker does
def setup(m, kind, K, T, n):
    """-> [[role, proxy] ...] : the referents of one scenario (created by the parent)"""
    W = K * T
    if kind in ('list_append', 'refcount'):
        return [['l', m.list()]]
    if kind == 'list_pop':
        return [['l', m.list(list(range(W * n)))]]
    if kind in ('dict_keys', 'dict_setdefault'):
        return [['d', m.dict()]]
    if kind == 'dict_pop':
        return [['d', m.dict(dict((k, 3 * k + 1) for k in range(n)))]]
    if kind == 'value_lock':
        return [['v', m.Value('i', 0)], ['k', m.Lock()]]
    if kind == 'value_nolock':
        return [['v', m.Value('i', 0)]]
    if kind == 'queue':
        return [['q', m.Queue()]]
    if kind == 'slots':
        return [['a', m.Array('i', [0] * W)], ['s', m.Namespace()]]
    raise ValueError('unknown scenario %r' % (kind,))


def ref_reps(n):
    """iterations of the refcount scenario (one iteration = three connections to the server)"""
    return max(4, n // 4)


def attempt(rec, op, arg, fn):
    try:
        r = fn()
    except Exception as e:          # noqa
        r = exc_obs(e)
        rec.append([op, arg, r])
        return r, False
    rec.append([op, arg, r])
    return r, True


def work(kind, ob, w, W, n, rec):
    """the statements of worker w; ob: role -> proxy (shared by the threads of the client)"""
    if kind == 'list_append':
        l = ob['l']
        for i in range(n):
            x = w * BIG + i
            attempt(rec, 'append', x, lambda: l.append(x))
            if i % 8 == 7:
                attempt(rec, 'len', None, lambda: len(l))
    elif kind == 'list_pop':
        l = ob['l']
        for _ in range(W * n + 3):
            if w % 2:
                _, ok = attempt(rec, 'pop', 0, lambda: l.pop(0))
            else:
                _, ok = attempt(rec, 'pop', None, lambda: l.pop())
            if not ok:
                break
    elif kind == 'dict_keys':
        d = ob['d']
        for i in range(n):
            k = w * BIG + i
            v = 7 * k + 1
            if i % 3 == 0:
                attempt(rec, 'update', [k, -k - 1], lambda: d.update({k: v, -k - 1: v + 1}))
            else:
                attempt(rec, 'setitem', k, lambda: d.__setitem__(k, v))
            if i % 4 == 1:
                attempt(rec, 'getitem', k, lambda: d[k])
            elif i % 4 == 3:
                attempt(rec, 'get', k, lambda: d.get(k))
    elif kind == 'dict_setdefault':
        d = ob['d']
        for i in range(n):
            k = (i + w * n // W) % n          # (every worker starts at another key: different winners)
            attempt(rec, 'setdefault', k, lambda: d.setdefault(k, w))
    elif kind == 'dict_pop':
        d = ob['d']
        for i in range(n):
            k = (i + w * n // W) % n
            attempt(rec, 'pop', k, lambda: d.pop(k))
    elif kind == 'value_lock':
        v, lk = ob['v'], ob['k']

        def inc():
            with lk:
                r = v.value
                v.value = r + 1
            return r
        for _ in range(n):
            attempt(rec, 'inc', None, inc)
    elif kind == 'value_nolock':
        v = ob['v']

        def inc2():
            r = v.value
            v.value = r + 1
            return r
        for _ in range(n):
            attempt(rec, 'inc', None, inc2)
    elif kind == 'queue':
        q = ob['q']
        for i in range(n):
            x = w * BIG + i
            attempt(rec, 'put', x, lambda: q.put(x))
    elif kind == 'slots':
        a, s = ob['a'], ob['s']
        name = 's%d' % w
        for i in range(1, n + 1):
            attempt(rec, 'aset', i, lambda: a.__setitem__(w, i))
            attempt(rec, 'aget', None, lambda: a[w])
            attempt(rec, 'nset', i, lambda: setattr(s, name, i))
            attempt(rec, 'nget', None, lambda: getattr(s, name))
    elif kind == 'refcount':
        l = ob['l']

        def churn(x):
            c = pickle.loads(pickle.dumps(l))      # RebuildProxy -> incref in the server
            try:
                c.append(x)
            finally:
                del c                              # last reference: Finalize -> BaseProxy._decref
                gc.collect()
        for i in range(ref_reps(n)):
            x = w * BIG + i
            attempt(rec, 'copy-append-drop', x, lambda: churn(x))
            if i % 5 == 4:
                attempt(rec, 'len', None, lambda: len(l))
    else:
        raise ValueError('unknown scenario %r' % (kind,))


def worker_thread(kind, ob, w, W, n, go, slot):
    rec = []
    slot['rec'] = rec
    slot['tid'] = w
    if not go.wait(300):
        slot['crash'] = 'never released'
        return
    slot['t0'] = time.monotonic()
    try:
        work(kind, ob, w, W, n, rec)
    except BaseException as e:          # noqa  (a fault of the harness or of the proxy machinery)
        slot['crash'] = '%s: %s' % (type(e).__name__, str(e)[:300])
    slot['t1'] = time.monotonic()


def conc_client(conn, cid, held, K, T, n):
    """a client process; held = [[scenario index, role, proxy] ...] (Process argument / inherited)"""
    # a forked client inherits the driver's heap: keep it out of the collections the workers ask for
    # (cost of gc.collect(), copy-on-write of every page the collector touches)
    gc.freeze()
    try:
        while True:
            cmd = conn.recv()
            if cmd[0] == 'ping':
                conn.send(['ok', len(held)])
            elif cmd[0] == 'prep':
                _, j, kind = cmd
                ob = dict((role, p) for jj, role, p in held if jj == j)
                go = threading.Event()
                slots = [dict() for _ in range(T)]
                ths = [threading.Thread(target=worker_thread, args=(kind, ob, cid * T + t, K * T, n, go, slots[t]))
                       for t in range(T)]
                for th in ths:
                    th.daemon = True
                    th.start()
                conn.send(['ready'])
                if conn.recv()[0] != 'go':
                    raise RuntimeError('expected go')
                go.set()
                for th in ths:
                    th.join()
                ob = None
                conn.send(['done', slots])
            elif cmd[0] == 'exit':          # orderly: the exit handlers finalise every proxy
                conn.send(['ok'])
                conn.close()
                sys.exit(0)
    except (EOFError, OSError):
        sys.exit(3)


# ------------------------------------------------------------------------ one case
def run_case(case):
    import billiard
    from billiard import process
    from billiard.managers import SyncManager
    import mgr_conc_driver                      # spawn / forkserver targets live in a module
    process.current_process().authkey = KEY
    K, T, n, method = case['clients'], case['threads'], case['n'], case['method']
    kinds = case['kinds'] if case['kind'] == 'suite' else [case['kind']]
    W = K * T
    out = dict(steps=[], scen=[], exits=[], names=[], wall=[])
    tw = [time.monotonic()]

    def lap(what):
        now = time.monotonic()
        out['wall'].append([what, round(now - tw[0], 3)])
        tw[0] = now
    m = SyncManager(authkey=KEY)
    # the server's threads switch far more often than every 5 ms: more interleavings inside the
    # server per operation (scheduling only; the code under test is unchanged)
    sw = case.get('switchinterval', 1e-5)
    if sw:
        m.start(initializer=sys.setswitchinterval, initargs=(sw,))
    else:
        m.start()
    kids = []
    refs = []             # [scenario index, role, proxy]
    ident = {}            # server ident -> referent name

    def counts(step):
        ents = re.findall(r'^  (\w+):\s+refcount=(-?\d+)\n', m._debug_info() + '\n', re.M)
        rc = {}
        unknown = 0
        for i, c in ents:
            if i in ident:
                rc[ident[i]] = int(c)
            else:
                unknown += 1
        return dict(step=step, rc=rc, unknown=unknown, numobj=m._number_of_objects())

    def ask(c, want, timeout=120):
        if not c.poll(timeout):
            raise RuntimeError('client does not answer (waiting for %r)' % (want,))
        r = c.recv()
        if r[0] != want:
            raise RuntimeError('client answered %r instead of %r' % (r[0], want))
        return r

    try:
        for j, kind in enumerate(kinds):
            for role, p in setup(m, kind, K, T, n):
                name = '%d.%s' % (j, role)
                refs.append([j, role, p])
                ident[p._token.id] = name
                out['names'].append(name)
                p = None
        out['steps'].append(counts('created'))
        lap('manager+referents')
        ctx = billiard.get_context(method)
        for cid in range(K):
            a, b = ctx.Pipe(duplex=True)
            held = [list(r) for r in refs]
            pr = ctx.Process(target=mgr_conc_driver.conc_client, args=(b, cid, held, K, T, n))
            pr.daemon = True
            pr.start()
            del held[:]               # (billiard keeps Process._args alive in the parent)
            b.close()
            kids.append((pr, a))
        for pr, c in kids:
            c.send(['ping'])
        for pr, c in kids:
            if ask(c, 'ok', 180)[1] != len(refs):
                raise RuntimeError('client holds a wrong number of proxies')
        out['steps'].append(counts('started'))
        lap('clients started')

        for j, kind in enumerate(kinds):
            ob = dict((role, p) for jj, role, p in refs if jj == j)
            sc = dict(kind=kind)
            out['scen'].append(sc)
            for pr, c in kids:
                c.send(['prep', j, kind])
            for pr, c in kids:
                ask(c, 'ready')
            for pr, c in kids:        # all W workers are blocked on their Event: release them together
                c.send(['go'])
            sc['tgo'] = time.monotonic()
            # what the parent does meanwhile
            if kind == 'queue':
                got = []
                for _ in range(W * n):
                    try:
                        got.append(ob['q'].get(True, QUEUE_TIMEOUT))
                    except Exception as e:          # noqa
                        got.append(exc_obs(e))
                        break
                sc['got'] = got
            pending = list(range(K))
            replies = [None] * K
            samples = []
            deadline = time.monotonic() + case.get('scenario_timeout', 150)
            while pending:
                if kind == 'refcount':
                    samples.append(counts('sample')['rc'].get('%d.l' % j))
                for cid in list(pending):
                    if kids[cid][1].poll(0.003 if kind == 'refcount' else 0.02):
                        r = kids[cid][1].recv()
                        if r[0] != 'done':
                            raise RuntimeError('client answered %r instead of done' % (r[0],))
                        replies[cid] = r[1]
                        pending.remove(cid)
                if time.monotonic() > deadline:
                    sc['workers'] = [s for r in replies if r for s in r]
                    raise RuntimeError('clients %r do not finish scenario %s' % (pending, kind))
            sc['workers'] = [s for r in replies for s in r]
            if kind == 'refcount':
                sc['samples'] = samples
            # the final state, read through the parent's proxy
            try:
                if kind in ('list_append', 'list_pop', 'refcount'):
                    sc['final'] = ob['l']._getvalue()
                elif kind in ('dict_keys', 'dict_setdefault', 'dict_pop'):
                    sc['final'] = sorted([k, v] for k, v in ob['d']._getvalue().items())
                elif kind in ('value_lock', 'value_nolock'):
                    sc['final'] = ob['v'].value
                elif kind == 'queue':
                    sc['final'] = [ob['q'].qsize(), ob['q'].empty()]
                elif kind == 'slots':
                    sc['final'] = [[ob['a'][i] for i in range(W)], len(ob['a']),
                                   [getattr(ob['s'], 's%d' % i) for i in range(W)]]
            except Exception as e:          # noqa
                sc['final'] = exc_obs(e)
            ob = None
            out['steps'].append(counts('after:%d' % j))
            lap(kind)

        for pr, c in kids:
            c.send(['exit'])
        for pr, c in kids:
            ask(c, 'ok')
        for pr, c in kids:
            pr.join(120)
            out['exits'].append(pr.exitcode)
        out['steps'].append(counts('exited'))
        del refs[:]                   # the parent's proxies: Finalize runs BaseProxy._decref
        gc.collect()
        out['steps'].append(counts('dropped'))
        lap('exit+drop')
    except CaseTimeout:
        out['error'] = 'timeout: the case did not finish'
    except Exception as e:          # noqa
        out['error'] = '%s: %s' % (type(e).__name__, str(e)[:400])
    finally:
        if os.getpid() == MAIN_PID:
            for pr, c in kids:
                try:
                    if pr.is_alive():
                        pr.terminate()
                except Exception:          # noqa
                    pass
            try:
                m.shutdown()
            except Exception:          # noqa
                pass
    return out


class CaseTimeout(BaseException):
    pass


def on_alarm(signum, frame):
    raise CaseTimeout()


def main():
    code = 0
    try:
        req = json.load(sys.stdin)
        signal.signal(signal.SIGALRM, on_alarm)
        res = []
        for c in req['cases']:
            nk = len(c['kinds']) if c['kind'] == 'suite' else 1
            signal.setitimer(signal.ITIMER_REAL, c.get('timeout', 300 + 60 * nk))
            try:
                res.append(json.dumps(run_case(c)))      # (a string: nothing for the GC / forked clients)
            except CaseTimeout:
                res.append(json.dumps(dict(error='timeout: the case did not finish (in cleanup)', steps=[], scen=[],
                                           exits=[], names=[])))
            finally:
                signal.setitimer(signal.ITIMER_REAL, 0)
        sys.stdout.flush()
        print('[' + ', '.join(res) + ']')
    except BaseException as e:          # noqa
        if os.getpid() != MAIN_PID:     # a child that escaped from its bootstrap
            os._exit(1)
        import traceback
        traceback.print_exc()
        print(json.dumps(dict(error='driver crashed: %s: %s' % (type(e).__name__, e))))
        code = 1
    finally:
        sys.stdout.flush()
        sys.stderr.flush()
        os._exit(code if os.getpid() == MAIN_PID else 1)


if __name__ == '__main__':
    main()
