import sys, os, time, json
sys.path.insert(0, '/verif')
from vlib import core
import props.C16 as m
class R:
    tier="quick"
    notes=[]; cov={}
    def add_cov(self, **k): self.cov.update(k)
for deep in (False, True):
    r = R(); t=time.time()
    f = m.search_generated(r, deep)
    print('deep', deep, 'wall', round(time.time()-t,1))
    for c in r.cov['c16_search']['configurations']:
        print('  ', c['kind'], c['maxsize'], c['preemptions'], c['leaves'], c['failing_schedule_found'])
    for x in f: print('  cand', json.dumps(x['scripts']), json.dumps(x['sched']))
