#!/venv/bin/python
"""Validates the checks themselves (NOT a manifest command): applies every recorded seeded
change (seeded/<id>/patch.diff) and every neutral refactoring (selftest/neutral/*.diff) to a
scratch worktree of /repo and runs the property's check against it.
Expected: seeded => exit 1 (ideally with a concrete replay); neutral => exit 0, or exit 1 only
as `no-failing-input-found`.   usage: selftest/run_selftest.py [ids...]"""
import json
import os
import subprocess
import sys

VERIF = os.path.dirname(os.path.dirname(os.path.abspath(__file__)))
WT = '/tmp/selftest_wt'


def sh(cmd, **kw):
    return subprocess.run(cmd, shell=True, stdout=subprocess.PIPE, stderr=subprocess.STDOUT, text=True, **kw)


def run(patch, checks):
    sh('git -C /repo worktree remove --force %s' % WT)
    sh('git -C /repo worktree add -q %s HEAD' % WT)
    r = sh('git apply %s' % patch, cwd=WT)
    if r.returncode:
        sh('git -C /repo worktree remove --force %s' % WT)
        return {'apply': 'FAILED ' + r.stdout[-200:]}
    out = {}
    for c in checks:
        r = sh('./check %s' % c, cwd=VERIF, env=dict(os.environ, VERIF_REPO=WT))
        lines = [l for l in r.stdout.split('\n') if l.startswith(('VIOLATION', 'OK '))]
        out[c] = 'concrete' if r.returncode == 1 and not any('no-failing-input-found' in l for l in lines) else \
            'no-failing-input-found' if r.returncode == 1 else 'silent'
    sh('git -C /repo worktree remove --force %s' % WT)
    return out


def main():
    want = sys.argv[1:]
    bad = 0
    for d in sorted(os.listdir(os.path.join(VERIF, 'seeded'))):
        p = os.path.join(VERIF, 'seeded', d, 'patch.diff')
        if not os.path.exists(p) or (want and d not in want):
            continue
        prop = json.load(open(os.path.join(VERIF, 'seeded', d, 'meta.json')))['property']
        res = run(p, [prop])
        ok = res.get(prop) in ('concrete', 'no-failing-input-found')
        bad += not ok
        print('seeded  %-8s %s %s' % (d, res, '' if ok else '  <-- NOT DETECTED'))
    ndir = os.path.join(VERIF, 'selftest', 'neutral')
    for f in sorted(os.listdir(ndir)):
        if not f.endswith('.diff') or (want and f not in want):
            continue
        checks = open(os.path.join(ndir, f[:-5] + '.checks')).read().split()
        res = run(os.path.join(ndir, f), checks)
        ok = all(v in ('silent', 'no-failing-input-found') for v in res.values())
        bad += not ok
        print('neutral %-28s %s %s' % (f, res, '' if ok else '  <-- CONCRETE ALARM ON A HARMLESS CHANGE'))
    # evidence files were overwritten by these runs: the caller must re-run the checks on /repo
    print('NOTE: evidence/*.json now describes the last mutant run; re-run the checks on /repo before committing')
    return 1 if bad else 0


if __name__ == '__main__':
    sys.exit(main())
