#!/venv/bin/python
"""Confirm a seeded change (made by an independent sub-agent in a scratch worktree) and
run the checks against it.  usage: tools_seed.py <worktree> <property id> [more checks...]
Writes /verif/seeded/<id>[-n]/{patch.diff, demo.*, meta.json}."""
import json
import os
import shutil
import subprocess
import sys
import time

VERIF = os.path.dirname(os.path.abspath(__file__))


def sh(cmd, cwd=None, timeout=1200, env=None):
    try:
        p = subprocess.run(cmd, shell=True, cwd=cwd, stdout=subprocess.PIPE, stderr=subprocess.STDOUT,
                           text=True, timeout=timeout, env=env)
        return p.returncode, p.stdout
    except subprocess.TimeoutExpired as e:
        return 124, (e.stdout or '') + '\nTIMEOUT'


def main():
    wt, pid = sys.argv[1], sys.argv[2]
    checks = sys.argv[2:]
    seed = os.path.join(wt, 'SEED')
    meta = json.load(open(os.path.join(seed, 'meta.json')))
    demo = next(f for f in sorted(os.listdir(seed)) if f.startswith(('demo', 'test_demo')) and f.endswith('.py'))
    env = dict(os.environ, PYTHONPATH=wt, PYTHONHASHSEED='0')
    # the worktree must hold exactly the author's change (agents sharing `git stash` have swapped changes before)
    want = open(os.path.join(seed, 'patch.diff')).read()
    _, have = sh('git diff -- billiard', cwd=wt)
    strip = lambda d: [l for l in d.split('\n') if l.startswith(('+', '-')) and not l.startswith(('+++', '---'))]
    if strip(want) != strip(have):
        sh('git checkout -- billiard', cwd=wt)
        r, o = sh('git apply SEED/patch.diff', cwd=wt)
        print('worktree did not hold the recorded patch: reset and re-applied (rc=%s)' % r)
    runner = ('/venv/bin/python -m pytest -q -p no:cacheprovider --timeout=120 SEED/%s' % demo) if demo.startswith('test_') \
        else ('timeout -s KILL 120 /venv/bin/python -u SEED/%s' % demo)
    ran = []
    rc_with, out_with = sh(runner + ' > /tmp/seed_demo.out 2>&1; echo rc=$?', cwd=wt, env=env)
    out_with = open('/tmp/seed_demo.out').read()[-800:] + out_with
    fails_with = 'rc=0' not in out_with.split('\n')[-2:][0] and 'rc=0' not in out_with[-10:]
    ran.append(dict(cmd='demo with change', fails=fails_with, tail=out_with[-300:]))
    _, patch = sh('git diff -- billiard', cwd=wt)
    open('/tmp/seed_patch_%d.diff' % os.getpid(), 'w').write(patch)
    sh('git apply -R /tmp/seed_patch_%d.diff' % os.getpid(), cwd=wt)
    rc_wo, out_wo = sh(runner + ' > /tmp/seed_demo.out 2>&1; echo rc=$?', cwd=wt, env=env)
    passes_without = 'rc=0' in out_wo[-10:]
    ran.append(dict(cmd='demo without change', passes=passes_without, tail=open('/tmp/seed_demo.out').read()[-300:]))
    sh('git apply /tmp/seed_patch_%d.diff' % os.getpid(), cwd=wt)
    os.remove('/tmp/seed_patch_%d.diff' % os.getpid())
    _, tests = sh('timeout -s KILL 600 /venv/bin/python -m pytest -q -p no:cacheprovider --timeout=300 t/unit > /tmp/seed_tests.out 2>&1; tail -3 /tmp/seed_tests.out',
                  cwd=wt, env=env)
    ran.append(dict(cmd='unit tests with change', tail=tests[-300:]))
    tests_ok = (' passed' in tests) and (' failed' not in tests or 'test_on_ready_counter' in open('/tmp/seed_tests.out').read())
    results = {}
    for c in checks:
        t0 = time.time()
        rc, out = sh('./check %s' % c, cwd=VERIF, env=dict(os.environ, VERIF_REPO=wt), timeout=1500)
        lines = [l for l in out.split('\n') if l.startswith(('VIOLATION', 'OK ', '  what', '  broken'))]
        results[c] = dict(rc=rc, lines=[l[:400] for l in lines[:4]], wall_s=round(time.time() - t0, 1))
        ran.append(dict(cmd='VERIF_REPO=%s ./check %s' % (wt, c), rc=rc, lines=lines[:4]))
    n = 0
    dest = os.path.join(VERIF, 'seeded', pid)
    while os.path.exists(dest):
        n += 1
        dest = os.path.join(VERIF, 'seeded', '%s-%d' % (pid, n))
    os.makedirs(dest)
    open(os.path.join(dest, 'patch.diff'), 'w').write(patch)
    shutil.copy(os.path.join(seed, demo), os.path.join(dest, demo))
    detected = {c: ('concrete' if r['rc'] == 1 and not any('no-failing-input-found' in l for l in r['lines'])
                    else 'no-failing-input-found' if r['rc'] == 1 else 'missed') for c, r in results.items()}
    out_meta = dict(property=pid, summary=meta.get('summary'), needs_to_manifest=meta.get('needs_to_manifest'),
                    files_changed=meta.get('files_changed'), author='independent sub-agent (saw only the property text)',
                    confirmed=dict(demo_fails_with_change=fails_with, demo_passes_without=passes_without, unit_tests_pass_with_change=tests_ok),
                    checks=results, detected=detected, what_was_run=ran, agent_commands=meta.get('commands_run'))
    json.dump(out_meta, open(os.path.join(dest, 'meta.json'), 'w'), indent=1)
    print(pid, 'confirmed:', out_meta['confirmed'], 'detected:', detected)
    for c, r in results.items():
        for l in r['lines'][:2]:
            print('   ', c, l[:300])


if __name__ == '__main__':
    main()
