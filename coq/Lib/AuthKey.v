(* HMAC key normalisation (C18), RFC 2104 section 2 / CPython Lib/hmac.py
   (`_init_old` / `_init_hmac`):

       if len(key) > blocksize: key = digest_cons(key).digest()
       key = key.ljust(blocksize, b'\0')

   i.e. a key longer than the block of the hash is replaced by its hash, then
   the key is padded with NUL bytes up to the block size (`ljust` never
   truncates).  HMAC(key, msg) is a function of this padded key and of msg only.

   The hash `h` is an argument (MD5 itself is not modelled); the block size B
   is an argument, 64 for HMAC-MD5 (and SHA-1 / SHA-256), the algorithm
   billiard/connection.py names (Gen/K_auth.v: digestmod_deliver, digestmod_answer).

   Definitions only -- no proofs in this file. *)
From Coq Require Import ZArith List Bool.
From BV Require Import Lib.AuthBase.
Import ListNotations.
Open Scope Z_scope.

(* key.ljust(B, b'\0') *)
Definition zpad (B : nat) (k : bytes) : bytes := k ++ repeat 0 (B - length k).

Definition norm (B : nat) (h : bytes -> bytes) (k : bytes) : bytes :=
  if (B <? length k)%nat then zpad B (h k) else zpad B k.

(* k.rstrip(b'\0') *)
Fixpoint strip0 (k : bytes) : bytes :=
  match k with
  | [] => []
  | x :: r => match strip0 r with
              | [] => if x =? 0 then [] else [x]
              | s => x :: s
              end
  end.

(* a key "has no trailing NUL" when its last byte is not 0 (the empty key has none) *)
Definition no_trailing_nul (k : bytes) : Prop := last k 1 <> 0.

(* the hash given as a finite table key |-> digest (correspondence check: the table
   is computed by the real hashlib); a missing entry is a value no byte string equals *)
Definition hash_of_table (t : list (bytes * bytes)) (k : bytes) : bytes := lookup_msg t k.

(* a MAC that satisfies both crypto hypotheses of Proofs/AuthKeyProofs.v by
   construction (it reveals the normalised key): used for non-vacuity examples only *)
Definition norm_mac (B : nat) (h : bytes -> bytes) (k m : bytes) : bytes := norm B h k ++ m.
