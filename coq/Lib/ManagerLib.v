(* ManagerLib: target language of translate/kernels/manager.py (family G, property C20).

   - association-list dictionaries keyed by Z (Python dicts keyed by the ident string;
     the harness renames ident strings to integers in order of first appearance);
   - the outcome monad of the shallow translation of Server.create/incref/decref;
   - the deep embedding (statement trees) used for the control skeleton of
     Server.serve_client and Server.handle_request, with a generic interpreter that
     implements Python's try/except/else routing.
   Executable, total, no proofs in here. *)
From Coq Require Import ZArith List Bool.
Import ListNotations.
Open Scope Z_scope.

(* exception kinds that occur in billiard/managers.py and in the modelled referents *)
Inductive mexn :=
| E_Index | E_Key | E_Value | E_Type | E_Attribute | E_StopIteration
| E_Assertion | E_Auth | E_EOF | E_OS | E_Other.

Definition mexn_eqb (a b : mexn) : bool :=
  match a, b with
  | E_Index, E_Index | E_Key, E_Key | E_Value, E_Value | E_Type, E_Type
  | E_Attribute, E_Attribute | E_StopIteration, E_StopIteration
  | E_Assertion, E_Assertion | E_Auth, E_Auth | E_EOF, E_EOF | E_OS, E_OS
  | E_Other, E_Other => true
  | _, _ => false
  end.

(* ------------------------------------------------------------------ dicts *)
Definition dict (V : Type) := list (Z * V).

Fixpoint dget {V} (d : dict V) (k : Z) : option V :=
  match d with
  | [] => None
  | (k', v) :: r => if k' =? k then Some v else dget r k
  end.

Definition dmem {V} (d : dict V) (k : Z) : bool :=
  match dget d k with Some _ => true | None => false end.

(* d[k] = v : replace in place, else append (insertion order) *)
Fixpoint dset {V} (d : dict V) (k : Z) (v : V) : dict V :=
  match d with
  | [] => [(k, v)]
  | (k', v') :: r => if k' =? k then (k, v) :: r else (k', v') :: dset r k v
  end.

(* del d[k] (caller has checked membership) *)
Fixpoint ddel {V} (d : dict V) (k : Z) : dict V :=
  match d with
  | [] => []
  | (k', v') :: r => if k' =? k then ddel r k else (k', v') :: ddel r k
  end.

Definition dlen {V} (d : dict V) : Z := Z.of_nat (length d).
Definition dkeys {V} (d : dict V) : list Z := map fst d.

(* ------------------------------------------------------- outcome of a call *)
Inductive out (S A : Type) :=
| Ok (a : A) (s : S)
| Exc (e : mexn) (s : S).
Arguments Ok {S A}. Arguments Exc {S A}.

(* d[k] as an expression: KeyError when missing *)
Definition rd {S V A} (d : dict V) (k : Z) (s : S) (f : V -> out S A) : out S A :=
  match dget d k with Some v => f v | None => Exc E_Key s end.

Definition bindo {S A B} (o : out S A) (f : A -> S -> out S B) : out S B :=
  match o with Ok a s => f a s | Exc e s => Exc e s end.

(* the two tables of managers.Server *)
Record sst (E : Type) := mk_sst { objs : dict E; rcs : dict Z }.
Arguments mk_sst {E}. Arguments objs {E}. Arguments rcs {E}.
Definition set_objs {E} (s : sst E) (d : dict E) : sst E := mk_sst d (rcs s).
Definition set_rcs {E} (s : sst E) (d : dict Z) : sst E := mk_sst (objs s) d.

(* ------------------------------------------------ control-skeleton trees *)
(* names that may occur in translated conditions *)
Inductive cvar := V_methodname | V_exposed | V_typeid | V_funcname | V_public.

Inductive cond :=
| CIn (a b : cvar) | CNotIn (a b : cvar)
| CIsNone (a : cvar) | CIsNotNone (a : cvar)
| CTruth (a : cvar) | CNot (c : cond).

(* exception classes named in `except` clauses *)
Inductive hclass := H_Exception | H_AttributeError | H_EOFError.

Definition hmatch (h : hclass) (e : mexn) : bool :=
  match h with
  | H_Exception => true
  | H_AttributeError => mexn_eqb e E_Attribute
  | H_EOFError => mexn_eqb e E_EOF
  end.

(* the simple statements of Server.serve_client / Server.handle_request; the translator
   maps each statement (by its exact source text) to one of these, anything else is a
   translation error; their meaning is given in Model/Manager.v *)
Inductive prim :=
| P_init_names | P_recv | P_unpack | P_lookup | P_getattr | P_call | P_msg_error
| P_typeid | P_create_proxy | P_token | P_msg_proxy | P_msg_return | P_msg_traceback
| P_fallback_lookup | P_fallback_call | P_msg_return_result | P_log | P_exit0 | P_exit1
| P_send | P_send_unser | P_conn_close
| P_hr_init | P_deliver | P_answer | P_hr_recv | P_hr_unpack | P_hr_getattr | P_hr_call
| P_hr_send | P_hr_send_tb | P_pass | P_hr_close.

Section Trees.

  Inductive stmt :=
  | SPrim (p : prim)
  | SIf (c : cond) (body orelse : list stmt)
  | SRaise (e : mexn)
  | SAssert (c : cond)
  | STry (body : list stmt) (handlers : list (hclass * list stmt)) (orelse : list stmt).

  Variable env : Type.
  Inductive flow :=
  | Normal (e : env)
  | Raised (x : mexn) (e : env)
  | Exited (code : Z) (e : env).

  Variable prim_sem : prim -> env -> flow.
  Variable cond_sem : cond -> env -> bool.
  (* entering `except ... [as exc]`: remember the exception being handled *)
  Variable enter_handler : mexn -> env -> env.

  Fixpoint exec (st : stmt) (e : env) {struct st} : flow :=
    let exec_list :=
        fix go (l : list stmt) (e : env) {struct l} : flow :=
          match l with
          | [] => Normal e
          | x :: r => match exec x e with
                      | Normal e' => go r e'
                      | other => other
                      end
          end in
    match st with
    | SPrim p => prim_sem p e
    | SIf c b o => if cond_sem c e then exec_list b e else exec_list o e
    | SRaise x => Raised x e
    | SAssert c => if cond_sem c e then Normal e else Raised E_Assertion e
    | STry b hs o =>
      match exec_list b e with
      | Normal e' => exec_list o e'
      | Raised x e' =>
        (fix find (hs : list (hclass * list stmt)) : flow :=
           match hs with
           | [] => Raised x e'
           | (h, hb) :: r => if hmatch h x then exec_list hb (enter_handler x e') else find r
           end) hs
      | Exited c e' => Exited c e'
      end
    end.

  Fixpoint exec_list (l : list stmt) (e : env) : flow :=
    match l with
    | [] => Normal e
    | x :: r => match exec x e with
                | Normal e' => exec_list r e'
                | other => other
                end
    end.
End Trees.

Arguments Normal {env}. Arguments Raised {env}. Arguments Exited {env}.
Arguments exec {env}. Arguments exec_list {env}.
