(* Base vocabulary of the authentication handshake (C18), shared by the
   generated kernel Gen/K_auth.v and the hand-written model Model/Auth.v.

   A role of the handshake is a *process term*: it sends whole messages,
   receives whole messages (with the `maxlength` it passes to recv_bytes),
   returns normally or raises.  Framing of messages on the byte stream is the
   business of C13; here the channel carries whole messages in FIFO order.

   Definitions only -- no proofs in this file. *)
From Coq Require Import ZArith List Bool.
Import ListNotations.
Open Scope Z_scope.

Definition bytes := list Z.

Fixpoint bytes_eqb (a b : bytes) : bool :=
  match a, b with
  | [], [] => true
  | x :: r, y :: t => (x =? y) && bytes_eqb r t
  | _, _ => false
  end.

Definition blen (m : bytes) : Z := Z.of_nat (length m).

(* exception kinds that can leave Listener()/accept()/Client() because of the
   handshake *)
Inductive exn := AuthenticationError | AssertionError | OSError | TypeError
               (* connection errors a send_bytes / recv_bytes call may raise (channel
                  faults, see run1f / run2f below); the handshake itself never raises them *)
               | BrokenPipeError | ConnectionResetError | EOFError.

Definition exn_eqb (a b : exn) : bool :=
  match a, b with
  | AuthenticationError, AuthenticationError | AssertionError, AssertionError
  | OSError, OSError | TypeError, TypeError
  | BrokenPipeError, BrokenPipeError | ConnectionResetError, ConnectionResetError
  | EOFError, EOFError => true
  | _, _ => false
  end.

Inductive proc :=
| Send (m : bytes) (k : proc)             (* connection.send_bytes(m) *)
| Recv (maxlen : Z) (k : bytes -> proc)   (* x = connection.recv_bytes(maxlen) *)
| Ret                                      (* the role returns the connection *)
| Raise (e : exn).

(* what one side observes at the end *)
Inductive outcome :=
| Returned                (* the caller is handed a connection *)
| Raised (e : exn)
| Starved                 (* waits for a message that never comes (the real code
                             blocks, or gets EOFError once the peer's end is closed) *)
| OutOfFuel.              (* artefact of the fuelled two-party runner; never an observation *)

Definition outcome_eqb (a b : outcome) : bool :=
  match a, b with
  | Returned, Returned | Starved, Starved | OutOfFuel, OutOfFuel => true
  | Raised x, Raised y => exn_eqb x y
  | _, _ => false
  end.

(* recv_bytes(maxlen): a message longer than maxlen raises OSError('bad message length') *)
Definition deliver_msg (maxlen : Z) (k : bytes -> proc) (m : bytes) : proc :=
  if blen m <=? maxlen then k m else Raise OSError.

(* ---- one honest side against an arbitrary peer: the peer is the list of
   messages it sends, in order (whatever it computed them from).  Result: the
   messages the honest side sent, and how it ended. *)
Fixpoint run1 (p : proc) (inc : list bytes) : list bytes * outcome :=
  match p with
  | Send m k => let (s, o) := run1 k inc in (m :: s, o)
  | Recv n k =>
      match inc with
      | [] => ([], Starved)
      | m :: r => if blen m <=? n then run1 (k m) r else ([], Raised OSError)
      end
  | Ret => ([], Returned)
  | Raise e => ([], Raised e)
  end.

(* ---- an adaptive peer: a strategy that sees everything the honest side has
   sent so far and how many messages it has already delivered, and decides the
   next message (None = it sends nothing more). *)
Definition strategy := list bytes -> nat -> option bytes.

Fixpoint run_strat (p : proc) (st : strategy) (sent : list bytes) (nrecv : nat)
  : list bytes * list bytes * outcome :=       (* (sent, received, outcome) *)
  match p with
  | Send m k => run_strat k st (sent ++ [m]) nrecv
  | Recv n k =>
      match st sent nrecv with
      | None => (sent, [], Starved)
      | Some m =>
          if blen m <=? n then
            let '(s, r, o) := run_strat (k m) st sent (S nrecv) in (s, m :: r, o)
          else (sent, [m], Raised OSError)
      end
  | Ret => (sent, [], Returned)
  | Raise e => (sent, [], Raised e)
  end.

(* ---- two honest sides connected by two FIFO channels.  qa = messages in
   flight towards a, qb towards b; sa/sb = everything a/b has sent so far.
   Deterministic schedule: a runs while it can, otherwise b makes one step. *)
Definition final (p : proc) : outcome :=
  match p with
  | Ret => Returned
  | Raise e => Raised e
  | _ => Starved
  end.

Fixpoint run2 (fuel : nat) (a b : proc) (qa qb sa sb : list bytes)
  : (outcome * list bytes) * (outcome * list bytes) :=
  match fuel with
  | O => ((OutOfFuel, sa), (OutOfFuel, sb))
  | S f =>
      match a, qa with
      | Send m k, _ => run2 f k b qa (qb ++ [m]) (sa ++ [m]) sb
      | Recv n k, m :: r => run2 f (deliver_msg n k m) b r qb sa sb
      | _, _ =>
          match b, qb with
          | Send m k, _ => run2 f a k (qa ++ [m]) qb sa (sb ++ [m])
          | Recv n k, m :: r => run2 f a (deliver_msg n k m) qa r sa sb
          | _, _ => ((final a, sa), (final b, sb))
          end
      end
  end.

(* ---- channel faults.  Every send_bytes call may fail: an oracle decides, per call
   of this side (numbered from 0), whether the message is delivered (None) or the
   call raises a connection error (Some e; the message is NOT delivered).  Every
   recv_bytes call either meets a whole message or raises.  In a process term an
   exception raised by a call leaves the role (the handshake functions contain no
   try/except -- the generator refuses them), so the role ends `Raised e`. *)
Inductive rev :=
| Msg (m : bytes)             (* recv_bytes meets this message *)
| RFail (e : exn).            (* recv_bytes raises e *)

Definition faults := nat -> option exn.

(* one honest side against an arbitrary peer and an arbitrary channel: `i` = number
   of send_bytes calls made so far.  Result: the messages DELIVERED, the outcome. *)
Fixpoint run1f (p : proc) (inc : list rev) (fl : faults) (i : nat) : list bytes * outcome :=
  match p with
  | Send m k =>
      match fl i with
      | Some e => ([], Raised e)
      | None => let (s, o) := run1f k inc fl (S i) in (m :: s, o)
      end
  | Recv n k =>
      match inc with
      | [] => ([], Starved)
      | RFail e :: _ => ([], Raised e)
      | Msg m :: r => if blen m <=? n then run1f (k m) r fl i else ([], Raised OSError)
      end
  | Ret => ([], Returned)
  | Raise e => ([], Raised e)
  end.

(* two honest sides, each with its own send oracle (fa/fb, counters na/nb): a send
   that fails delivers nothing and turns the sender into `Raise e` *)
Fixpoint run2f (fuel : nat) (a b : proc) (qa qb sa sb : list bytes) (fa fb : faults) (na nb : nat)
  : (outcome * list bytes) * (outcome * list bytes) :=
  match fuel with
  | O => ((OutOfFuel, sa), (OutOfFuel, sb))
  | S f =>
      match a, qa with
      | Send m k, _ =>
          match fa na with
          | Some e => run2f f (Raise e) b qa qb sa sb fa fb (S na) nb
          | None => run2f f k b qa (qb ++ [m]) (sa ++ [m]) sb fa fb (S na) nb
          end
      | Recv n k, m :: r => run2f f (deliver_msg n k m) b r qb sa sb fa fb na nb
      | _, _ =>
          match b, qb with
          | Send m k, _ =>
              match fb nb with
              | Some e => run2f f a (Raise e) qa qb sa sb fa fb na (S nb)
              | None => run2f f a k (qa ++ [m]) qb sa (sb ++ [m]) fa fb na (S nb)
              end
          | Recv n k, m :: r => run2f f a (deliver_msg n k m) qa r sa sb fa fb na nb
          | _, _ => ((final a, sa), (final b, sb))
          end
      end
  end.

Definition no_faults : faults := fun _ => None.
(* a finite script of send results; calls beyond it are delivered *)
Definition faults_of (l : list (option exn)) : faults := fun i => nth i l None.

(* ---- vocabulary of the generated description of Listener / Client *)
Inductive hstep := Deliver | Answer.
Definition hstep_eqb (a b : hstep) : bool :=
  match a, b with Deliver, Deliver | Answer, Answer => true | _, _ => false end.

(* the test that decides whether a handshake is performed at all *)
Inductive guard := GTruthy      (* `if key:`             *)
                 | GNotNone.    (* `if key is not None:` *)

(* what a caller may pass as authkey *)
Inductive keyval :=
| KNone
| KBytes (b : bytes)               (* bytes or a subclass (AuthenticationString) *)
| KOther (truthy : bool).          (* any other object, with its truth value *)

(* `authkey is not None and not isinstance(authkey, bytes)` *)
Definition key_type_error (k : keyval) : bool :=
  match k with KOther _ => true | _ => false end.

Definition guard_holds (g : guard) (k : keyval) : bool :=
  match g, k with
  | GTruthy, KNone => false
  | GTruthy, KBytes b => match b with [] => false | _ => true end
  | GTruthy, KOther t => t
  | GNotNone, KNone => false
  | GNotNone, _ => true
  end.

(* mac function given as a finite table (used by the correspondence check: the
   table is computed by the real hmac); a missing entry yields a value no byte
   string can equal *)
Fixpoint lookup_msg (t : list (bytes * bytes)) (m : bytes) : bytes :=
  match t with
  | [] => [-1]
  | (m', d) :: r => if bytes_eqb m m' then d else lookup_msg r m
  end.
Definition mac_table := list (bytes * list (bytes * bytes)).   (* key |-> (message |-> digest) *)
Fixpoint mac_of_table (t : mac_table) (k m : bytes) : bytes :=
  match t with
  | [] => [-1]
  | (k', ms) :: r => if bytes_eqb k k' then lookup_msg ms m else mac_of_table r k m
  end.
