(* helpers for the correspondence check: evaluate a checker over a list of
   cases and report the indices whose code is non-zero *)
From Coq Require Import ZArith List Bool.
Import ListNotations.
Open Scope Z_scope.

Fixpoint codes_from {A} (f : A -> Z) (i : nat) (l : list A) : list (nat * Z) :=
  match l with
  | [] => []
  | x :: r => let c := f x in
              if c =? 0 then codes_from f (S i) r else (i, c) :: codes_from f (S i) r
  end.
Definition codes {A} (f : A -> Z) (l : list A) : list (nat * Z) := codes_from f O l.

Fixpoint list_eqb {A} (eqb : A -> A -> bool) (a b : list A) : bool :=
  match a, b with
  | [], [] => true
  | x :: r, y :: t => eqb x y && list_eqb eqb r t
  | _, _ => false
  end.
Definition opt_eqb {A} (eqb : A -> A -> bool) (a b : option A) : bool :=
  match a, b with
  | Some x, Some y => eqb x y
  | None, None => true
  | _, _ => false
  end.
Definition pair_eqb {A B} (ea : A -> A -> bool) (eb : B -> B -> bool) (a b : A * B) : bool :=
  ea (fst a) (fst b) && eb (snd a) (snd b).
