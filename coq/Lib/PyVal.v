(* PyVal: the target language of translate/pykernel.py.

   Python values of the supported subset (None, int, bool) with a poison value
   PErr carrying the exception an expression would have raised.  Expressions
   translate to pure [pv] terms; statements check for poison where Python would
   have raised.  Everything here is executable (vm_compute) and total. *)
From Coq Require Import ZArith List Bool.
Import ListNotations.
Open Scope Z_scope.

Inductive exn :=
| TypeError | ValueError | AssertionError | KeyError | IndexError | OSError
| EOFError | RestartFreqExceeded | BufferTooShort | AuthenticationError
| ZeroDivisionError | StopIteration | TimeoutError | SystemExit
| OutOfFuel      (* model artefact: loop fuel exhausted; excluded by theorems *)
| Blocked.       (* a blocking primitive that cannot proceed in this state *)

Definition exn_eqb (a b : exn) : bool :=
  match a, b with
  | TypeError, TypeError | ValueError, ValueError | AssertionError, AssertionError
  | KeyError, KeyError | IndexError, IndexError | OSError, OSError
  | EOFError, EOFError | RestartFreqExceeded, RestartFreqExceeded
  | BufferTooShort, BufferTooShort | AuthenticationError, AuthenticationError
  | ZeroDivisionError, ZeroDivisionError | StopIteration, StopIteration
  | TimeoutError, TimeoutError | SystemExit, SystemExit
  | OutOfFuel, OutOfFuel | Blocked, Blocked => true
  | _, _ => false
  end.

Inductive pv :=
| PNone
| PInt (z : Z)
| PBool (b : bool)
| PErr (e : exn).

Definition pv_eqb (a b : pv) : bool :=
  match a, b with
  | PNone, PNone => true
  | PInt x, PInt y => Z.eqb x y
  | PBool x, PBool y => Bool.eqb x y
  | PErr x, PErr y => exn_eqb x y
  | _, _ => false
  end.

(* Python numeric view: bool is a subtype of int *)
Definition as_int (v : pv) : option Z :=
  match v with
  | PInt z => Some z
  | PBool true => Some 1
  | PBool false => Some 0
  | _ => None
  end.

Definition is_err (v : pv) : option exn :=
  match v with PErr e => Some e | _ => None end.

(* truthiness; poison is reported by the statement layer before this is used *)
Definition truth (v : pv) : bool :=
  match v with
  | PNone => false
  | PInt z => negb (Z.eqb z 0)
  | PBool b => b
  | PErr _ => false
  end.

Definition arith (f : Z -> Z -> pv) (a b : pv) : pv :=
  match a with
  | PErr e => PErr e
  | _ => match b with
         | PErr e => PErr e
         | _ => match as_int a, as_int b with
                | Some x, Some y => f x y
                | _, _ => PErr TypeError
                end
         end
  end.

Definition py_add := arith (fun x y => PInt (x + y)).
Definition py_sub := arith (fun x y => PInt (x - y)).
Definition py_mul := arith (fun x y => PInt (x * y)).
(* Python // and % are floor division: same as Coq's Z.div / Z.modulo *)
Definition py_floordiv :=
  arith (fun x y => if Z.eqb y 0 then PErr ZeroDivisionError else PInt (x / y)).
Definition py_mod :=
  arith (fun x y => if Z.eqb y 0 then PErr ZeroDivisionError else PInt (x mod y)).
Definition py_band := arith (fun x y => PInt (Z.land x y)).
Definition py_bor := arith (fun x y => PInt (Z.lor x y)).
Definition py_lshift := arith (fun x y => if Z.ltb y 0 then PErr ValueError else PInt (Z.shiftl x y)).
Definition py_rshift := arith (fun x y => if Z.ltb y 0 then PErr ValueError else PInt (Z.shiftr x y)).
Definition py_neg (a : pv) : pv := py_sub (PInt 0) a.
Definition py_invert (a : pv) : pv :=
  match a with
  | PErr e => PErr e
  | _ => match as_int a with Some x => PInt (- x - 1) | None => PErr TypeError end
  end.

Definition cmp (f : Z -> Z -> bool) (a b : pv) : pv :=
  arith (fun x y => PBool (f x y)) a b.
Definition py_lt := cmp Z.ltb.
Definition py_le := cmp Z.leb.
Definition py_gt := cmp Z.gtb.
Definition py_ge := cmp Z.geb.

(* == is total in Python; None == None, numbers compare numerically *)
Definition py_eq (a b : pv) : pv :=
  match a with
  | PErr e => PErr e
  | _ => match b with
         | PErr e => PErr e
         | _ => match as_int a, as_int b with
                | Some x, Some y => PBool (Z.eqb x y)
                | None, None => PBool true          (* None == None *)
                | _, _ => PBool false
                end
         end
  end.
Definition py_not (a : pv) : pv :=
  match a with PErr e => PErr e | _ => PBool (negb (truth a)) end.
Definition py_ne (a b : pv) : pv := py_not (py_eq a b).

(* `x is None` / `x is not None` *)
Definition py_is_none (a : pv) : pv :=
  match a with PErr e => PErr e | PNone => PBool true | _ => PBool false end.
Definition py_is_not_none (a : pv) : pv := py_not (py_is_none a).

(* `a and b`, `a or b` as VALUES (Python returns one of the operands) *)
Definition py_and (a b : pv) : pv :=
  match a with PErr e => PErr e | _ => if truth a then b else a end.
Definition py_or (a b : pv) : pv :=
  match a with PErr e => PErr e | _ => if truth a then a else b end.
Definition py_ifexp (c a b : pv) : pv :=
  match c with PErr e => PErr e | _ => if truth c then a else b end.

Fixpoint py_in (a : pv) (l : list pv) : pv :=
  match l with
  | [] => match a with PErr e => PErr e | _ => PBool false end
  | x :: r => match py_eq a x with
              | PErr e => PErr e
              | v => if truth v then PBool true else py_in a r
              end
  end.
Definition py_not_in (a : pv) (l : list pv) : pv := py_not (py_in a l).

Definition py_bool (a : pv) : pv :=
  match a with PErr e => PErr e | _ => PBool (truth a) end.
Definition py_min := arith (fun x y => PInt (Z.min x y)).
Definition py_max := arith (fun x y => PInt (Z.max x y)).

(* ------------------------------------------------------------------ *)
(* statement layer: state + exception monad                             *)

Inductive outcome (S A : Type) :=
| Ok (a : A) (s : S)
| Exc (e : exn) (s : S).
Arguments Ok {S A} a s.
Arguments Exc {S A} e s.

(* test position of `if` / `while` / `assert` *)
Definition if_truth {S A} (c : pv) (s : S)
           (kt kf : outcome S A) : outcome S A :=
  match c with
  | PErr e => Exc e s
  | _ => if truth c then kt else kf
  end.

(* binding a value: poison raises here *)
Definition bindv {S A} (v : pv) (s : S) (k : pv -> outcome S A) : outcome S A :=
  match v with
  | PErr e => Exc e s
  | _ => k v
  end.

Definition bindo {S A B} (o : outcome S A) (k : A -> S -> outcome S B)
  : outcome S B :=
  match o with
  | Ok a s => k a s
  | Exc e s => Exc e s
  end.

(* `while c: body` with fuel; the body may not rebind locals *)
Fixpoint while_loop {S} (fuel : nat) (c : S -> pv)
         (body : S -> outcome S unit) (s : S) : outcome S unit :=
  match fuel with
  | O => match c s with
         | PErr e => Exc e s
         | v => if truth v then Exc OutOfFuel s else Ok tt s
         end
  | S f => match c s with
           | PErr e => Exc e s
           | v => if truth v
                  then bindo (body s) (fun _ s' => while_loop f c body s')
                  else Ok tt s
           end
  end.

Lemma while_unroll {S} f (c : S -> pv) body s :
  while_loop (Datatypes.S f) c body s =
  match c s with
  | PErr e => Exc e s
  | v => if truth v
         then bindo (body s) (fun _ s' => while_loop f c body s')
         else Ok tt s
  end.
Proof. reflexivity. Qed.

Definition outcome_eqb {S A} (seq : S -> S -> bool) (aeq : A -> A -> bool)
           (x y : outcome S A) : bool :=
  match x, y with
  | Ok a s, Ok b t => aeq a b && seq s t
  | Exc e s, Exc f t => exn_eqb e f && seq s t
  | _, _ => false
  end.
