(* Compact byte-string literals for the C18 correspondence cases: a list of
   thousands of Z (or a string) literal is slow to elaborate; primitive 63-bit
   integers are one node each.  `ub len ws` = the `len` bytes packed big-endian,
   seven per word (the last word holds the remaining len mod 7 bytes).
   Used by the generated case files only -- no theorem depends on it. *)
From Coq Require Import ZArith List Uint63.
Import ListNotations.
Open Scope Z_scope.

Fixpoint word_bytes (n : nat) (w : Z) (acc : list Z) : list Z :=
  match n with
  | O => acc
  | S n' => word_bytes n' (w / 256) ((w mod 256) :: acc)
  end.

Fixpoint ub (len : Z) (ws : list int) : list Z :=
  match ws with
  | [] => []
  | w :: r => let n := Z.min 7 len in
              word_bytes (Z.to_nat n) (Uint63.to_Z w) [] ++ ub (len - n) r
  end.
