(* ExitStatusWait: the Linux/glibc wait-status macros (bits/waitstatus.h) as total
   functions over Z, and their PyVal wrappers used by the generated kernel
   Gen/K_exitstatus.v (there the Python calls os.WIFSIGNALED(sts) ... are mapped
   to these).  This file is a *model of the platform*, not of billiard; it is
   validated on every run against CPython's os.W* for all 65536 statuses
   (props/C19.py, sweep cases).  No proofs in here. *)
From Coq Require Import ZArith List Bool.
From BV Require Import Lib.PyVal.
Import ListNotations.
Open Scope Z_scope.

(* __WTERMSIG(s)   = s & 0x7f
   __WIFEXITED(s)  = __WTERMSIG(s) == 0
   __WIFSIGNALED(s)= ((signed char)((s & 0x7f) + 1) >> 1) > 0   i.e. 1 <= s&0x7f <= 0x7e
   __WEXITSTATUS(s)= (s & 0xff00) >> 8
   __WIFSTOPPED(s) = (s & 0xff) == 0x7f
   __WCOREDUMP(s)  = s & 0x80
   __WIFCONTINUED(s) = s == 0xffff *)
Definition wtermsig (s : Z) : Z := Z.land s 127.
Definition wifexited (s : Z) : bool := wtermsig s =? 0.
Definition wifsignaled (s : Z) : bool := (1 <=? wtermsig s) && (wtermsig s <=? 126).
Definition wexitstatus (s : Z) : Z := Z.shiftr (Z.land s 65280) 8.
Definition wifstopped (s : Z) : bool := Z.land s 255 =? 127.
Definition wcoredump (s : Z) : bool := negb (Z.land s 128 =? 0).

Definition lift_b (f : Z -> bool) (v : pv) : pv :=
  match v with
  | PErr e => PErr e
  | PInt z => PBool (f z)
  | PBool b => PBool (f (if b then 1 else 0))
  | PNone => PErr TypeError
  end.
Definition lift_z (f : Z -> Z) (v : pv) : pv :=
  match v with
  | PErr e => PErr e
  | PInt z => PInt (f z)
  | PBool b => PInt (f (if b then 1 else 0))
  | PNone => PErr TypeError
  end.

Definition os_WIFSIGNALED := lift_b wifsignaled.
Definition os_WIFEXITED := lift_b wifexited.
Definition os_WTERMSIG := lift_z wtermsig.
Definition os_WEXITSTATUS := lift_z wexitstatus.
