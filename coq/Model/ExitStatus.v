(* Model family X (exit status), property C19.
   Executable, total, no proofs in here.

   Child side : which exit code BaseProcess._bootstrap selects for each way the
                target can end (path), how that code leaves the child under each
                start method (ending), what wait status the kernel reports.
   Parent side: popen_fork.Popen.poll/wait (decode + cache), the forkserver
                variant, BaseProcess.start/join/is_alive/exitcode with the
                module-level children set and _cleanup, over oracles for
                os.waitpid and for the readiness of the sentinel. *)
From Coq Require Import ZArith List Bool.
From BV Require Import Lib.Cases Lib.ExitStatusWait.
Import ListNotations.
Open Scope Z_scope.

(* ------------------------------------------------------------------ child side *)

(* elements of SystemExit.args as far as _bootstrap looks at them *)
Inductive argv := VInt (z : Z) | VBool (b : bool) | VStr | VNone | VOther.

Inductive path :=
| PReturn                          (* target returns *)
| PRaise                           (* target raises an ordinary exception *)
| PSysExit (args : list argv)      (* SystemExit with these .args reaches _bootstrap *)
| PSignal (s : Z) (core : bool).   (* killed by signal s (core: the kernel set the core flag) *)

Inductive method := Fork | Spawn | Forkserver.

(* isinstance(x, int): bool is a subclass of int *)
Definition argv_int (a : argv) : option Z :=
  match a with
  | VInt z => Some z
  | VBool b => Some (if b then 1 else 0)
  | _ => None
  end.
Definition argv_is_str (a : argv) : bool := match a with VStr => true | _ => false end.

(* the `except SystemExit as exc:` handler *)
Definition sysexit_code (args : list argv) : Z :=
  match args with
  | [] => 1
  | a :: _ => match argv_int a with
              | Some z => z
              | None => if argv_is_str a then 0 else 1
              end
  end.

(* None: _bootstrap never gets to choose (the process is killed) *)
Definition bootstrap_code (p : path) : option Z :=
  match p with
  | PReturn => Some 0
  | PRaise => Some 1
  | PSysExit a => Some (sysexit_code a)
  | PSignal _ _ => None
  end.

Inductive ending :=
| EExit (n : Z)             (* _exit(n) / exit(n): the kernel keeps n mod 256 *)
| EKilled (s : Z) (core : bool)
| EPipe (n : Z)             (* forkserver: n was written on the status pipe *)
| ENoPipe                   (* forkserver: the pipe closed without a code *)
| EEscape.                  (* fork: os._exit(code) raised OverflowError, the child
                               leaves Popen._launch with an exception *)

Definition in_range (lo n hi : Z) : bool := (lo <=? n) && (n <? hi).

Definition ending_of (m : method) (p : path) : ending :=
  match p with
  | PSignal s c => match m with Forkserver => ENoPipe | _ => EKilled s c end
  | _ =>
    match bootstrap_code p with
    | None => ENoPipe   (* unreachable *)
    | Some n =>
      match m with
      | Fork => if in_range (-2147483648) n 2147483648 then EExit n else EEscape
      | Spawn => (* sys.exit(n): (int)PyLong_AsLong(n); -1 on overflow *)
                 if in_range (-9223372036854775808) n 9223372036854775808
                 then EExit n else EExit (-1)
      | Forkserver => (* struct 'Q' *)
                 if in_range 0 n 18446744073709551616 then EPipe n else ENoPipe
      end
    end
  end.

(* the 16-bit wait status the kernel reports *)
Definition os_status_exit (n : Z) : Z := (n mod 256) * 256.
Definition os_status_sig (s : Z) (core : bool) : Z := s + (if core then 128 else 0).

(* ------------------------------------------------------------------ decode *)
Inductive dres := DOk (v : Z) | DAssert.

(* the branch of Popen.poll taken when waitpid returned our pid *)
Definition decode (sts : Z) : dres :=
  if wifsignaled sts then DOk (- wtermsig sts)
  else if wifexited sts then DOk (wexitstatus sts)
  else DAssert.

Definition fs_fallback : Z := 255.

(* exit code the parent ends up reporting; None = not defined by this model *)
Definition seen (m : method) (p : path) : option Z :=
  match ending_of m p with
  | EExit n => match decode (os_status_exit n) with DOk v => Some v | DAssert => None end
  | EKilled s c => match decode (os_status_sig s c) with DOk v => Some v | DAssert => None end
  | EPipe n => Some n
  | ENoPipe => Some fs_fallback
  | EEscape => None
  end.

(* common.human_status: (is it printed as a signal?, the number printed) *)
Definition human (status : option Z) : bool * option Z :=
  match status with
  | None => (false, None)
  | Some z => if z <? 0 then (true, Some (- z)) else (false, Some z)
  end.

(* ------------------------------------------------------------------ Popen (fork, spawn) *)
Record popen := mk_popen { ppid : Z; rc : option Z }.

(* outcome of the waitpid retry loop *)
Inductive ans := AErr | AAns (pid sts : Z).
(* what a method gives back *)
Inductive pres := RVal (v : option Z) | RAssert | RHang.

Definition poll_ans (p : popen) (pid sts : Z) : popen * pres :=
  match rc p with
  | Some c => (p, RVal (Some c))
  | None =>
    if pid =? ppid p then
      match decode sts with
      | DOk v => (mk_popen (ppid p) (Some v), RVal (Some v))
      | DAssert => (p, RAssert)
      end
    else (p, RVal None)
  end.

Definition poll1 (p : popen) (a : ans) : popen * pres :=
  match rc p with
  | Some c => (p, RVal (Some c))
  | None => match a with
            | AErr => (p, RVal None)
            | AAns pid sts => poll_ans p pid sts
            end
  end.

(* wait(timeout): timeout None | Some 0 | Some positive; ready = the sentinel wait said
   ready; a_n / a_b = what the waitpid loop yields with WNOHANG / blocking *)
Definition wait_flag_nonblocking (t : option Z) : bool :=
  match t with Some z => z =? 0 | None => false end.

Definition wait1 (p : popen) (t : option Z) (ready : bool) (a_n a_b : ans) : popen * pres :=
  match rc p with
  | Some c => (p, RVal (Some c))
  | None =>
    match t with
    | Some _ => if negb ready then (p, RVal None)
                else poll1 p (if wait_flag_nonblocking t then a_n else a_b)
    | None => poll1 p a_b
    end
  end.

(* popen_forkserver.Popen.poll *)
Definition fs_poll1 (p : popen) (nonblocking : bool) (ready_block ready_now : bool)
           (rd : option Z) : popen * pres :=
  match rc p with
  | Some c => (p, RVal (Some c))
  | None =>
    if negb (if nonblocking then ready_now else ready_block) then (p, RVal None)
    else let v := match rd with Some n => n | None => fs_fallback end in
         (mk_popen (ppid p) (Some v), RVal (Some v))
  end.

(* ------------------------------------------------------------------ the waitpid oracle *)
(* one answer of os.waitpid: EINTR, another OSError (ECHILD), or (pid, sts);
   (0, _) is the WNOHANG answer "not yet" *)
Inductive wans := WEintr | WErr | WAns (pid sts : Z).

(* per process: answers still to come, then `fin` forever; sentinel readiness
   answers still to come, then ready forever *)
Record oracle := mk_or { pre : list wans; fin : ans; rdy : list bool }.

(* the loop `while True: try waitpid except EINTR: continue / other: return None`.
   A blocking waitpid never answers pid 0 (it sleeps until something happens).
   Returns the remaining script and the loop's outcome (None = never returns). *)
Fixpoint waitpid_loop (blocking : bool) (l : list wans) (f : ans) : list wans * option ans :=
  match l with
  | [] => ([], match f with
               | AAns pid _ => if blocking && (pid =? 0) then None else Some f
               | AErr => Some f
               end)
  | WEintr :: r => waitpid_loop blocking r f
  | WErr :: r => (r, Some AErr)
  | WAns pid sts :: r => if blocking && (pid =? 0) then waitpid_loop blocking r f
                         else (r, Some (AAns pid sts))
  end.

(* ------------------------------------------------------------------ Process objects *)
Record proc := mk_proc { creator : Z; pop : option popen; orc : oracle }.

Record world := mk_world {
  cur : Z;                 (* os.getpid() *)
  procs : list proc;
  children : list nat }.   (* process._children, as indices into procs *)

(* the harness gives the i-th process object the pid first_pid + i when started *)
Definition first_pid : Z := 1000.
Definition pid_of (i : nat) : Z := first_pid + Z.of_nat i.

Fixpoint upd {A} (l : list A) (i : nat) (x : A) : list A :=
  match l, i with
  | [], _ => []
  | _ :: r, O => x :: r
  | y :: r, S j => y :: upd r j x
  end.

(* Popen.poll(flag) on a started process: consumes the oracle only when nothing is cached *)
Definition poll_proc (blocking : bool) (pr : proc) (p : popen) : proc * pres :=
  match rc p with
  | Some c => (pr, RVal (Some c))
  | None =>
    let o := orc pr in
    let '(rest, oa) := waitpid_loop blocking (pre o) (fin o) in
    let o' := mk_or rest (fin o) (rdy o) in
    match oa with
    | None => (mk_proc (creator pr) (pop pr) o', RHang)
    | Some a => let '(p', r) := poll1 p a in
                (mk_proc (creator pr) (Some p') o', r)
    end
  end.

(* Popen.wait(timeout) *)
Definition wait_proc (t : option Z) (pr : proc) (p : popen) : proc * pres :=
  match rc p with
  | Some c => (pr, RVal (Some c))
  | None =>
    match t with
    | Some _ =>
      let o := orc pr in
      let ready := match rdy o with [] => true | b :: _ => b end in
      let pr1 := mk_proc (creator pr) (pop pr) (mk_or (pre o) (fin o) (tl (rdy o))) in
      if negb ready then (pr1, RVal None)
      else poll_proc (negb (wait_flag_nonblocking t)) pr1 p
    | None => poll_proc true pr p
    end
  end.

Inductive ores := ONone | OInt (z : Z) | OBool (b : bool) | OList (l : list nat)
                | OAssert | OHang | OBad.

Definition ores_of (r : pres) : ores :=
  match r with
  | RVal None => ONone
  | RVal (Some z) => OInt z
  | RAssert => OAssert
  | RHang => OHang
  end.

Definition discard (l : list nat) (i : nat) : list nat :=
  filter (fun j => negb (Nat.eqb j i)) l.

(* process._cleanup(): poll every child, discard the finished ones.
   `todo` is the snapshot list(_children).  Some e = aborted by an exception. *)
Fixpoint cleanup (todo : list nat) (ps : list proc) (ch : list nat)
  : list proc * list nat * option ores :=
  match todo with
  | [] => (ps, ch, None)
  | j :: r =>
    match nth_error ps j with
    | None => cleanup r ps ch
    | Some pr =>
      match pop pr with
      | None => cleanup r ps ch
      | Some p =>
        let '(pr', res) := poll_proc false pr p in
        let ps' := upd ps j pr' in
        match res with
        | RVal None => cleanup r ps' ch
        | RVal (Some _) => cleanup r ps' (discard ch j)
        | RAssert => (ps', ch, Some OAssert)
        | RHang => (ps', ch, Some OHang)
        end
      end
    end
  end.

Inductive op :=
| OStart (i : nat) | OJoin (i : nat) (t : option Z) | OAlive (i : nat) | OCode (i : nat)
| OActive | OSetPid (z : Z).

Fixpoint insert_sorted (x : nat) (l : list nat) : list nat :=
  match l with
  | [] => [x]
  | y :: r => if Nat.leb x y then x :: l else y :: insert_sorted x r
  end.
Definition sort_nat (l : list nat) : list nat := fold_right insert_sorted [] l.

Definition step (w : world) (o : op) : world * ores :=
  match o with
  | OSetPid z => (mk_world z (procs w) (children w), ONone)
  | OActive =>
    let '(ps, ch, e) := cleanup (children w) (procs w) (children w) in
    let w' := mk_world (cur w) ps ch in
    match e with Some x => (w', x) | None => (w', OList (sort_nat ch)) end
  | OStart i =>
    match nth_error (procs w) i with
    | None => (w, OBad)
    | Some pr =>
      match pop pr with
      | Some _ => (w, OAssert)                         (* cannot start a process twice *)
      | None =>
        if negb (creator pr =? cur w) then (w, OAssert) (* created by another process *)
        else
          let '(ps, ch, e) := cleanup (children w) (procs w) (children w) in
          match e with
          | Some x => (mk_world (cur w) ps ch, x)
          | None =>
            let pr' := mk_proc (creator pr) (Some (mk_popen (pid_of i) None)) (orc pr) in
            (mk_world (cur w) (upd ps i pr') (ch ++ [i]), ONone)
          end
      end
    end
  | OJoin i t =>
    match nth_error (procs w) i with
    | None => (w, OBad)
    | Some pr =>
      if negb (creator pr =? cur w) then (w, OAssert)
      else match pop pr with
           | None => (w, OAssert)
           | Some p =>
             let '(pr', res) := wait_proc t pr p in
             let ps := upd (procs w) i pr' in
             match res with
             | RVal None => (mk_world (cur w) ps (children w), ONone)
             | RVal (Some _) => (mk_world (cur w) ps (discard (children w) i), ONone)
             | RAssert => (mk_world (cur w) ps (children w), OAssert)
             | RHang => (mk_world (cur w) ps (children w), OHang)
             end
           end
    end
  | OAlive i =>
    match nth_error (procs w) i with
    | None => (w, OBad)
    | Some pr =>
      if negb (creator pr =? cur w) then (w, OAssert)
      else match pop pr with
           | None => (w, OBool false)
           | Some p =>
             let '(pr', res) := poll_proc false pr p in
             let w' := mk_world (cur w) (upd (procs w) i pr') (children w) in
             match res with
             | RVal v => (w', OBool (match v with None => true | Some _ => false end))
             | RAssert => (w', OAssert)
             | RHang => (w', OHang)
             end
           end
    end
  | OCode i =>
    match nth_error (procs w) i with
    | None => (w, OBad)
    | Some pr =>
      match pop pr with
      | None => (w, ONone)
      | Some p =>
        let '(pr', res) := poll_proc false pr p in
        (mk_world (cur w) (upd (procs w) i pr') (children w), ores_of res)
      end
    end
  end.

Definition rc_of (w : world) (i : nat) : option Z :=
  match nth_error (procs w) i with
  | Some pr => match pop pr with Some p => rc p | None => None end
  | None => None
  end.
Definition started (w : world) (i : nat) : bool :=
  match nth_error (procs w) i with
  | Some pr => match pop pr with Some _ => true | None => false end
  | None => false
  end.

Definition snapshot (w : world) : list nat * list (option Z) :=
  (sort_nat (children w), map (fun pr => match pop pr with Some p => rc p | None => None end) (procs w)).

Fixpoint run (w : world) (ops : list op) : world * list (ores * (list nat * list (option Z))) :=
  match ops with
  | [] => (w, [])
  | o :: r => let '(w1, x) := step w o in
              let '(w2, xs) := run w1 r in
              (w2, (x, snapshot w1) :: xs)
  end.

(* ------------------------------------------------------------------ single-object view *)
(* What start/join/is_alive/exitcode do to ONE process object, with everything else
   (the Popen, the other children) abstracted into parameters.  K_procguard is proved
   equal to these, and `step` is proved to act like these on the object it addresses. *)
Record pguard := mk_pg { g_started : bool; g_creator : Z; g_child : bool }.

(* result: None = returned normally (value given separately), Some tt = AssertionError *)
Definition start_g (g : pguard) (cur : Z) : pguard * bool :=
  if g_started g then (g, true)
  else if negb (g_creator g =? cur) then (g, true)
  else (mk_pg true (g_creator g) true, false).

Definition join_g (g : pguard) (cur : Z) (wait_res : option Z) : pguard * bool :=
  if negb (g_creator g =? cur) then (g, true)
  else if negb (g_started g) then (g, true)
  else match wait_res with
       | Some _ => (mk_pg (g_started g) (g_creator g) false, false)
       | None => (g, false)
       end.

(* Some b = returns b; None = AssertionError.  rc_after = Popen.returncode after the poll *)
Definition alive_g (g : pguard) (cur : Z) (rc_after : option Z) : option bool :=
  if negb (g_creator g =? cur) then None
  else if negb (g_started g) then Some false
  else Some (match rc_after with None => true | Some _ => false end).

Definition code_g (g : pguard) (poll_res : option Z) : option Z :=
  if g_started g then poll_res else None.

Definition proj (w : world) (i : nat) : option pguard :=
  match nth_error (procs w) i with
  | Some pr => Some (mk_pg (match pop pr with Some _ => true | None => false end) (creator pr)
                           (existsb (Nat.eqb i) (children w)))
  | None => None
  end.


(* ------------------------------------------------------------------ histories of real children *)
(* A history over several REAL children of one start method.  The parent's operations are
   the `op`s of the world model; in between, the environment moves: a child ends, a child
   closes its end of the sentinel pipe and goes on running, and events the model says are
   invisible (a joined process object is garbage collected, an unrelated file is opened;
   descriptor numbers get reused).  The oracles of the world are not scripted here: before
   every operation they are SET from the state of each child --
     running : waitpid(WNOHANG) says "not yet", a blocking waitpid never returns, the
               sentinel is not ready;
     orphaned sentinel : the same, but the sentinel is ready (EOF);
     ended   : waitpid reports (pid, status of the way it ended), the sentinel is ready --
   and then the proved `step` is applied. *)
Inductive sop :=
| SOp (o : op)
| SEnd (i : nat)
| SOrphan (i : nat)
| SNop.

(* the wait status with which the world model is fed for a child that ended by p.
   fork / spawn: the kernel's status.  forkserver: the parent never sees a wait status
   (the code comes over the pipe); the world automaton is used as the reference for the
   cache / liveness / children-set behaviour with the status that decodes to `seen`. *)
Definition seq_status (m : method) (p : path) : option Z :=
  match ending_of m p with
  | EExit n => Some (os_status_exit n)
  | EKilled s c => Some (os_status_sig s c)
  | EPipe n => if in_range 0 n 256 then Some (os_status_exit n) else None
  | ENoPipe => Some (os_status_exit fs_fallback)
  | EEscape => None
  end.

Definition seq_oracle (i : nat) (st : Z) (sts : Z) : oracle :=
  if st =? 0 then mk_or [] (AAns 0 0) [false]
  else if st =? 1 then mk_or [] (AAns 0 0) []
  else mk_or [] (AAns (pid_of i) sts) [].

Fixpoint set_oracles (i : nat) (ps : list proc) (stl stss : list Z) : list proc :=
  match ps, stl, stss with
  | pr :: r, st :: stl', sts :: stss' =>
    mk_proc (creator pr) (pop pr) (seq_oracle i st sts) :: set_oracles (S i) r stl' stss'
  | _, _, _ => ps
  end.

Fixpoint seq_run (w : world) (stl stss : list Z) (ops : list sop) : list (ores * (list nat * list (option Z))) :=
  match ops with
  | [] => []
  | SOp o :: r =>
    let w0 := mk_world (cur w) (set_oracles 0 (procs w) stl stss) (children w) in
    let '(w1, x) := step w0 o in
    (x, snapshot w1) :: seq_run w1 stl stss r
  | SEnd i :: r => (ONone, snapshot w) :: seq_run w (upd stl i 2) stss r
  | SOrphan i :: r =>
    (ONone, snapshot w) :: seq_run w (upd stl i (match nth_error stl i with Some 2 => 2 | _ => 1 end)) stss r
  | SNop :: r => (ONone, snapshot w) :: seq_run w stl stss r
  end.

Fixpoint all_some {A} (l : list (option A)) : option (list A) :=
  match l with
  | [] => Some []
  | None :: _ => None
  | Some x :: r => match all_some r with Some t => Some (x :: t) | None => None end
  end.

Definition seq_world (n : nat) : world :=
  mk_world 100 (map (fun _ => mk_proc 100 None (mk_or [] (AAns 0 0) [false])) (seq 0 n)) [].

Definition seq_model (m : method) (paths : list path) (ops : list sop)
  : option (list (ores * (list nat * list (option Z)))) :=
  match all_some (map (seq_status m) paths) with
  | None => None
  | Some stss => Some (seq_run (seq_world (length paths)) (map (fun _ => 0) paths) stss ops)
  end.

(* ------------------------------------------------------------------ correspondence *)
Definition ores_eqb (a b : ores) : bool :=
  match a, b with
  | ONone, ONone | OAssert, OAssert | OHang, OHang | OBad, OBad => true
  | OInt x, OInt y => x =? y
  | OBool x, OBool y => Bool.eqb x y
  | OList x, OList y => list_eqb Nat.eqb x y
  | _, _ => false
  end.

Definition obs := (ores * (list nat * list (option Z)))%type.
Definition obs_res_eqb (a b : obs) : bool := ores_eqb (fst a) (fst b).
Definition obs_eqb (a b : obs) : bool :=
  ores_eqb (fst a) (fst b) && list_eqb Nat.eqb (fst (snd a)) (fst (snd b))
  && list_eqb (opt_eqb Z.eqb) (snd (snd a)) (snd (snd b)).

Definition method_uses_pipe (m : method) : bool :=
  match m with Forkserver => true | _ => false end.

(* packed view of the wait-status macros, for the 65536 sweep *)
Definition macros_packed (s : Z) : Z :=
  (if wifsignaled s then 1 else 0) + (if wifexited s then 2 else 0)
  + (if wifstopped s then 4 else 0) + 8 * wtermsig s + 1024 * wexitstatus s.
(* poll's result on a fresh Popen for (ownpid, s): 0 = AssertionError, else code + 1000 *)
Definition decode_packed (s : Z) : Z :=
  match decode s with DOk v => v + 1000 | DAssert => 0 end.

Fixpoint zrange (lo : Z) (n : nat) : list Z :=
  match n with O => [] | S k => lo :: zrange (lo + 1) k end.

(* lossless delta run-length coding of an integer list: (count, delta) means the next
   `count` elements each differ from their predecessor by `delta` (first predecessor 0).
   Only a transport encoding: Coq parses 130000 numerals slowly. *)
Fixpoint rep_delta (n : nat) (d prev : Z) : list Z * Z :=
  match n with
  | O => ([], prev)
  | S k => let v := prev + d in
           let '(l, last) := rep_delta k d v in (v :: l, last)
  end.
Fixpoint expand (runs : list (nat * Z)) (prev : Z) : list Z :=
  match runs with
  | [] => []
  | (n, d) :: r => let '(l, last) := rep_delta n d prev in l ++ expand r last
  end.

Inductive fsop := FsPoll (nonblocking ready_block ready_now : bool) (rd : option Z).
Fixpoint fs_run (p : popen) (l : list fsop) : list ores :=
  match l with
  | [] => []
  | FsPoll nb rb rn rd :: r => let '(p', x) := fs_poll1 p nb rb rn rd in ores_of x :: fs_run p' r
  end.

Inductive case :=
| CWorld (cur0 : Z) (specs : list (Z * list wans * ans * list bool))
         (ops : list op) (seen_obs : list obs)
| CSweep (lo : Z) (n : nat) (decoded_rle : list (nat * Z)) (macros_rle : list (nat * Z))
| CReal (m : method) (p : path) (exitcode : option Z)
        (alive_before none_before : bool) (child_after : bool) (alive_after : bool)
| CFs (ops : list fsop) (results : list ores)
| CSeq (m : method) (paths : list path) (ops : list sop) (seen_obs : list obs)
| CHuman (status : option Z) (is_sig : bool) (num : option Z).

(* the exit paths the property statement speaks about: return, exception, sys.exit(n) with a
   small integer, death by signal; SystemExit with None / a string / a big or negative
   integer is modelled as the code behaves, but a difference there is not a violation *)
Definition in_statement (p : path) : bool :=
  match p with
  | PReturn | PRaise | PSignal _ _ => true
  | PSysExit (VInt n :: _) => in_range 0 n 256
  | PSysExit _ => false
  end.

Definition init_world (cur0 : Z) (specs : list (Z * list wans * ans * list bool)) : world :=
  mk_world cur0
           (map (fun s => let '(c, p, f, r) := s in mk_proc c None (mk_or p f r)) specs)
           [].

Fixpoint first_diff {A} (eqb : A -> A -> bool) (a b : list A) (i : Z) : Z :=
  match a, b with
  | [], [] => 0
  | x :: r, y :: t => if eqb x y then first_diff eqb r t (i + 1) else i + 1
  | _, _ => i + 1
  end.

(* 0 = agree; 2 = a property observable differs (results of start/join/is_alive/exitcode/
   active_children, exit codes, decoded statuses); 1 = only the recorded internal
   snapshots (children set / cached return codes after an op) differ *)
Definition check_case (c : case) : Z :=
  match c with
  | CWorld cur0 specs ops o =>
    let '(_, mo) := run (init_world cur0 specs) ops in
    (* the children set and the cached codes are what join / exitcode are about *)
    if list_eqb obs_eqb mo o then 0 else 2
  | CSweep lo n d m =>
    let xs := zrange lo n in
    if negb (list_eqb Z.eqb (map decode_packed xs) (expand d 0)) then 2
    else if list_eqb Z.eqb (map macros_packed xs) (expand m 0) then 0 else 1
  | CReal m p code ab nb ca aa =>
    match seen m p with
    | None => 1
    | Some v => if opt_eqb Z.eqb code (Some v) && ab && nb && negb ca && negb aa then 0
                else if in_statement p || negb (ab && nb && negb ca && negb aa) then 2 else 1
    end
  | CFs ops res => if list_eqb ores_eqb (fs_run (mk_popen 1 None) ops) res then 0 else 2
  | CSeq m paths ops o =>
    match seq_model m paths ops with
    | None => 1
    | Some mo => if list_eqb obs_eqb mo o then 0 else 2
    end
  | CHuman s b n =>
    let '(mb, mn) := human s in
    if Bool.eqb mb b && opt_eqb Z.eqb mn n then 0 else 2
  end.

(* second pass over a failing case: 1-based index of the first differing element
   (op number / status offset), 0 if none *)
Definition locate_case (c : case) : Z :=
  match c with
  | CWorld cur0 specs ops o =>
    let '(_, mo) := run (init_world cur0 specs) ops in first_diff obs_eqb mo o 0
  | CSweep lo n d m =>
    let xs := zrange lo n in
    let a := first_diff Z.eqb (map decode_packed xs) (expand d 0) 0 in
    if a =? 0 then first_diff Z.eqb (map macros_packed xs) (expand m 0) 0 else a
  | CFs ops res => first_diff ores_eqb (fs_run (mk_popen 1 None) ops) res 0
  | CSeq m paths ops o =>
    match seq_model m paths ops with
    | None => 0
    | Some mo => first_diff obs_eqb mo o 0
    end
  | _ => 0
  end.
