(* PoolCrash -- the CLOSED composition for apply jobs WITH WORKER CRASHES:

     client --apply_async--> parent (Model/Pool.v) --task queue--> TaskHandler --pipe--> workers
        ^                        |  ^                                                     |  x  (KILL)
        |                        |  +--- supervisor: ETick (reap, mark, fail, replace) ---+--+
        +---- handle resolved <--+-- ResultHandler (parent: EAck / EReady) <--result pipe--+

   As in Model/PoolSys.v the parent component IS the open pool model: every parent transition
   below is a [Pool.step] (Proofs/PoolCrashProofs.v [creach_is_run]), so every theorem about
   [Pool.run] applies to the parent of every reachable state.  New with respect to PoolSys:

     KILL p code   a live worker that is EXECUTING a job (it has taken the task and written its
                   ACK) dies with exit status [code] (any status: signal or exit code); parent
                   event [EExit p code]; the crash budget [ckills] decreases; the job is lost
     TICK          one supervision pass (parent event [ETick]): reaps the exited workers, marks
                   their jobs, fails the marked jobs whose lost-worker timeout is over, starts
                   replacements -- which join the live workers, idle
     TICK_EARLY    the same pass taken while a message of an exited, not yet reaped worker is
                   still in the result pipe (the supervisor thread overtakes the result handler:
                   recorded defect D11 `C04:owner-gone-but-no-marker`, Proofs/PoolRefuted.v).
                   TICK is enabled exactly when the result handler has drained the dead workers'
                   messages, TICK_EARLY exactly when it has not.  The positive theorems are about
                   schedules without TICK_EARLY; [doomed_by_early_tick] is the refutation.
     ADVANCE d     the clock moves by d > 0 (parent event [EAdvance d])

   Workers are identified by pid (the pids of [wlist] of the parent that have not exited).
   There is no close() in this model and no restart limiter is assumed by the theorems
   ([c_maxr = None]).  [clost] is ghost state: (pid, job, exit status) of every killed worker whose
   job has not been failed yet. *)
From Coq Require Import ZArith List Bool Lia.
From BV Require Import Lib.Cases Model.LaxSem Model.Restart Model.Pool Model.PoolSys.
Import ListNotations.
Open Scope Z_scope.

Record csys := mkcs {
  cpar : pool;
  cbad : list Z;                 (* jobs whose task raises (fixed from the start) *)
  ctodo : nat;                   (* apply_async calls still to make *)
  ctaskq : list Z;               (* Pool._taskqueue *)
  cinq : list Z;                 (* the task pipe *)
  cwk : list (Z * option Z);     (* live workers: pid, the job it is executing *)
  coutq : list msg;              (* the result pipe (FIFO) *)
  clost : list (Z * Z * Z);      (* ghost: (pid, job, status) of killed workers, job not failed yet *)
  ckills : nat                   (* crashes that may still happen *)
}.

Inductive cstep :=
| CSubmit | CPut
| CTake (p : Z) | CFinish (p : Z)
| CRecv
| CKill (p code : Z)
| CTick | CTickEarly
| CAdvance (d : Z).

Definition wk_get (w : list (Z * option Z)) (p : Z) : option (option Z) :=
  match find (fun e => fst e =? p) w with Some e => Some (snd e) | None => None end.
Definition wk_set (w : list (Z * option Z)) (p : Z) (o : option Z) : list (Z * option Z) :=
  map (fun e => if fst e =? p then (fst e, o) else e) w.
Definition wk_del (w : list (Z * option Z)) (p : Z) : list (Z * option Z) :=
  filter (fun e => negb (fst e =? p)) w.

Definition msg_pid (m : msg) : Z := match m with MAck _ p => p | MReady _ p _ _ => p end.

Definition cunres (s : pool) (j : Z) : bool :=
  match get_job s j with Some x => negb (ready x) | None => false end.

(* an exited worker the supervisor has not reaped yet *)
Definition dead_unreaped (s : pool) (p : Z) : bool := exited s p && in_pool s p.
(* the result handler has handled everything the dead workers wrote *)
Definition drained (s : pool) (q : list msg) : bool :=
  negb (existsb (fun m => dead_unreaped s (msg_pid m)) q).

Definition lost_job (d : Z * Z * Z) : Z := snd (fst d).
Definition lost_pid (d : Z * Z * Z) : Z := fst (fst d).
Definition lost_code (d : Z * Z * Z) : Z := snd d.

(* one supervision pass as a system step: the replacements join the live workers *)
Definition tick_to (y : csys) : option csys :=
  match step (cpar y) ETick with
  | (s', RNone) =>
    let news := filter (fun p => negb (in_pool (cpar y) p)) (wlist s') in
    Some (mkcs s' (cbad y) (ctodo y) (ctaskq y) (cinq y)
               (cwk y ++ map (fun p => (p, None)) news) (coutq y)
               (filter (fun d => cunres s' (lost_job d)) (clost y)) (ckills y))
  | _ => None                  (* the pass raised (restart limiter): not a step of this system *)
  end.

Definition crash_step (y : csys) (a : cstep) : option csys :=
  match a with
  | CSubmit =>
    match ctodo y with
    | O => None
    | S k =>
      match step (cpar y) (EApply None None None None) with
      | (s', RNone) => Some (mkcs s' (cbad y) k (ctaskq y ++ [Z.of_nat (length (jobs (cpar y)))]) (cinq y)
                                  (cwk y) (coutq y) (clost y) (ckills y))
      | _ => None              (* no free slot: the client waits *)
      end
    end
  | CPut =>
    match ctaskq y with
    | [] => None
    | j :: r => Some (mkcs (cpar y) (cbad y) (ctodo y) r (cinq y ++ [j]) (cwk y) (coutq y) (clost y) (ckills y))
    end
  | CTake p =>
    match wk_get (cwk y) p, cinq y with
    | Some None, j :: r =>
      Some (mkcs (cpar y) (cbad y) (ctodo y) (ctaskq y) r (wk_set (cwk y) p (Some j))
                 (coutq y ++ [MAck j p]) (clost y) (ckills y))
    | _, _ => None
    end
  | CFinish p =>
    match wk_get (cwk y) p with
    | Some (Some j) =>
      Some (mkcs (cpar y) (cbad y) (ctodo y) (ctaskq y) (cinq y) (wk_set (cwk y) p None)
                 (coutq y ++ [MReady j p (task_ok (cbad y) j) (tag_of j)]) (clost y) (ckills y))
    | _ => None
    end
  | CRecv =>
    match coutq y with
    | [] => None
    | MAck j p :: r =>
      Some (mkcs (fst (step (cpar y) (EAck j None p))) (cbad y) (ctodo y) (ctaskq y) (cinq y) (cwk y) r
                 (clost y) (ckills y))
    | MReady j p ok t :: r =>
      Some (mkcs (fst (step (cpar y) (EReady j None ok t))) (cbad y) (ctodo y) (ctaskq y) (cinq y) (cwk y) r
                 (clost y) (ckills y))
    end
  | CKill p code =>
    match ckills y, wk_get (cwk y) p with
    | S k, Some (Some j) =>
      Some (mkcs (fst (step (cpar y) (EExit p code))) (cbad y) (ctodo y) (ctaskq y) (cinq y)
                 (wk_del (cwk y) p) (coutq y) (clost y ++ [(p, j, code)]) k)
    | _, _ => None
    end
  | CTick => if drained (cpar y) (coutq y) then tick_to y else None
  | CTickEarly => if drained (cpar y) (coutq y) then None else tick_to y
  | CAdvance d =>
    if 0 <? d
    then Some (mkcs (fst (step (cpar y) (EAdvance d))) (cbad y) (ctodo y) (ctaskq y) (cinq y) (cwk y)
                    (coutq y) (clost y) (ckills y))
    else None
  end.

Definition cinit (c : config) (n : nat) (bad : list Z) (kills : nat) : csys :=
  mkcs (init c) bad n [] [] (map (fun p => (p, None)) (wlist (init c))) [] [] kills.

Fixpoint crun (y : csys) (sched : list cstep) : option csys :=
  match sched with
  | [] => Some y
  | a :: r => match crash_step y a with Some y' => crun y' r | None => None end
  end.

(* the parent events a schedule amounts to *)
Definition cevent (y : csys) (a : cstep) : list event :=
  match a, coutq y with
  | CSubmit, _ => [EApply None None None None]
  | CRecv, MAck j p :: _ => [EAck j None p]
  | CRecv, MReady j p ok t :: _ => [EReady j None ok t]
  | CKill p code, _ => [EExit p code]
  | CTick, _ => [ETick]
  | CTickEarly, _ => [ETick]
  | CAdvance d, _ => [EAdvance d]
  | _, _ => []
  end.

Fixpoint cevents_of (y : csys) (sched : list cstep) : list event :=
  match sched with
  | [] => []
  | a :: r =>
    match crash_step y a with
    | None => []
    | Some y' => cevent y a ++ cevents_of y' r
    end
  end.

(* ------------------------------------------------------------------ where the unresolved jobs are *)
(* (job, pid) of the busy workers / of the READY messages / of the lost jobs *)
Definition running (w : list (Z * option Z)) : list (Z * Z) :=
  flat_map (fun e => match snd e with Some j => [(j, fst e)] | None => [] end) w.
Definition creadys (q : list msg) : list (Z * Z) :=
  flat_map (fun m => match m with MReady j p _ _ => [(j, p)] | MAck _ _ => [] end) q.
Definition losts (l : list (Z * Z * Z)) : list (Z * Z) := map (fun d => (lost_job d, lost_pid d)) l.
(* the jobs a worker has taken and that are not resolved yet, with that worker *)
Definition started (y : csys) : list (Z * Z) := running (cwk y) ++ creadys (coutq y) ++ losts (clost y).
Definition ctokens (y : csys) : list Z := ctaskq y ++ cinq y ++ map fst (started y).
(* the lost jobs whose worker is not reaped yet (they still hold their slot) *)
Definition unreaped (y : csys) : list (Z * Z * Z) :=
  filter (fun d => in_pool (cpar y) (lost_pid d)) (clost y).
(* the tokens that hold a slot of the semaphore: everything but the marked jobs (a pass gives back
   one slot per worker it reaps) *)
Definition slot_holders (y : csys) : nat :=
  (length (ctaskq y) + length (cinq y) + length (running (cwk y)) + length (creadys (coutq y))
   + length (unreaped y))%nat.

(* ------------------------------------------------------------------ work, measure, useful steps *)
Definition grace (s : pool) : nat := Z.to_nat (dflt_lost s + 1).

(* what is left of the grace period of a marked job (0 = a pass would fail it now) *)
Definition rem_grace (s : pool) (j : Z) : nat :=
  match get_job s j with
  | Some x => match worker_lost x with
              | Some (t, _) => Z.to_nat (lost_timeout x + 1 - (now s - t))
              | None => 0%nat
              end
  | None => 0%nat
  end.

Definition lost_weight (s : pool) (d : Z * Z * Z) : nat :=
  if in_pool s (lost_pid d) then (grace s + 2)%nat else (1 + rem_grace s (lost_job d))%nat.

(* the work still to do (crashes still to come not counted) *)
Definition cwork (y : csys) : nat :=
  (6 * ctodo y + 5 * length (ctaskq y) + 4 * length (cinq y) + 2 * length (running (cwk y))
   + length (coutq y) + list_sum (map (lost_weight (cpar y)) (clost y)))%nat.

Definition cmeasure (y : csys) : nat := (cwork y + ckills y * (grace (cpar y) + 3))%nat.

Definition is_marked (x : job) : bool := match worker_lost x with Some _ => true | None => false end.

(* a pass has something to do: a worker to reap, a marked job past its grace period, or a
   missing worker *)
Definition useful_tick (s : pool) : bool :=
  existsb (exited s) (wlist s) || existsb (lost_due s) (jobs s)
  || (Z.of_nat (length (wlist s)) <? nprocs s).
(* waiting has a point: some marked job is not yet past its grace period *)
Definition useful_advance (s : pool) : bool :=
  existsb (fun x => incache x && negb (ready x) && is_marked x && negb (lost_due s x)) (jobs s).

Definition useful (y : csys) (a : cstep) : bool :=
  match a with
  | CTick | CTickEarly => useful_tick (cpar y)
  | CAdvance _ => useful_advance (cpar y)
  | _ => true
  end.

Definition is_early (a : cstep) : bool := match a with CTickEarly => true | _ => false end.
Definition is_kill (a : cstep) : bool := match a with CKill _ _ => true | _ => false end.

(* schedules whose passes and waits all have a point *)
Fixpoint all_useful (y : csys) (sched : list cstep) : Prop :=
  match sched with
  | [] => True
  | a :: r => useful y a = true /\ match crash_step y a with Some y' => all_useful y' r | None => True end
  end.

Definition no_early (sched : list cstep) : Prop := forall a, In a sched -> is_early a = false.
Definition no_kill (sched : list cstep) : Prop := forall a, In a sched -> is_kill a = false.

(* ------------------------------------------------------------------ a deterministic scheduler
   (for evaluation: Examples and witnesses).  [codes] = exit statuses of the kills, in order;
   the first enabled useful candidate in a fixed order rotated by a seed. *)
Definition ccandidates (y : csys) (code : Z) (early : bool) : list cstep :=
  [CRecv; CSubmit; CPut]
    ++ flat_map (fun e => [CFinish (fst e); CTake (fst e); CKill (fst e) code]) (cwk y)
    ++ [CTick; CAdvance 4] ++ (if early then [CTickEarly] else []).

Definition cpick (y : csys) (seed : nat) (code : Z) (early : bool) : option cstep :=
  find (fun a => useful y a && match crash_step y a with Some _ => true | None => false end)
       (rotate (seed mod 11) (ccandidates y code early)).

Fixpoint cauto_run (fuel : nat) (seeds : list nat) (codes : list Z) (early : bool) (y : csys)
  : csys * list cstep :=
  match fuel with
  | O => (y, [])
  | S f =>
    match cpick y (hd O seeds) (hd (-9) codes) early with
    | None => (y, [])
    | Some a =>
      match crash_step y a with
      | Some y' =>
        let (z, l) := cauto_run f (tl seeds) (if is_kill a then tl codes else codes) early y' in
        (z, a :: l)
      | None => (y, [])
      end
    end
  end.

(* ------------------------------------------------------------------ correspondence
   A closed-system case with crashes: configuration, number of calls, raising tasks, crash
   budget, the schedule the harness chose (it plays client, queues, workers, result pipe and
   the killer; the REAL parent-side code is the parent), the parent events it issued, the
   implementation's observation after each of them, and whether the harness found nothing
   left to do (no step but a kill, a pass without a point or a wait without a point). *)
Definition cevent_eqb (a b : event) : bool :=
  match a, b with
  | EApply None None None None, EApply None None None None => true
  | EAck j None p, EAck j' None p' => (j =? j') && (p =? p')
  | EReady j None ok t, EReady j' None ok' t' => (j =? j') && Bool.eqb ok ok' && (t =? t')
  | EExit p c, EExit p' c' => (p =? p') && (c =? c')
  | ETick, ETick => true
  | EAdvance d, EAdvance d' => d =? d'
  | _, _ => false
  end.

Definition crash_case := (config * nat * list Z * nat * list cstep * list event * list obs * bool)%type.

Definition check_crash_case (c : crash_case) : Z :=
  let '(cfg, n, bad, kills, sched, evs, os, maximal) := c in
  match crun (cinit cfg n bad kills) sched with
  | None => 7001         (* the implementation took a step that is not enabled in the model *)
  | Some y =>
    if negb (list_eqb cevent_eqb (cevents_of (cinit cfg n bad kills) sched) evs) then 7002
    else if maximal && negb (Nat.eqb (cwork y) 0) then 7003   (* the harness sees nothing to do, the model has work left *)
    else if negb maximal && Nat.eqb (cwork y) 0 then 7004     (* work left where the model has none *)
    else Pool.check_case (cfg, evs, os)
  end.
