(* Model of billiard.common.restart_state and of the events that touch it
   (ResultHandler.on_ack resets R).  Executable, no proofs in here. *)
From Coq Require Import ZArith List Bool.
Import ListNotations.
Open Scope Z_scope.

Record rs := mk_rs { R : Z; T : option Z; maxR : option Z; maxT : Z }.

Definition rs_init (mr : option Z) (mt : Z) : rs := mk_rs 0 None mr mt.

(* Python truthiness of an int-or-None *)
Definition truthy (o : option Z) : bool :=
  match o with Some z => negb (z =? 0) | None => false end.

Definition window_expired (s : rs) (now : Z) : bool :=
  match T s with
  | Some t => negb (t =? 0) && (now - t >=? maxT s)
  | None => false
  end.

Definition over_budget (s : rs) : bool :=
  match maxR s with
  | Some m => negb (m =? 0) && (R s >=? m)
  | None => false
  end.

Definition first_T (t : option Z) (now : Z) : option Z :=
  match t with None => Some now | Some _ => t end.

(* returns the new state and whether RestartFreqExceeded was raised *)
Definition step (s : rs) (now : Z) : rs * bool :=
  if window_expired s now then
    (mk_rs 1 (Some now) (maxR s) (maxT s), false)
  else if over_budget s && negb (R s =? 0) then
    (mk_rs 0 (T s) (maxR s) (maxT s), true)
  else
    (mk_rs (R s + 1) (first_T (T s) now) (maxR s) (maxT s), false).

Definition ack (s : rs) : rs := mk_rs 0 (T s) (maxR s) (maxT s).

Inductive ev := Step (now : Z) | Ack.

Definition do_ev (s : rs) (e : ev) : rs * bool :=
  match e with
  | Step now => step s now
  | Ack => (ack s, false)
  end.

(* run a history; outputs in order: true = that event raised *)
Fixpoint run (s : rs) (tr : list ev) : rs * list bool :=
  match tr with
  | [] => (s, [])
  | e :: r => let (s1, o) := do_ev s e in
              let (s2, os) := run s1 r in (s2, o :: os)
  end.

Definition rs_eqb (a b : rs) : bool :=
  let oe x y := match x, y with
                | Some p, Some q => p =? q | None, None => true | _, _ => false end in
  (R a =? R b) && oe (T a) (T b) && oe (maxR a) (maxR b) && (maxT a =? maxT b).

(* ---- correspondence: one case = configuration, history, what the implementation did *)
From BV Require Import Lib.Cases.
Definition case := (option Z * Z * list ev * (list bool * Z * option Z))%type.
(* 0 = identical; 1 = same admit/raise outputs but different counters; 2 = outputs differ *)
Definition check_case (c : case) : Z :=
  let '(mr, mt, tr, (outs, r, t)) := c in
  let (s, mo) := run (rs_init mr mt) tr in
  if negb (list_eqb Bool.eqb outs mo) then 2
  else if (R s =? r) && opt_eqb Z.eqb (T s) t then 0 else 1.

(* ---- the start-up burst of Supervisor.body: for ten passes, one every tenth of a second, the
   pool's limiter is replaced by a fresh one with budget 10 * slots and a window of one second
   (clock in tenths: window 10).  A pass creates workers one by one; a creation that is charged
   consults the limiter first, and a raise ends the supervisor before that fork. *)
Definition burst_state (slots : Z) (second : Z) : rs := rs_init (Some (10 * slots)) second.

Fixpoint burst_pass (s : rs) (now : Z) (need : list bool) (forks : nat) : rs * nat * bool :=
  match need with
  | [] => (s, forks, false)
  | charged :: r =>
    if charged then
      let (s1, raised) := step s now in
      if raised then (s1, forks, true) else burst_pass s1 now r (S forks)
    else burst_pass s now r (S forks)
  end.

(* forks per pass, and the (1-based) pass that raised *)
Fixpoint burst (s : rs) (now : Z) (k : nat) (passes : list (list bool)) : list nat * option nat :=
  match passes with
  | [] => ([], None)
  | need :: r =>
    let '(s1, forks, raised) := burst_pass s now need O in
    if raised then ([forks], Some k)
    else let (fs, ra) := burst s1 (now + 1) (S k) r in (forks :: fs, ra)
  end.

Definition burst_case := (Z * Z * list (list bool) * (list nat * option nat))%type.
Definition check_burst_case (c : burst_case) : Z :=
  let '(slots, t0, passes, (forks, raised)) := c in
  let (mf, mr) := burst (burst_state slots 10) t0 1 passes in
  if list_eqb Nat.eqb mf forks && opt_eqb Nat.eqb mr raised then 0 else 3.
