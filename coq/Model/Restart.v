(* Model of billiard.common.restart_state and of the events that touch it
   (ResultHandler.on_ack resets R).  Executable, no proofs in here. *)
From Coq Require Import ZArith List Bool.
Import ListNotations.
Open Scope Z_scope.

Record rs := mk_rs { R : Z; T : option Z; maxR : option Z; maxT : Z }.

Definition rs_init (mr : option Z) (mt : Z) : rs := mk_rs 0 None mr mt.

(* Python truthiness of an int-or-None *)
Definition truthy (o : option Z) : bool :=
  match o with Some z => negb (z =? 0) | None => false end.

Definition window_expired (s : rs) (now : Z) : bool :=
  match T s with
  | Some t => negb (t =? 0) && (now - t >=? maxT s)
  | None => false
  end.

Definition over_budget (s : rs) : bool :=
  match maxR s with
  | Some m => negb (m =? 0) && (R s >=? m)
  | None => false
  end.

Definition first_T (t : option Z) (now : Z) : option Z :=
  match t with None => Some now | Some _ => t end.

(* returns the new state and whether RestartFreqExceeded was raised *)
Definition step (s : rs) (now : Z) : rs * bool :=
  if window_expired s now then
    (mk_rs 1 (Some now) (maxR s) (maxT s), false)
  else if over_budget s && negb (R s =? 0) then
    (mk_rs 0 (T s) (maxR s) (maxT s), true)
  else
    (mk_rs (R s + 1) (first_T (T s) now) (maxR s) (maxT s), false).

Definition ack (s : rs) : rs := mk_rs 0 (T s) (maxR s) (maxT s).

Inductive ev := Step (now : Z) | Ack.

Definition do_ev (s : rs) (e : ev) : rs * bool :=
  match e with
  | Step now => step s now
  | Ack => (ack s, false)
  end.

(* run a history; outputs in order: true = that event raised *)
Fixpoint run (s : rs) (tr : list ev) : rs * list bool :=
  match tr with
  | [] => (s, [])
  | e :: r => let (s1, o) := do_ev s e in
              let (s2, os) := run s1 r in (s2, o :: os)
  end.

Definition rs_eqb (a b : rs) : bool :=
  let oe x y := match x, y with
                | Some p, Some q => p =? q | None, None => true | _, _ => false end in
  (R a =? R b) && oe (T a) (T b) && oe (maxR a) (maxR b) && (maxT a =? maxT b).

(* ---- correspondence: one case = configuration, history, what the implementation did *)
From BV Require Import Lib.Cases.
Definition case := (option Z * Z * list ev * (list bool * Z * option Z))%type.
(* 0 = identical; 1 = same admit/raise outputs but different counters; 2 = outputs differ *)
Definition check_case (c : case) : Z :=
  let '(mr, mt, tr, (outs, r, t)) := c in
  let (s, mo) := run (rs_init mr mt) tr in
  if negb (list_eqb Bool.eqb outs mo) then 2
  else if (R s =? r) && opt_eqb Z.eqb (T s) t then 0 else 1.
