(* CondProg: the SemProg programs of billiard.synchronize.Condition / Event and of the
   client functions of harness/c17_clients.py, the C17 world, and the correspondence
   check.  Executable, no proofs in here.

   The instruction lists below are the hand-kept model; translate/kernels/semprog.py
   recompiles the same methods from the repository's working tree into Gen/P_cond.v on
   every run and Proofs/CondProofs.v proves Gen = Model by reflexivity.

   Semaphore ids: 0 L = Condition._lock, 1 S = _sleeping_count, 2 W = _woken_count,
   3 T = _wait_semaphore, 4 F = Event._flag, 5 user Semaphore(k), 6 user
   BoundedSemaphore(k), 7 user Lock, 8 user RLock.
   Registers: r0 = `timeout is not None`, r1 = `block`, r7 scratch, others locals. *)
From Coq Require Import ZArith List Bool.
From BV Require Import Lib.Cases Model.SemProg.
Import ListNotations.
Open Scope Z_scope.

(* constructor parameters (recursive?, initial value, maxvalue) *)
Definition SEM_VALUE_MAX : Z := 2147483647.
Definition ctor_Lock : sem := mkSem 1 1 false.
Definition ctor_RLock : sem := mkSem 1 1 true.
Definition ctor_Semaphore (v : Z) : sem := mkSem v SEM_VALUE_MAX false.
Definition ctor_BoundedSemaphore (v : Z) : sem := mkSem v v false.
(* Condition(lock): _lock, _sleeping_count, _woken_count, _wait_semaphore *)
Definition ctor_Condition (lock : sem) : list sem :=
  [lock; ctor_Semaphore 0; ctor_Semaphore 0; ctor_Semaphore 0].
Definition ctor_Condition_default : list sem := ctor_Condition ctor_RLock.
(* Event(): _cond = Condition(Lock()), _flag *)
Definition ctor_Event : list sem := ctor_Condition ctor_Lock ++ [ctor_Semaphore 0].

Definition p_c_wait : list instr :=
  [ Acq 0 FT FF 7                (*  0 *);
    AssertMine 0                 (*  1 *);
    Rel 1                        (*  2 *);
    Count 0 3                    (*  3 *);
    Mov 4 0                      (*  4 *);
    Jge 4 3 9                    (*  5 *);
    Rel 0                        (*  6 *);
    Inc 4                        (*  7 *);
    Jmp 5                        (*  8 *);
    Acq 3 FT (FR 0) 2            (*  9 *);
    Rel 2                        (* 10 *);
    Mov 4 0                      (* 11 *);
    Jge 4 3 16                   (* 12 *);
    Acq 0 FT FF 7                (* 13 *);
    Inc 4                        (* 14 *);
    Jmp 12                       (* 15 *);
    Jmp 17                       (* 16 *);
    Rel 0                        (* 17 *);
    Ret (RReg 2)                 (* 18 *) ].

Definition p_c_notify : list instr :=
  [ Acq 0 FT FF 7                (*  0 *);
    AssertMine 0                 (*  1 *);
    Acq 3 FF FF 7                (*  2 *);
    AssertZ 7                    (*  3 *);
    Acq 2 FF FF 7                (*  4 *);
    Jz 7 9                       (*  5 *);
    Acq 1 FF FF 2                (*  6 *);
    AssertNZ 2                   (*  7 *);
    Jmp 4                        (*  8 *);
    Acq 1 FF FF 7                (*  9 *);
    Jz 7 14                      (* 10 *);
    Rel 3                        (* 11 *);
    Acq 2 FT FF 7                (* 12 *);
    Acq 3 FF FF 7                (* 13 *);
    Rel 0                        (* 14 *);
    Ret RNone                    (* 15 *) ].

Definition p_c_notify_all : list instr :=
  [ Acq 0 FT FF 7                (*  0 *);
    AssertMine 0                 (*  1 *);
    Acq 3 FF FF 7                (*  2 *);
    AssertZ 7                    (*  3 *);
    Acq 2 FF FF 7                (*  4 *);
    Jz 7 9                       (*  5 *);
    Acq 1 FF FF 2                (*  6 *);
    AssertNZ 2                   (*  7 *);
    Jmp 4                        (*  8 *);
    Mov 3 0                      (*  9 *);
    Acq 1 FF FF 7                (* 10 *);
    Jz 7 15                      (* 11 *);
    Rel 3                        (* 12 *);
    Inc 3                        (* 13 *);
    Jmp 10                       (* 14 *);
    Jz 3 24                      (* 15 *);
    Mov 4 0                      (* 16 *);
    Jge 4 3 21                   (* 17 *);
    Acq 2 FT FF 7                (* 18 *);
    Inc 4                        (* 19 *);
    Jmp 17                       (* 20 *);
    Acq 3 FF FF 7                (* 21 *);
    Jz 7 24                      (* 22 *);
    Jmp 21                       (* 23 *);
    Rel 0                        (* 24 *);
    Ret RNone                    (* 25 *) ].

Definition p_e_is_set : list instr :=
  [ Acq 0 FT FF 7                (*  0 *);
    Acq 4 FF FF 7                (*  1 *);
    Jz 7 7                       (*  2 *);
    Rel 4                        (*  3 *);
    Rel 0                        (*  4 *);
    Mov 2 1                      (*  5 *);
    Jmp 10                       (*  6 *);
    Rel 0                        (*  7 *);
    Mov 2 0                      (*  8 *);
    Jmp 10                       (*  9 *);
    Ret (RReg 2)                 (* 10 *) ].

Definition p_e_set : list instr :=
  [ Acq 0 FT FF 7                (*  0 *);
    Acq 4 FF FF 7                (*  1 *);
    Rel 4                        (*  2 *);
    AssertMine 0                 (*  3 *);
    Acq 3 FF FF 7                (*  4 *);
    AssertZ 7                    (*  5 *);
    Acq 2 FF FF 7                (*  6 *);
    Jz 7 11                      (*  7 *);
    Acq 1 FF FF 2                (*  8 *);
    AssertNZ 2                   (*  9 *);
    Jmp 6                        (* 10 *);
    Mov 3 0                      (* 11 *);
    Acq 1 FF FF 7                (* 12 *);
    Jz 7 17                      (* 13 *);
    Rel 3                        (* 14 *);
    Inc 3                        (* 15 *);
    Jmp 12                       (* 16 *);
    Jz 3 26                      (* 17 *);
    Mov 4 0                      (* 18 *);
    Jge 4 3 23                   (* 19 *);
    Acq 2 FT FF 7                (* 20 *);
    Inc 4                        (* 21 *);
    Jmp 19                       (* 22 *);
    Acq 3 FF FF 7                (* 23 *);
    Jz 7 26                      (* 24 *);
    Jmp 23                       (* 25 *);
    Rel 0                        (* 26 *);
    Ret RNone                    (* 27 *) ].

Definition p_e_clear : list instr :=
  [ Acq 0 FT FF 7                (*  0 *);
    Acq 4 FF FF 7                (*  1 *);
    Rel 0                        (*  2 *);
    Ret RNone                    (*  3 *) ].

Definition p_e_wait : list instr :=
  [ Acq 0 FT FF 7                (*  0 *);
    Acq 4 FF FF 7                (*  1 *);
    Jz 7 5                       (*  2 *);
    Rel 4                        (*  3 *);
    Jmp 21                       (*  4 *);
    AssertMine 0                 (*  5 *);
    Rel 1                        (*  6 *);
    Count 0 3                    (*  7 *);
    Mov 4 0                      (*  8 *);
    Jge 4 3 13                   (*  9 *);
    Rel 0                        (* 10 *);
    Inc 4                        (* 11 *);
    Jmp 9                        (* 12 *);
    Acq 3 FT (FR 0) 5            (* 13 *);
    Rel 2                        (* 14 *);
    Mov 4 0                      (* 15 *);
    Jge 4 3 20                   (* 16 *);
    Acq 0 FT FF 7                (* 17 *);
    Inc 4                        (* 18 *);
    Jmp 16                       (* 19 *);
    Jmp 21                       (* 20 *);
    Acq 4 FF FF 7                (* 21 *);
    Jz 7 27                      (* 22 *);
    Rel 4                        (* 23 *);
    Rel 0                        (* 24 *);
    Mov 2 1                      (* 25 *);
    Jmp 30                       (* 26 *);
    Rel 0                        (* 27 *);
    Mov 2 0                      (* 28 *);
    Jmp 30                       (* 29 *);
    Ret (RReg 2)                 (* 30 *) ].

Definition p_u_acquire : list instr :=
  [ Acq 5 (FR 1) (FR 0) 2        (*  0 *);
    Ret (RReg 2)                 (*  1 *) ].

Definition p_u_release : list instr :=
  [ Rel 5                        (*  0 *);
    Ret RNone                    (*  1 *) ].

Definition p_ub_acquire : list instr :=
  [ Acq 6 (FR 1) (FR 0) 2        (*  0 *);
    Ret (RReg 2)                 (*  1 *) ].

Definition p_ub_release : list instr :=
  [ Rel 6                        (*  0 *);
    Ret RNone                    (*  1 *) ].

Definition p_ul_acquire : list instr :=
  [ Acq 7 (FR 1) (FR 0) 2        (*  0 *);
    Ret (RReg 2)                 (*  1 *) ].

Definition p_ul_release : list instr :=
  [ Rel 7                        (*  0 *);
    Ret RNone                    (*  1 *) ].

Definition p_ur_acquire : list instr :=
  [ Acq 8 (FR 1) (FR 0) 2        (*  0 *);
    Ret (RReg 2)                 (*  1 *) ].

Definition p_ur_release : list instr :=
  [ Rel 8                        (*  0 *);
    Ret RNone                    (*  1 *) ].

Definition p_c_wait2 : list instr :=
  [ Acq 0 FT FF 7                (*  0 *);
    Acq 0 FT FF 7                (*  1 *);
    AssertMine 0                 (*  2 *);
    Rel 1                        (*  3 *);
    Count 0 3                    (*  4 *);
    Mov 4 0                      (*  5 *);
    Jge 4 3 10                   (*  6 *);
    Rel 0                        (*  7 *);
    Inc 4                        (*  8 *);
    Jmp 6                        (*  9 *);
    Acq 3 FT (FR 0) 2            (* 10 *);
    Rel 2                        (* 11 *);
    Mov 4 0                      (* 12 *);
    Jge 4 3 17                   (* 13 *);
    Acq 0 FT FF 7                (* 14 *);
    Inc 4                        (* 15 *);
    Jmp 13                       (* 16 *);
    Jmp 18                       (* 17 *);
    Rel 0                        (* 18 *);
    Rel 0                        (* 19 *);
    Ret (RReg 2)                 (* 20 *) ].

Definition code (c : nat) : list instr :=
  match c with
  | 0%nat => p_c_wait
  | 1%nat => p_c_notify
  | 2%nat => p_c_notify_all
  | 3%nat => p_e_is_set
  | 4%nat => p_e_set
  | 5%nat => p_e_clear
  | 6%nat => p_e_wait
  | 7%nat => p_u_acquire
  | 8%nat => p_u_release
  | 9%nat => p_ub_acquire
  | 10%nat => p_ub_release
  | 11%nat => p_ul_acquire
  | 12%nat => p_ul_release
  | 13%nat => p_ur_acquire
  | 14%nat => p_ur_release
  | 15%nat => p_c_wait2
  | _ => []
  end.


(* ------------------------------------------------------------------ the C17 world *)
Definition sL : nat := 0.  Definition sS : nat := 1.  Definition sW : nat := 2.
Definition sT : nat := 3.  Definition sF : nat := 4.

(* lockrec: the condition's lock is an RLock (Condition()) or a Lock (Event()._cond) *)
Definition world (lockrec : bool) (k : Z) : list sem :=
  ctor_Condition (if lockrec then ctor_RLock else ctor_Lock)
  ++ [ctor_Semaphore 0; ctor_Semaphore k; ctor_BoundedSemaphore k; ctor_Lock; ctor_RLock].

Definition init (lockrec : bool) (k : Z) (scripts : list (list call)) : sys :=
  init_sys code (world lockrec k) scripts.

