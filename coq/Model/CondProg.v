(* CondProg: the SemProg programs of billiard.synchronize.Condition / Event and of the
   client functions of harness/c17_clients.py, the C17 world, and the correspondence
   check.  Executable, no proofs in here.

   The instruction lists below are the hand-kept model; translate/kernels/semprog.py
   recompiles the same methods from the repository's working tree into Gen/P_cond.v on
   every run and Proofs/CondProofs.v proves Gen = Model by reflexivity.

   Semaphore ids: 0 L = Condition._lock, 1 S = _sleeping_count, 2 W = _woken_count,
   3 T = _wait_semaphore, 4 F = Event._flag, 5 user Semaphore(k), 6 user
   BoundedSemaphore(k), 7 user Lock, 8 user RLock.
   Registers: r0 = `timeout is not None`, r1 = `block`, r7 scratch, others locals. *)
From Coq Require Import ZArith List Bool.
From BV Require Import Lib.Cases Model.SemProg.
Import ListNotations.
Open Scope Z_scope.

(* constructor parameters (recursive?, initial value, maxvalue) *)
Definition SEM_VALUE_MAX : Z := 2147483647.
Definition ctor_Lock : sem := mkSem 1 1 false.
Definition ctor_RLock : sem := mkSem 1 1 true.
Definition ctor_Semaphore (v : Z) : sem := mkSem v SEM_VALUE_MAX false.
Definition ctor_BoundedSemaphore (v : Z) : sem := mkSem v v false.
(* Condition(lock): _lock, _sleeping_count, _woken_count, _wait_semaphore *)
Definition ctor_Condition (lock : sem) : list sem :=
  [lock; ctor_Semaphore 0; ctor_Semaphore 0; ctor_Semaphore 0].
Definition ctor_Condition_default : list sem := ctor_Condition ctor_RLock.
(* Event(): _cond = Condition(Lock()), _flag *)
Definition ctor_Event : list sem := ctor_Condition ctor_Lock ++ [ctor_Semaphore 0].

Definition p_c_wait : list instr :=
  [ Acq 0 FT FF 7                (*  0 *);
    AssertMine 0                 (*  1 *);
    Rel 1                        (*  2 *);
    Count 0 3                    (*  3 *);
    Mov 4 0                      (*  4 *);
    Jge 4 3 9                    (*  5 *);
    Rel 0                        (*  6 *);
    Inc 4                        (*  7 *);
    Jmp 5                        (*  8 *);
    Acq 3 FT (FR 0) 2            (*  9 *);
    Rel 2                        (* 10 *);
    Mov 4 0                      (* 11 *);
    Jge 4 3 16                   (* 12 *);
    Acq 0 FT FF 7                (* 13 *);
    Inc 4                        (* 14 *);
    Jmp 12                       (* 15 *);
    Jmp 17                       (* 16 *);
    Rel 0                        (* 17 *);
    Ret (RReg 2)                 (* 18 *) ].

Definition p_c_notify : list instr :=
  [ Acq 0 FT FF 7                (*  0 *);
    AssertMine 0                 (*  1 *);
    Acq 3 FF FF 7                (*  2 *);
    AssertZ 7                    (*  3 *);
    Acq 2 FF FF 7                (*  4 *);
    Jz 7 9                       (*  5 *);
    Acq 1 FF FF 2                (*  6 *);
    AssertNZ 2                   (*  7 *);
    Jmp 4                        (*  8 *);
    Acq 1 FF FF 7                (*  9 *);
    Jz 7 14                      (* 10 *);
    Rel 3                        (* 11 *);
    Acq 2 FT FF 7                (* 12 *);
    Acq 3 FF FF 7                (* 13 *);
    Rel 0                        (* 14 *);
    Ret RNone                    (* 15 *) ].

Definition p_c_notify_all : list instr :=
  [ Acq 0 FT FF 7                (*  0 *);
    AssertMine 0                 (*  1 *);
    Acq 3 FF FF 7                (*  2 *);
    AssertZ 7                    (*  3 *);
    Acq 2 FF FF 7                (*  4 *);
    Jz 7 9                       (*  5 *);
    Acq 1 FF FF 2                (*  6 *);
    AssertNZ 2                   (*  7 *);
    Jmp 4                        (*  8 *);
    Mov 3 0                      (*  9 *);
    Acq 1 FF FF 7                (* 10 *);
    Jz 7 15                      (* 11 *);
    Rel 3                        (* 12 *);
    Inc 3                        (* 13 *);
    Jmp 10                       (* 14 *);
    Jz 3 24                      (* 15 *);
    Mov 4 0                      (* 16 *);
    Jge 4 3 21                   (* 17 *);
    Acq 2 FT FF 7                (* 18 *);
    Inc 4                        (* 19 *);
    Jmp 17                       (* 20 *);
    Acq 3 FF FF 7                (* 21 *);
    Jz 7 24                      (* 22 *);
    Jmp 21                       (* 23 *);
    Rel 0                        (* 24 *);
    Ret RNone                    (* 25 *) ].

Definition p_e_is_set : list instr :=
  [ Acq 0 FT FF 7                (*  0 *);
    Acq 4 FF FF 7                (*  1 *);
    Jz 7 7                       (*  2 *);
    Rel 4                        (*  3 *);
    Rel 0                        (*  4 *);
    Mov 2 1                      (*  5 *);
    Jmp 10                       (*  6 *);
    Rel 0                        (*  7 *);
    Mov 2 0                      (*  8 *);
    Jmp 10                       (*  9 *);
    Ret (RReg 2)                 (* 10 *) ].

Definition p_e_set : list instr :=
  [ Acq 0 FT FF 7                (*  0 *);
    Acq 4 FF FF 7                (*  1 *);
    Rel 4                        (*  2 *);
    AssertMine 0                 (*  3 *);
    Acq 3 FF FF 7                (*  4 *);
    AssertZ 7                    (*  5 *);
    Acq 2 FF FF 7                (*  6 *);
    Jz 7 11                      (*  7 *);
    Acq 1 FF FF 2                (*  8 *);
    AssertNZ 2                   (*  9 *);
    Jmp 6                        (* 10 *);
    Mov 3 0                      (* 11 *);
    Acq 1 FF FF 7                (* 12 *);
    Jz 7 17                      (* 13 *);
    Rel 3                        (* 14 *);
    Inc 3                        (* 15 *);
    Jmp 12                       (* 16 *);
    Jz 3 26                      (* 17 *);
    Mov 4 0                      (* 18 *);
    Jge 4 3 23                   (* 19 *);
    Acq 2 FT FF 7                (* 20 *);
    Inc 4                        (* 21 *);
    Jmp 19                       (* 22 *);
    Acq 3 FF FF 7                (* 23 *);
    Jz 7 26                      (* 24 *);
    Jmp 23                       (* 25 *);
    Rel 0                        (* 26 *);
    Ret RNone                    (* 27 *) ].

Definition p_e_clear : list instr :=
  [ Acq 0 FT FF 7                (*  0 *);
    Acq 4 FF FF 7                (*  1 *);
    Rel 0                        (*  2 *);
    Ret RNone                    (*  3 *) ].

Definition p_e_wait : list instr :=
  [ Acq 0 FT FF 7                (*  0 *);
    Acq 4 FF FF 7                (*  1 *);
    Jz 7 5                       (*  2 *);
    Rel 4                        (*  3 *);
    Jmp 21                       (*  4 *);
    AssertMine 0                 (*  5 *);
    Rel 1                        (*  6 *);
    Count 0 3                    (*  7 *);
    Mov 4 0                      (*  8 *);
    Jge 4 3 13                   (*  9 *);
    Rel 0                        (* 10 *);
    Inc 4                        (* 11 *);
    Jmp 9                        (* 12 *);
    Acq 3 FT (FR 0) 5            (* 13 *);
    Rel 2                        (* 14 *);
    Mov 4 0                      (* 15 *);
    Jge 4 3 20                   (* 16 *);
    Acq 0 FT FF 7                (* 17 *);
    Inc 4                        (* 18 *);
    Jmp 16                       (* 19 *);
    Jmp 21                       (* 20 *);
    Acq 4 FF FF 7                (* 21 *);
    Jz 7 27                      (* 22 *);
    Rel 4                        (* 23 *);
    Rel 0                        (* 24 *);
    Mov 2 1                      (* 25 *);
    Jmp 30                       (* 26 *);
    Rel 0                        (* 27 *);
    Mov 2 0                      (* 28 *);
    Jmp 30                       (* 29 *);
    Ret (RReg 2)                 (* 30 *) ].

Definition p_u_acquire : list instr :=
  [ Acq 5 (FR 1) (FR 0) 2        (*  0 *);
    Ret (RReg 2)                 (*  1 *) ].

Definition p_u_release : list instr :=
  [ Rel 5                        (*  0 *);
    Ret RNone                    (*  1 *) ].

Definition p_ub_acquire : list instr :=
  [ Acq 6 (FR 1) (FR 0) 2        (*  0 *);
    Ret (RReg 2)                 (*  1 *) ].

Definition p_ub_release : list instr :=
  [ Rel 6                        (*  0 *);
    Ret RNone                    (*  1 *) ].

Definition p_ul_acquire : list instr :=
  [ Acq 7 (FR 1) (FR 0) 2        (*  0 *);
    Ret (RReg 2)                 (*  1 *) ].

Definition p_ul_release : list instr :=
  [ Rel 7                        (*  0 *);
    Ret RNone                    (*  1 *) ].

Definition p_ur_acquire : list instr :=
  [ Acq 8 (FR 1) (FR 0) 2        (*  0 *);
    Ret (RReg 2)                 (*  1 *) ].

Definition p_ur_release : list instr :=
  [ Rel 8                        (*  0 *);
    Ret RNone                    (*  1 *) ].

Definition p_c_wait2 : list instr :=
  [ Acq 0 FT FF 7                (*  0 *);
    Acq 0 FT FF 7                (*  1 *);
    AssertMine 0                 (*  2 *);
    Rel 1                        (*  3 *);
    Count 0 3                    (*  4 *);
    Mov 4 0                      (*  5 *);
    Jge 4 3 10                   (*  6 *);
    Rel 0                        (*  7 *);
    Inc 4                        (*  8 *);
    Jmp 6                        (*  9 *);
    Acq 3 FT (FR 0) 2            (* 10 *);
    Rel 2                        (* 11 *);
    Mov 4 0                      (* 12 *);
    Jge 4 3 17                   (* 13 *);
    Acq 0 FT FF 7                (* 14 *);
    Inc 4                        (* 15 *);
    Jmp 13                       (* 16 *);
    Jmp 18                       (* 17 *);
    Rel 0                        (* 18 *);
    Rel 0                        (* 19 *);
    Ret (RReg 2)                 (* 20 *) ].

Definition code (c : nat) : list instr :=
  match c with
  | 0%nat => p_c_wait
  | 1%nat => p_c_notify
  | 2%nat => p_c_notify_all
  | 3%nat => p_e_is_set
  | 4%nat => p_e_set
  | 5%nat => p_e_clear
  | 6%nat => p_e_wait
  | 7%nat => p_u_acquire
  | 8%nat => p_u_release
  | 9%nat => p_ub_acquire
  | 10%nat => p_ub_release
  | 11%nat => p_ul_acquire
  | 12%nat => p_ul_release
  | 13%nat => p_ur_acquire
  | 14%nat => p_ur_release
  | 15%nat => p_c_wait2
  | _ => []
  end.


(* ------------------------------------------------------------------ the C17 world *)
Definition sL : nat := 0.  Definition sS : nat := 1.  Definition sW : nat := 2.
Definition sT : nat := 3.  Definition sF : nat := 4.

(* lockrec: the condition's lock is an RLock (Condition()) or a Lock (Event()._cond) *)
Definition world (lockrec : bool) (k : Z) : list sem :=
  ctor_Condition (if lockrec then ctor_RLock else ctor_Lock)
  ++ [ctor_Semaphore 0; ctor_Semaphore k; ctor_BoundedSemaphore k; ctor_Lock; ctor_RLock].

Definition init (lockrec : bool) (k : Z) (scripts : list (list call)) : sys :=
  init_sys code (world lockrec k) scripts.

(* ------------------------------------------------------------------ monitors
   Property monitors evaluated on an observed trace alone (they do not use the programs
   above): they decide whether a disagreement between model and implementation is a
   failing input of the PROPERTY (code 2) or only a difference of internal detail (1). *)

Definition is_wait_call (c : nat) : bool := Nat.eqb c 0 || Nat.eqb c 15 || Nat.eqb c 6.
Definition is_nall_call (c : nat) : bool := Nat.eqb c 2 || Nat.eqb c 4.
Definition is_notify_call (c : nat) : bool := Nat.eqb c 1.
Definition is_cond_call (c : nat) : bool := (Nat.leb c 6) || Nat.eqb c 15.

Definition call_at (scripts : list (list call)) (t k : nat) : call :=
  nth k (nth t scripts []) (99%nat, 0, 0).
Definition cid_at scripts t k : nat := let '(c, _, _) := call_at scripts t k in c.
Definition timed_at scripts t k : bool := let '(_, a0, _) := call_at scripts t k in negb (a0 =? 0).

(* m1/m2: results of the condition / event calls *)
Definition result_ok (c : call) (v : Z) : bool :=
  let '(id, a0, _) := c in
  if Nat.eqb id 0 || Nat.eqb id 15 then (if a0 =? 0 then v =? 1 else (v =? 0) || (v =? 1))
  else if Nat.eqb id 1 || Nat.eqb id 2 || Nat.eqb id 4 || Nat.eqb id 5 then v =? V_NONE
  else if Nat.eqb id 3 || Nat.eqb id 6 then (v =? 0) || (v =? 1)
  else true.
Fixpoint results_ok (sc : list call) (rs : list Z) : bool :=
  match sc, rs with
  | c :: sc', v :: rs' => result_ok c v && results_ok sc' rs'
  | _, [] => true
  | [], _ :: _ => false
  end.
Fixpoint all_results_ok (scripts : list (list call)) (res : list (list Z)) : bool :=
  match scripts, res with
  | sc :: s', rs :: r' => results_ok sc rs && all_results_ok s' r'
  | [], [] => true
  | _, _ => false
  end.

(* m3: quiescence *)
Definition quiescent_ok (lockrec : bool) (fins : list bool) (vals : list Z) : bool :=
  if forallb (fun b => b) fins then
    (nth sL vals 0 =? 1) && (nth sS vals 0 =? nth sW vals 0) && (nth sT vals 0 =? 0)
    && ((nth sF vals 0 =? 0) || (nth sF vals 0 =? 1))
  else true.

(* m4: at the end nobody is stuck on the lock, the counters or the flag *)
Definition pending_ok (pend : list Z) : bool :=
  forallb (fun p => negb ((p =? 0) || (p =? 1) || (p =? 2) || (p =? 4))) pend.

(* trace monitor state *)
Record mon := mkMon {
  m_hl : list Z;        (* per thread: hold count of L *)
  m_win : list Z;       (* per thread: 1 between its S.release and its W.release *)
  m_tok : list Z;       (* per thread: 1 once it took a token in the current window *)
  m_last : list Z;      (* per thread: call index of its previous event, -1 none *)
  m_req : list (list nat);   (* per thread: waiters its notify/notify_all must wake *)
  m_ntok : list Z;      (* per thread: T.release count in the current call *)
  m_fl : Z;             (* abstract event flag *)
  m_rd : list Z;        (* per thread: result of its latest read of the flag *)
  m_ok : bool
}.

Fixpoint updl (l : list (list nat)) (i : nat) (v : list nat) : list (list nat) :=
  match i, l with
  | O, [] => [v]
  | O, _ :: r => v :: r
  | S i', [] => [] :: updl [] i' v
  | S i', x :: r => x :: updl r i' v
  end.

Fixpoint seqn (n : nat) : list nat := match n with O => [] | S k => seqn k ++ [k] end.

Definition holders (hl : list Z) : Z :=
  fold_right (fun h a => if 0 <? h then a + 1 else a) 0 hl.

Definition mon_step (scripts : list (list call)) (nthreads : nat)
           (m : mon) (e : event) (k : nat) : mon :=
  let '(t, s, op, r) := e in
  let c := cid_at scripts t k in
  let first := negb (nth t (m_last m) (-1) =? Z.of_nat k) in
  (* entering a new call *)
  let waiting := filter (fun u => (nth u (m_win m) 0 =? 1) && (nth u (m_tok m) 0 =? 0))
                        (seqn nthreads) in
  let untimed u := negb (timed_at scripts u (Z.to_nat (nth u (m_last m) 0))) in
  let req0 :=
      if first then
        if is_nall_call c then filter untimed waiting
        else if is_notify_call c then
          (match filter (fun u => nth u (m_win m) 0 =? 1) (seqn nthreads) with
           | [u] => if untimed u && (nth u (m_tok m) 0 =? 0) then [u] else []
           | _ => []
           end)
        else []
      else nth t (m_req m) [] in
  let ntok0 := if first then 0 else nth t (m_ntok m) 0 in
  let acq_ok := (op =? 0) && (r =? 1) in
  let rel_ok := (op =? 1) && (r =? 0) in
  (* lock bookkeeping *)
  let hl1 := if Nat.eqb s sL then
               if acq_ok then updz (m_hl m) t (nth t (m_hl m) 0 + 1)
               else if rel_ok then updz (m_hl m) t (nth t (m_hl m) 0 - 1)
               else m_hl m
             else m_hl m in
  let mutex_ok := holders hl1 <=? 1 in
  (* window / token bookkeeping (waiters) *)
  let win1 := if Nat.eqb s sS && rel_ok then updz (m_win m) t 1
              else if Nat.eqb s sW && rel_ok then updz (m_win m) t 0 else m_win m in
  let tok1 := if Nat.eqb s sS && rel_ok then updz (m_tok m) t 0
              else if Nat.eqb s sT && acq_ok && is_wait_call c then updz (m_tok m) t 1
              else m_tok m in
  let ntok1 := if Nat.eqb s sT && rel_ok then ntok0 + 1 else ntok0 in
  let one_ok := if is_notify_call c then ntok1 <=? 1 else true in
  (* a notifier leaves: everybody it had to wake holds a token *)
  let leave_ok :=
      if Nat.eqb s sL && rel_ok && (is_nall_call c || is_notify_call c) then
        forallb (fun u => nth u tok1 0 =? 1) req0
      else true in
  (* abstract event flag *)
  let rd_ok := if Nat.eqb s sF && (op =? 0) && (Nat.eqb c 3 || Nat.eqb c 6) then r =? m_fl m else true in
  let fl1 := if Nat.eqb s sF && rel_ok && Nat.eqb c 4 then 1
             else if Nat.eqb s sF && (op =? 0) && Nat.eqb c 5 then 0 else m_fl m in
  let rd1 := if Nat.eqb s sF && (op =? 0) then updz (m_rd m) t r else m_rd m in
  mkMon hl1 win1 tok1 (updz (m_last m) t (Z.of_nat k)) (updl (m_req m) t req0)
        (updz (m_ntok m) t ntok1) fl1 rd1
        (m_ok m && mutex_ok && one_ok && leave_ok && rd_ok).

Fixpoint mon_run scripts n (m : mon) (es : list event) (ks : list nat) : mon :=
  match es, ks with
  | e :: es', k :: ks' => mon_run scripts n (mon_step scripts n m e k) es' ks'
  | _, _ => m
  end.

Definition mon0 : mon := mkMon [] [] [] [] [] [] 0 [] true.

(* is_set / Event.wait return what they last read *)
Fixpoint reads_ok (scripts : list (list call)) (res : list (list Z)) (rd : list Z) (t : nat) : bool :=
  match scripts, res with
  | sc :: s', rs :: r' =>
    (match nth_error sc (pred (length rs)), rev rs with
     | Some (c, _, _), v :: _ =>
       if (Nat.eqb c 3 || Nat.eqb c 6) && Nat.eqb (length rs) (length sc) then v =? nth t rd 0 else true
     | _, _ => true
     end) && reads_ok s' r' rd (S t)
  | _, _ => true
  end.

Definition observed := (list event * list nat * list (list Z) * list bool * list Z * list Z)%type.

Definition monitors (lockrec : bool) (scripts : list (list call)) (o : observed) : bool :=
  let '(es, ks, res, fins, vals, pend) := o in
  let m := mon_run scripts (length scripts) mon0 es ks in
  m_ok m && all_results_ok scripts res && quiescent_ok lockrec fins vals && pending_ok pend
  && reads_ok scripts res (m_rd m) 0.

(* ------------------------------------------------------------------ correspondence
   case = lock kind, k, scripts, schedule, what the implementation did under that schedule:
   events, call index of each event, results per thread (in order), finished flags, final
   semaphore values, semaphore each unfinished thread is blocked on (-1: none) *)
Definition case := (bool * Z * list (list call) * list (nat * bool) * observed)%type.

Definition model_obs (lockrec : bool) (k : Z) (scripts : list (list call))
           (sched : list (nat * bool)) : list event * list (list Z) * list bool * list Z * bool :=
  let '(g, es, ok) := run code (init lockrec k scripts) sched in
  (es, map (fun t => rev (map snd (results t))) (thr g), map fin (thr g), map val (sems g), ok).

(* 0 = identical; 2 = a property monitor fails on the implementation's trace, or the
   same semaphore history gave different call results; 1 = other difference *)
Definition check_case (c : case) : Z :=
  let '(lockrec, k, scripts, sched, o) := c in
  let '(es, ks, res, fins, vals, pend) := o in
  let '(mes, mres, mfins, mvals, ok) := model_obs lockrec k scripts sched in
  let same_ev := list_eqb event_eqb es mes && ok in
  let same_res := list_eqb (list_eqb Z.eqb) res mres in
  if negb (monitors lockrec scripts o) then 2
  else if same_ev && negb same_res then 2
  else if same_ev && same_res && list_eqb Bool.eqb fins mfins && list_eqb Z.eqb vals mvals then 0
  else 1.
