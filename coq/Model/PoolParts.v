(* PoolParts -- the crash-free CLOSED composition for MULTI-PART jobs:

     client --map_async / imap / imap_unordered / apply_async--> parent (Model/Pool.v)
        |  ^                                   | EFeed: the task handler writes the parts, announces imap lengths
        |  +-- next() on imap handles (ENext)  v
        |                               pipe of parts --> workers (ACK then READY per part) --> result pipe
        +---- handles <--------- ResultHandler (EAck j (Some i) p / EReady j (Some i) ok tag) <-----+

   The parent component is the open pool model: every parent transition is a [Pool.step]
   (Proofs/PoolPartsProofs.v [preach_is_run]).  Values are abstract tags, one per part
   ([part_tag]); a map chunk counts as one part.  The task handler's pass is one step (as one
   [EFeed] is one event of the open model): all queued sequences are written to the pipe and the
   lengths of the queued imap jobs are announced.  An apply task is written by the call itself.
   Workers take parts in pipe order, any worker any part; the result pipe is FIFO.  The consumer
   calls next() on an imap handle whenever it would not block ([ENext] returning an item, raising
   the item's error, or raising StopIteration -- once).  Nothing goes wrong: no worker dies, no
   limits, no close(). *)
From Coq Require Import ZArith List Bool Lia.
From BV Require Import Lib.Cases Model.LaxSem Model.Restart Model.Pool Model.PoolSys.
Import ListNotations.
Open Scope Z_scope.

Inductive pcall := CApply | CMap (n cs : nat) | CIMap (n : nat) | CIMapU (n : nat).

Definition part := (Z * option Z)%type.          (* job, part index (None: the single part of an apply job) *)
Inductive pmsg := PAck (j : Z) (i : option Z) (p : Z) | PReady (j : Z) (i : option Z) (p : Z) (ok : bool) (tag : Z).

Definition part_tag (j : Z) (i : option Z) : Z := j * 100 + match i with Some k => k | None => 0 end.
Definition part_eqb (a b : part) : bool := (fst a =? fst b) && opt_eqb Z.eqb (snd a) (snd b).
Definition part_ok (bad : list part) (a : part) : bool := negb (existsb (part_eqb a) bad).

Record psys := mkps {
  ppar : pool;
  pbad : list part;              (* the parts whose task raises *)
  ptodo : list pcall;            (* the calls the client has still to make *)
  pinq : list part;              (* the pipe to the workers *)
  pwk : list (option part);      (* per worker of Pool._pool: the part it is executing *)
  poutq : list pmsg;             (* the result pipe *)
  pnexts : list (Z * ret);       (* ghost: what the consumer's next() calls returned, in order *)
  pstopped : list Z              (* ghost: the iterators that have raised StopIteration *)
}.

Inductive pstep :=
| PSubmit            (* the next call of the client *)
| PFeed              (* the task handler writes everything queued *)
| PTake (i : nat) | PFinish (i : nat)
| PRecv
| PNext (j : Z).     (* the consumer takes the next item of iterator j *)

Definition call_event (c : pcall) : event :=
  match c with
  | CApply => EApply None None None None
  | CMap n cs => EMap (Z.of_nat n) (Z.of_nat cs)
  | CIMap n => EIMap (Z.of_nat n)
  | CIMapU n => EIMapU (Z.of_nat n)
  end.

(* the parts the task handler writes for the queued sequences *)
Definition fed_parts (fs : list (Z * Z * bool)) : list part :=
  flat_map (fun f => map (fun i => (fst (fst f), Some (Z.of_nat i))) (seq 0 (Z.to_nat (snd (fst f))))) fs.

Definition pworker_pid (y : psys) (i : nat) : Z := nth i (wlist (ppar y)) 0.

Definition is_iter (s : pool) (j : Z) : bool :=
  match get_job s j with Some x => is_imap x | None => false end.

Definition parts_step (y : psys) (a : pstep) : option psys :=
  match a with
  | PSubmit =>
    match ptodo y with
    | [] => None
    | c :: r =>
      match step (ppar y) (call_event c) with
      | (s', RNone) =>
        let jn := Z.of_nat (length (jobs (ppar y))) in
        Some (mkps s' (pbad y) r (pinq y ++ match c with CApply => [(jn, None)] | _ => [] end)
                   (pwk y) (poutq y) (pnexts y) (pstopped y))
      | _ => None
      end
    end
  | PFeed =>
    match feeds (ppar y) with
    | [] => None
    | fs =>
      (* the sequences the pass has consumed (all of them, unless the pass raised) *)
      let s' := fst (step (ppar y) (EFeed None false)) in
      let done := firstn (length fs - length (feeds s')) fs in
      Some (mkps s' (pbad y) (ptodo y) (pinq y ++ fed_parts done) (pwk y) (poutq y) (pnexts y) (pstopped y))
    end
  | PTake i =>
    match nth_error (pwk y) i, pinq y with
    | Some None, a :: r =>
      Some (mkps (ppar y) (pbad y) (ptodo y) r (upd_nth i (fun _ => Some a) (pwk y))
                 (poutq y ++ [PAck (fst a) (snd a) (pworker_pid y i)]) (pnexts y) (pstopped y))
    | _, _ => None
    end
  | PFinish i =>
    match nth_error (pwk y) i with
    | Some (Some a) =>
      Some (mkps (ppar y) (pbad y) (ptodo y) (pinq y) (upd_nth i (fun _ => None) (pwk y))
                 (poutq y ++ [PReady (fst a) (snd a) (pworker_pid y i) (part_ok (pbad y) a) (part_tag (fst a) (snd a))])
                 (pnexts y) (pstopped y))
    | _ => None
    end
  | PRecv =>
    match poutq y with
    | [] => None
    | PAck j i p :: r =>
      Some (mkps (fst (step (ppar y) (EAck j i p))) (pbad y) (ptodo y) (pinq y) (pwk y) r (pnexts y) (pstopped y))
    | PReady j i p ok t :: r =>
      Some (mkps (fst (step (ppar y) (EReady j i ok t))) (pbad y) (ptodo y) (pinq y) (pwk y) r (pnexts y) (pstopped y))
    end
  | PNext j =>
    if is_iter (ppar y) j && negb (memZ j (pstopped y)) then
      match step (ppar y) (ENext j) with
      | (_, REmpty) => None                 (* next() would block *)
      | (s', RStop) => Some (mkps s' (pbad y) (ptodo y) (pinq y) (pwk y) (poutq y) (pnexts y ++ [(j, RStop)]) (pstopped y ++ [j]))
      | (s', r) => Some (mkps s' (pbad y) (ptodo y) (pinq y) (pwk y) (poutq y) (pnexts y ++ [(j, r)]) (pstopped y))
      end
    else None
  end.

Definition pinit (c : config) (calls : list pcall) (bad : list part) : psys :=
  mkps (init c) bad calls [] (repeat None (Z.to_nat (c_n c))) [] [] [].

Fixpoint prun (y : psys) (sched : list pstep) : option psys :=
  match sched with
  | [] => Some y
  | a :: r => match parts_step y a with Some y' => prun y' r | None => None end
  end.

Definition pevent (y : psys) (a : pstep) : list event :=
  match a with
  | PSubmit => match ptodo y with c :: _ => [call_event c] | [] => [] end
  | PFeed => [EFeed None false]
  | PRecv => match poutq y with
             | PAck j i p :: _ => [EAck j i p]
             | PReady j i p ok t :: _ => [EReady j i ok t]
             | [] => []
             end
  | PNext j => [ENext j]
  | _ => []
  end.

Fixpoint pevents_of (y : psys) (sched : list pstep) : list event :=
  match sched with
  | [] => []
  | a :: r =>
    match parts_step y a with
    | None => []
    | Some y' => pevent y a ++ pevents_of y' r
    end
  end.

(* ------------------------------------------------------------------ where the parts are *)
Definition somep (w : list (option part)) : list part :=
  flat_map (fun o => match o with Some a => [a] | None => [] end) w.
Definition preadys (q : list pmsg) : list part :=
  flat_map (fun m => match m with PReady j i _ _ _ => [(j, i)] | PAck _ _ _ => [] end) q.
(* the parts written and not yet handled by the result handler *)
Definition ptokens (y : psys) : list part := pinq y ++ somep (pwk y) ++ preadys (poutq y).

(* the items the consumer may still take from iterator j without blocking *)
Definition pending_items (s : pool) : nat :=
  list_sum (map (fun x => if is_imap x then length (items x) else 0%nat) (jobs s)).
(* iterators that have not raised StopIteration yet *)
Definition open_iters (y : psys) : nat :=
  length (filter (fun x => is_imap x && negb (memZ (jid x) (pstopped y))) (jobs (ppar y))).

(* the work left: every step decreases it *)
Definition fed_weight (fs : list (Z * Z * bool)) : nat := list_sum (map (fun f => (5 * Z.to_nat (snd (fst f)) + 1)%nat) fs).
Definition call_weight (c : pcall) : nat :=
  match c with
  | CApply => 6
  | CMap n cs => 5 * n + 4
  | CIMap n => 6 * n + 4
  | CIMapU n => 6 * n + 4
  end.
Definition pwork (y : psys) : nat :=
  (list_sum (map call_weight (ptodo y)) + fed_weight (feeds (ppar y))
   + 4 * length (pinq y) + 2 * length (somep (pwk y)) + length (poutq y))%nat.

(* nothing left to do: everything written, executed, handled, and every iterator drained *)
Definition pidle (y : psys) : bool :=
  match ptodo y, feeds (ppar y), pinq y, somep (pwk y), poutq y with
  | [], [], [], [], [] => Nat.eqb (open_iters y) 0
  | _, _, _, _, _ => false
  end.

(* ------------------------------------------------------------------ correspondence *)
Definition pevent_eqb (a b : event) : bool :=
  match a, b with
  | EApply None None None None, EApply None None None None => true
  | EMap n cs, EMap n' cs' => (n =? n') && (cs =? cs')
  | EIMap n, EIMap n' => n =? n'
  | EIMapU n, EIMapU n' => n =? n'
  | EFeed None false, EFeed None false => true
  | EAck j i p, EAck j' i' p' => (j =? j') && opt_eqb Z.eqb i i' && (p =? p')
  | EReady j i ok t, EReady j' i' ok' t' => (j =? j') && opt_eqb Z.eqb i i' && Bool.eqb ok ok' && (t =? t')
  | ENext j, ENext j' => j =? j'
  | _, _ => false
  end.

Definition parts_case := (config * list pcall * list part * list pstep * list event * list obs * bool)%type.

Definition check_parts_case (c : parts_case) : Z :=
  let '(cfg, calls, bad, sched, evs, os, maximal) := c in
  match prun (pinit cfg calls bad) sched with
  | None => 7001
  | Some y =>
    if negb (list_eqb pevent_eqb (pevents_of (pinit cfg calls bad) sched) evs) then 7002
    else if maximal && negb (pidle y) then 7003
    else if negb maximal && pidle y then 7004
    else Pool.check_case (cfg, evs, os)
  end.
