(* The re-initialisation of an inherited Heap in a forked child, with TWO threads (C14, "from any thread").

     def malloc(self, size):
         assert 0 <= size < sys.maxsize
         if os.getpid() != self._lastpid:
             self.__init__()                     # reinitialize after fork
         with self._lock: ...

   Test and re-initialisation are executed OUTSIDE the lock, and the first statement of __init__ is
   `self._lastpid = os.getpid()`: from that moment every other thread's test passes although the lock, the
   four indexes, _allocated_blocks and _arenas are still the ones inherited from the parent.

   Events (one thread at a time runs; each event is a piece of real execution without interruption):
     FSetPid          the re-initialising thread executes the first statement of __init__
     FResetRest       ... and the remaining ones (new lock, Heap()'s default size, empty tables)
     FMalloc t n      thread t executes a complete malloc(n) whose pid test passes
   Arenas are objects: after FResetRest the arena numbers 0,1,.. name the child's new arenas, the blocks handed
   out before lie in arenas the heap no longer lists (numbered -1,-2,.. here: inherited_block). *)
From Coq Require Import ZArith List Bool.
From BV Require Import Lib.PyVal Model.Heap Model.HeapConc.
Import ListNotations.
Open Scope Z_scope.

Record fstate := mk_fstate {
  f_pid_ok : bool;                   (* os.getpid() == self._lastpid *)
  f_heap : heap;
  f_out : list (nat * block) }.      (* blocks handed out in this process: (thread, block) *)

Inductive fev := FSetPid | FResetRest | FMalloc (t : nat) (n : Z).

Definition fstep (pg dsize : Z) (s : fstate) (e : fev) : option (res fstate) :=
  match e with
  | FSetPid => if f_pid_ok s then None else Some (OK (mk_fstate true (f_heap s) (f_out s)))
  | FResetRest =>
    Some (OK (mk_fstate (f_pid_ok s) (heap_init dsize)
                        (map (fun tb => (fst tb, inherited_block (snd tb))) (f_out s))))
  | FMalloc t n =>
    if f_pid_ok s then
      match malloc pg (f_heap s) n with
      | Err e => Some (Err e)
      | OK (b, h') => Some (OK (mk_fstate true h' (f_out s ++ [(t, b)])))
      end
    else None      (* its test fails: it is the thread that re-initialises *)
  end.

Fixpoint frun (pg dsize : Z) (s : fstate) (evs : list fev) : option (res fstate) :=
  match evs with
  | [] => Some (OK s)
  | e :: r =>
    match fstep pg dsize s e with
    | None => None
    | Some (Err x) => Some (Err x)
    | Some (OK s') => frun pg dsize s' r
    end
  end.

(* the heap object as the child finds it *)
Definition finherit (h : heap) : fstate := mk_fstate false h [].
