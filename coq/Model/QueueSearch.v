(* QueueSearch: search for a schedule of a QueueProg program table on which a C16 monitor fails.
   Executable, no proofs in here.  It is a bug-finding device, not a proof: what it finds is a
   CANDIDATE schedule, which props/C16.py replays on billiard's real queue classes
   (harness/c16_driver.py, mode replay) before anything is reported as a concrete failure.

   The program table is a parameter: props/C16.py runs the search on the table compiled from the
   working tree on this run (the model follows the code), whether or not it still equals the
   hand-kept Model/QueueCode.v.

   Explored: ALL schedules with at most K preemptions (a preemption = a switch away from a thread
   that could have continued; switches at blocking / finishing points are free) -- the same
   bound as mode `bounded` of the driver.  At every leaf (no thread enabled) the observation the
   driver would have reported is rebuilt from the model run (events, call index of each event,
   results, finished flags, semaphores, pipe, buffers, what each thread is blocked on) and the
   monitors of Model/QueueCheck.v are evaluated on it. *)
From Coq Require Import ZArith List Bool.
From BV Require Import Lib.Cases Model.SemProg Model.QueueProg Model.QueueCode Model.QueueCheck.
Import ListNotations.
Open Scope Z_scope.

Section Search.
Variable code : nat -> list qinstr.
Variables (kind maxsize : Z) (scripts : list (list qcall)) (own : list nat).

(* the choices enabled in g, in the order harness/detsched.Scheduler.options lists them *)
Definition qenabled (g : qsys) : list (nat * bool) :=
  flat_map (fun i =>
              (match qstep code g i true with Some _ => [(i, true)] | None => [] end)
              ++ (match qstep code g i false with Some _ => [(i, false)] | None => [] end))
           (seq 0 (length (qthr g))).

(* what thread t is parked on: -1 finished / dormant, 100 the pipe, else the semaphore id *)
Definition qpend (g : qsys) (it : nat * qthread) : Z :=
  let '(i, t) := it in
  if qfin t || qexited code t then -1
  else if qdormant g i t then -1
  else match nth_error (code (qcid t)) (qpc t) with
       | Some (QAcq s _ _ _) | Some (QRel s) | Some (QIsZero s _) => Z.of_nat (sid (qproc t) s)
       | Some (QSend _) | Some (QRecv _) | Some (QPoll _ _) => 100
       | Some (QClock _) => 101
       | Some QStartThread => 102
       | _ => -1
       end.

Definition indexed {A} (l : list A) : list (nat * A) := combine (seq 0 (length l)) l.

Definition qquiet (g : qsys) : bool :=
  forallb (fun it : nat * qthread => let '(i, t) := it in qfin t || qexited code t || qdormant g i t) (indexed (qthr g)).

(* the observation of a finished run, from the model state and the (reversed) logs *)
Definition qleaf_obs (g : qsys) (res : list event) (rks : list nat) : qobserved :=
  (rev res, rev rks, map (fun t => rev (map snd (qresults t))) (qthr g), map (fun t => qfin t || qexited code t) (qthr g),
   map val (qsems g), pipe g, map buf (procs g), map (qpend g) (indexed (qthr g)),
   if qquiet g then 0 else 1).

Definition qleaf_bad (g : qsys) (res : list event) (rks : list nat) : bool :=
  negb (qmonitors kind maxsize scripts own (qleaf_obs g res rks)).

Definition callidx_of (g : qsys) (i : nat) : nat :=
  match nth_error (qthr g) i with Some t => length (qresults t) | None => O end.

(* depth-first, first failing leaf wins; returns (#leaves visited, failing schedule).
   fuel bounds the length of a schedule (a leaf cut by the fuel is counted, not judged).
   sel = [(j0, m0); (j1, m1); ...]: at depth d only the enabled choices whose position is
   congruent to j_d modulo m_d are followed (sharding; [] from then on: all of them). *)
Fixpoint qsearch (fuel K : nat) (sel : list (nat * nat)) (g : qsys) (cur : option nat) (used : nat)
         (rsched : list (nat * bool)) (res : list event) (rks : list nat)
  : nat * option (list (nat * bool)) :=
  match fuel with
  | O => (1%nat, None)
  | S f =>
    let opts := qenabled g in
    match opts with
    | [] => (1%nat, if qleaf_bad g res rks then Some (rev rsched) else None)
    | _ =>
      let cur_enabled := match cur with
                         | Some c => existsb (fun o => Nat.eqb (fst o) c) opts
                         | None => false end in
      let '(keep, sel') := match sel with
                           | [] => (fun _ : nat => true, [])
                           | (j, m) :: r => (fun k : nat => Nat.eqb (Nat.modulo k m) j, r)
                           end in
      (fix go (l : list (nat * bool)) (k n : nat) : nat * option (list (nat * bool)) :=
         match l with
         | [] => (n, None)
         | (i, b) :: l' =>
           let cost := if cur_enabled && negb (match cur with Some c => Nat.eqb i c | None => true end)
                       then 1%nat else 0%nat in
           if keep k && Nat.leb (used + cost) K then
             match qstep code g i b with
             | Some (g1, e) =>
               let '(n1, r) := qsearch f K sel' g1 (Some i) (used + cost)%nat ((i, b) :: rsched) (e :: res)
                                       (callidx_of g i :: rks) in
               match r with
               | Some s => ((n + n1)%nat, Some s)
               | None => go l' (S k) (n + n1)%nat
               end
             | None => go l' (S k) n
             end
           else go l' (S k) n
         end) opts O O
    end
  end.

End Search.

(* one search job: program table, FEED id and world constructor of that table, the
   configuration (scripts per pair, process of each pair), the preemption bound, the shard selector.  Result: (#leaves, 1 if a failing
   schedule was found, the schedule as 2 * thread + go). *)
Definition qsearch_job (code : nat -> list qinstr) (FEEDid : nat) (world : Z -> list sem)
           (kind maxsize : Z) (scripts : list (list qcall)) (own : list nat) (K fuel : nat) (sel : list (nat * nat))
  : Z * Z * list Z :=
  let g0 := qinit_sys code FEEDid (world maxsize ++ proc_sems (length scripts)) own scripts in
  let '(n, r) := qsearch code kind maxsize scripts own fuel K sel g0 None 0 [] [] [] in
  match r with
  | Some s => (Z.of_nat n, 1, map (fun x : nat * bool => 2 * Z.of_nat (fst x) + (if snd x then 1 else 0)) s)
  | None => (Z.of_nat n, 0, [])
  end.
