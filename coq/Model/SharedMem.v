(* Model of billiard.sharedctypes on top of Model/Heap.v.  Executable, no proofs in here.

   Memory = the arenas as byte maps (arena index -> offset -> byte); a fresh arena is
   zero-filled (heap.Arena writes zeros into the backing file), freeing a block does not
   touch its bytes (so recycled storage is dirty).
   A shared object = (block, size) -- heap.BufferWrapper._state -- and addresses the bytes
   [start, start+size) of its arena.
   Creation functions are interpreters over the effect sequences that the translator
   regenerates from sharedctypes.py (Gen/G_sharedmem.v):
       RawValue(t, args)      : allocate, memset 0, __init__ with args
       RawArray(t, n)          : allocate, memset 0
       RawArray(t, initialiser): allocate, __init__ with the initialiser
   Part 2: the lock-wrapped read-modify-write `with v.get_lock(): v.value += 1` as a small
   instruction list and an interleaving semantics for any number of threads. *)
From Coq Require Import ZArith List Bool.
From BV Require Import Lib.PyVal Model.Heap.
Import ListNotations.
Open Scope Z_scope.

(* ---- memory ------------------------------------------------------------------- *)
Definition mem := Z -> Z -> Z.
Definition mem0 : mem := fun _ _ => 0.

Definition mwrite1 (m : mem) (a off v : Z) : mem :=
  fun a' o' => if (a' =? a) && (o' =? off) then v else m a' o'.
Fixpoint mwrite (m : mem) (a off : Z) (bs : list Z) : mem :=
  match bs with
  | [] => m
  | b :: r => mwrite (mwrite1 m a off b) a (off + 1) r
  end.
Fixpoint mread (m : mem) (a off : Z) (n : nat) : list Z :=
  match n with
  | O => []
  | S k => m a off :: mread m a (off + 1) k
  end.

Record obj := mk_obj { o_block : block; o_size : Z }.
Definition o_arena (o : obj) : Z := b_arena (o_block o).
Definition o_start (o : obj) : Z := b_start (o_block o).

(* bytes(obj) *)
Definition o_read (m : mem) (o : obj) : list Z :=
  mread m (o_arena o) (o_start o) (Z.to_nat (o_size o)).
(* a store through the object's buffer; None = outside the object (ctypes refuses) *)
Definition o_write (m : mem) (o : obj) (off : Z) (bs : list Z) : option mem :=
  if (0 <=? off) && (off + Z.of_nat (length bs) <=? o_size o)
  then Some (mwrite m (o_arena o) (o_start o + off) bs) else None.

(* ---- creation ------------------------------------------------------------------- *)
Inductive ceffect :=
| ENew      (* _new_value(type_): size = sizeof(type_); BufferWrapper(size) -> heap.malloc(size) *)
| EZero     (* ctypes.memset(addressof(obj), 0, sizeof(obj)) *)
| EInit.    (* obj.__init__ with args: stores the encodings of the given values *)

Definition rawvalue_prog : list ceffect := [ENew; EZero; EInit].
Definition rawarray_n_prog : list ceffect := [ENew; EZero].
Definition rawarray_init_prog : list ceffect := [ENew; EInit].

Record smstate := mk_sm { sm_heap : heap; sm_mem : mem }.

(* one effect; `cur` = the object under construction.  `init` = the bytes __init__ stores at
   the start of the object ([] when called without arguments) *)
Definition do_effect (pg size : Z) (init : list Z) (s : smstate) (cur : option obj) (e : ceffect)
  : res (smstate * option obj) :=
  match e, cur with
  | ENew, None =>
      do (b, h') <- malloc pg (sm_heap s) size;
      OK (mk_sm h' (sm_mem s), Some (mk_obj b size))
  | EZero, Some o =>
      OK (mk_sm (sm_heap s) (mwrite (sm_mem s) (o_arena o) (o_start o) (repeat 0 (Z.to_nat (o_size o)))), cur)
  | EInit, Some o =>
      match o_write (sm_mem s) o 0 init with
      | Some m' => OK (mk_sm (sm_heap s) m', cur)
      | None => Err ValueError
      end
  | _, _ => Err TypeError
  end.

Fixpoint do_effects (pg size : Z) (init : list Z) (s : smstate) (cur : option obj) (p : list ceffect)
  : res (smstate * option obj) :=
  match p with
  | [] => OK (s, cur)
  | e :: r => do (s', cur') <- do_effect pg size init s cur e; do_effects pg size init s' cur' r
  end.

Definition create (p : list ceffect) (pg size : Z) (init : list Z) (s : smstate) : res (smstate * obj) :=
  do (s', cur) <- do_effects pg size init s None p;
  match cur with Some o => OK (s', o) | None => Err TypeError end.

Definition raw_value := create rawvalue_prog.
Definition raw_array_n (pg size : Z) := create rawarray_n_prog pg size [].
Definition raw_array_init := create rawarray_init_prog.

(* dropping the last reference: util.Finalize calls heap.free(block) *)
Definition drop (s : smstate) (o : obj) : res smstate :=
  do h' <- free (sm_heap s) (o_block o); OK (mk_sm h' (sm_mem s)).

(* pickling a shared object sends (type, wrapper, length); the wrapper's state is (block, size)
   and the arena travels as its file descriptor: the rebuilt object has the same (block, size) *)
Definition reduce_obj (o : obj) : block * Z := (o_block o, o_size o).
Definition rebuild_obj (st : block * Z) : obj := mk_obj (fst st) (snd st).

Definition none_obj_w : obj := mk_obj (-1, -1, -1) 0.

(* a lock-wrapped object.  A lock is named by the semaphore behind it.  The `lock` argument of
   synchronized(obj, lock, ctx) / SynchronizedBase.__init__ is None or an object with a truth value:

       if lock:  self._lock = lock
       else:     ctx = ctx or get_context(force=True); self._lock = ctx.RLock()

   i.e. the wrapper keeps the lock it is given only when bool(lock) is true; otherwise it makes a fresh
   recursive lock of its own (`fresh` = the semaphore that ctx.RLock() creates: an oracle).  WHICH test
   guards the assignment is regenerated from the code (Gen/G_sharedmem.wrapper_lock_test). *)
Inductive lock_test :=
| LockTruthy       (* if lock: *)
| LockNotNone      (* if lock is not None: *)
| LockAlways.      (* unconditional self._lock = lock *)
Definition lockarg := option (Z * bool).     (* None, or Some (semaphore, bool(lock)) *)

Record wrapper := mk_wrapper { wr_obj : obj; wr_lock : Z }.
Definition keeps_lock (t : lock_test) (lock : lockarg) : option Z :=
  match t, lock with
  | LockTruthy, Some (l, true) => Some l
  | LockTruthy, _ => None
  | (LockNotNone | LockAlways), Some (l, _) => Some l
  | (LockNotNone | LockAlways), None => None
  end.
Definition synchronized_gen (t : lock_test) (o : obj) (lock : lockarg) (fresh : Z) : wrapper :=
  match keeps_lock t lock with Some l => mk_wrapper o l | None => mk_wrapper o fresh end.
(* the code's test *)
Definition wrapper_lock_test : lock_test := LockTruthy.
Definition synchronized_w := synchronized_gen wrapper_lock_test.
(* a wrapper pickles as (synchronized, (obj, self._lock)); self._lock is a lock that passed the test above
   or a ctx.RLock() -- billiard's lock classes define neither __bool__ nor __len__, so it is truthy
   (checked by the generator) and the rebuilt wrapper keeps it *)
Definition reduce_wrapper (w : wrapper) : (block * Z) * Z := (reduce_obj (wr_obj w), wr_lock w).
Definition rebuild_wrapper (st : (block * Z) * Z) (fresh : Z) : wrapper :=
  synchronized_w (rebuild_obj (fst st)) (Some (snd st, true)) fresh.
(* correspondence of the lock handed to Value/Array/synchronized: `given` = None for lock=None, else the
   truth value of the lock object; `same` = what the real wrapper did (get_lock() is the given object).
   0 = the model predicts it *)
Definition check_lockarg (c : option bool * bool) : Z :=
  let '(given, same) := c in
  let lock := match given with Some tv => Some (1, tv) | None => None end in
  if Bool.eqb same (wr_lock (synchronized_w none_obj_w lock 2) =? 1) then 0 else 1.
(* number of wrapper-returning branches of synchronized() *)
Definition synchronized_branches : nat := 4.

(* ---- part 2: locked read-modify-write ------------------------------------------------
   `with v.get_lock(): v.value += 1` on a Synchronized value whose lock is recursive:
     with lock:            Acq
       tmp = v.value       Acq Read Rel        (getvalue: acquire, read, release)
       v.value = tmp + 1   Acq Write Rel       (setvalue: acquire, write, release)
                           Rel *)
Inductive instr := Acq | Rel | Read | Write.
Definition incr_prog : list instr := [Acq; Acq; Read; Rel; Acq; Write; Rel; Rel].
(* the same without the outer `with` (each access is atomic, the increment is not) *)
Definition incr_unlocked_prog : list instr := [Acq; Read; Rel; Acq; Write; Rel].

Record thread := mk_thread { t_pc : nat; t_reg : Z; t_left : nat }.   (* t_left: iterations to go *)
Record world := mk_world {
  w_owner : option (nat * nat);     (* recursive lock: owner thread, depth *)
  w_val : Z;
  w_threads : list thread }.

Fixpoint set_nth {A} (l : list A) (i : nat) (x : A) : list A :=
  match l, i with
  | [], _ => []
  | _ :: r, O => x :: r
  | y :: r, S j => y :: set_nth r j x
  end.

(* after the last instruction of the program: next iteration or finished *)
Definition advance (prog : list instr) (t : thread) : thread :=
  let pc' := S (t_pc t) in
  if Nat.eqb pc' (length prog)
  then mk_thread 0 (t_reg t) (pred (t_left t))
  else mk_thread pc' (t_reg t) (t_left t).

(* thread i takes one step; None = not enabled (finished, or blocked on the lock) *)
Definition wstep (prog : list instr) (w : world) (i : nat) : option world :=
  match nth_error (w_threads w) i with
  | None => None
  | Some t =>
    if Nat.eqb (t_left t) 0 then None else
    match nth_error prog (t_pc t) with
    | None => None
    | Some Acq =>
        match w_owner w with
        | None => Some (mk_world (Some (i, 1%nat)) (w_val w) (set_nth (w_threads w) i (advance prog t)))
        | Some (o, d) => if Nat.eqb o i
                         then Some (mk_world (Some (i, S d)) (w_val w) (set_nth (w_threads w) i (advance prog t)))
                         else None
        end
    | Some Rel =>
        match w_owner w with
        | Some (o, d) =>
            if Nat.eqb o i
            then Some (mk_world (match d with 1%nat => None | _ => Some (i, pred d) end)
                                (w_val w) (set_nth (w_threads w) i (advance prog t)))
            else None       (* releasing a lock one does not own: the real lock raises *)
        | None => None
        end
    | Some Read =>
        Some (mk_world (w_owner w) (w_val w)
                       (set_nth (w_threads w) i (advance prog (mk_thread (t_pc t) (w_val w) (t_left t)))))
    | Some Write =>
        Some (mk_world (w_owner w) (t_reg t + 1) (set_nth (w_threads w) i (advance prog t)))
    end
  end.

(* run a schedule (list of thread indices); steps that are not enabled are skipped *)
Fixpoint wrun (prog : list instr) (w : world) (sched : list nat) : world :=
  match sched with
  | [] => w
  | i :: r => match wstep prog w i with Some w' => wrun prog w' r | None => wrun prog w r end
  end.

(* the same with a program per thread (updaters that do not all follow the same discipline) *)
Definition wstep_h (progs : nat -> list instr) (w : world) (i : nat) : option world := wstep (progs i) w i.
Fixpoint wrun_h (progs : nat -> list instr) (w : world) (sched : list nat) : world :=
  match sched with
  | [] => w
  | i :: r => match wstep_h progs w i with Some w' => wrun_h progs w' r | None => wrun_h progs w r end
  end.

Definition world_init (v0 : Z) (nthreads k : nat) : world :=
  mk_world None v0 (repeat (mk_thread 0 0 k) nthreads).
Definition all_done (w : world) : bool := forallb (fun t => Nat.eqb (t_left t) 0) (w_threads w).

(* ---- correspondence ---------------------------------------------------------------- *)
From BV Require Import Lib.Cases.

Inductive sop :=
| SNew (kind : Z) (size : Z) (init : list Z)   (* kind 0 RawValue, 1 RawArray(n), 2 RawArray(init) *)
| SDrop (k : nat)
| SWrite (k : nat) (off : Z) (bs : list Z)
| SRebuild (k : nat).                          (* a second object over the same wrapper *)

(* observation after every op: the block and size of the object the op created (or none),
   and bytes(o) of every live object in creation order *)
Definition sobs := (block * Z * list (nat * list Z))%type.

Definition none_obj : obj := mk_obj none_block 0.

Fixpoint live_reads (m : mem) (objs : list (option obj)) (i : nat) : list (nat * list Z) :=
  match objs with
  | [] => []
  | Some o :: r => (i, o_read m o) :: live_reads m r (S i)
  | None :: r => live_reads m r (S i)
  end.

Definition prog_of_kind (kind : Z) : list ceffect :=
  if kind =? 0 then rawvalue_prog else if kind =? 1 then rawarray_n_prog else rawarray_init_prog.

(* rebuild_ctype(type_, wrapper, length) attaches the SAME wrapper object to the new ctypes object
   (`obj._wrapper = wrapper`): the wrapper -- and with it the block, freed by the wrapper's finaliser --
   lives as long as any of the objects built over it.  In the object table the objects over one wrapper
   are those with the same block. *)
Definition shares_wrapper (objs : list (option obj)) (ob : obj) : bool :=
  existsb (fun x => match x with Some o' => block_eqb (o_block o') (o_block ob) | None => false end) objs.

Definition sstep (pg : Z) (s : smstate) (objs : list (option obj)) (o : sop)
  : res (smstate * list (option obj) * (block * Z)) :=
  match o with
  | SNew kind size init =>
      do (s', ob) <- create (prog_of_kind kind) pg size init s;
      OK (s', objs ++ [Some ob], (o_block ob, o_size ob))
  | SDrop k =>
      match nth k objs None with
      | Some ob =>
          let objs' := set_nth objs k None in
          if shares_wrapper objs' ob then OK (s, objs', (none_block, 0))
          else do s' <- drop s ob; OK (s', objs', (none_block, 0))
      | None => Err KeyError
      end
  | SWrite k off bs =>
      match nth k objs None with
      | Some ob => match o_write (sm_mem s) ob off bs with
                   | Some m' => OK (mk_sm (sm_heap s) m', objs, (none_block, 0))
                   | None => Err ValueError
                   end
      | None => Err KeyError
      end
  | SRebuild k =>
      match nth k objs None with
      | Some ob => let ob' := rebuild_obj (reduce_obj ob) in
                   OK (s, objs ++ [Some ob'], (o_block ob', o_size ob'))
      | None => Err KeyError
      end
  end.

(* objects created by SRebuild share their wrapper (hence their block) with the original: dropping
   one of them frees the block only when it is the last one (sstep, SDrop) *)
Fixpoint srun (pg : Z) (s : smstate) (objs : list (option obj)) (ops : list sop) : list sobs :=
  match ops with
  | [] => []
  | o :: r =>
    match sstep pg s objs o with
    | Err _ => [((-2, -2, -2), -2, [])]
    | OK (s', objs', (b, sz)) => (b, sz, live_reads (sm_mem s') objs' O) :: srun pg s' objs' r
    end
  end.

Definition reads_eqb (a b : list (nat * list Z)) : bool :=
  list_eqb (fun x y => Nat.eqb (fst x) (fst y) && list_eqb Z.eqb (snd x) (snd y)) a b.
Definition sobs_eqb (a b : sobs) : bool :=
  let '(b1, s1, r1) := a in let '(b2, s2, r2) := b in
  block_eqb b1 b2 && (s1 =? s2) && reads_eqb r1 r2.

(* case = page size, Heap(size), ops, implementation observations *)
Definition case := (Z * Z * list sop * list sobs)%type.
(* 0 = the model predicts every block and every byte of every live object; 1 = it does not
   (the property itself is judged on the implementation trace by the monitor in props/C15.py) *)
Definition check_case (c : case) : Z :=
  let '(pg, size, ops, obs) := c in
  if list_eqb sobs_eqb obs (srun pg (mk_sm (heap_init size) mem0) [] ops) then 0 else 1.

(* lock trace of `with v.get_lock(): v.value += 1` recorded on the real Synchronized wrapper *)
Definition instr_eqb (a b : instr) : bool :=
  match a, b with Acq, Acq | Rel, Rel | Read, Read | Write, Write => true | _, _ => false end.
Definition check_trace (locked : bool) (tr : list instr) : Z :=
  if list_eqb instr_eqb tr (if locked then incr_prog else incr_unlocked_prog) then 0 else 1.
